"""Interpreter for the small, side-effect-free decision functions of the repository
(filter_val, filter_in, filter_not_in ...) over a *finite order domain*.

The functions touch their operands only through comparisons (checked separately by the
order-only dataflow rule), so their behaviour on all inputs is determined by the order
type of the operands.  Operands are represented by integer ranks; the interpreter walks
the function's AST (it never imports or runs repository code) and supports exactly the
statement and expression forms those functions use.  Anything else raises Unsupported,
which the caller reports as ANALYSIS-ERROR.
"""
import ast

from .model import callee


class Unsupported(Exception):
    pass


class Raises(Exception):
    """the interpreted code would raise (e.g. ordering comparison with None)"""


class _Return(Exception):
    def __init__(self, v):
        self.v = v


class Interp:
    def __init__(self, funcs, max_steps=2000):
        """funcs: name -> FunctionDef that may be called from the interpreted code"""
        self.funcs = funcs
        self.steps = 0
        self.max_steps = max_steps

    def call(self, name, args, kwargs=None):
        f = self.funcs[name]
        env = {}
        params = [a.arg for a in f.args.args]
        defaults = f.args.defaults
        for i, p in enumerate(params):
            if i < len(args):
                env[p] = args[i]
            elif kwargs and p in kwargs:
                env[p] = kwargs[p]
            else:
                di = i - (len(params) - len(defaults))
                if di < 0:
                    raise Unsupported('missing argument %s' % p)
                env[p] = self.ev(defaults[di], {})
        try:
            self.block(f.body, env)
        except _Return as r:
            return r.v
        return None

    def block(self, stmts, env):
        for st in stmts:
            self.steps += 1
            if self.steps > self.max_steps:
                raise Unsupported('step budget exceeded')
            if isinstance(st, ast.Expr) and isinstance(st.value, ast.Constant):
                continue   # docstring
            if isinstance(st, ast.Return):
                raise _Return(self.ev(st.value, env) if st.value is not None else None)
            if isinstance(st, ast.If):
                if self.truth(self.ev(st.test, env)):
                    self.block(st.body, env)
                else:
                    self.block(st.orelse, env)
                continue
            if isinstance(st, ast.Assign) and len(st.targets) == 1 and isinstance(st.targets[0], ast.Name):
                env[st.targets[0].id] = self.ev(st.value, env)
                continue
            if isinstance(st, ast.Pass):
                continue
            raise Unsupported('statement %s' % type(st).__name__)

    def truth(self, v):
        if isinstance(v, list):
            return len(v) > 0
        return bool(v)

    def ev(self, e, env):
        if isinstance(e, ast.Constant):
            return e.value
        if isinstance(e, ast.Name):
            if e.id in env:
                return env[e.id]
            raise Unsupported('free name %s' % e.id)
        if isinstance(e, ast.List):
            return [self.ev(x, env) for x in e.elts]
        if isinstance(e, ast.Tuple):
            return tuple(self.ev(x, env) for x in e.elts)
        if isinstance(e, ast.BoolOp):
            if isinstance(e.op, ast.And):
                v = True
                for x in e.values:
                    v = self.ev(x, env)
                    if not self.truth(v):
                        return v
                return v
            v = False
            for x in e.values:
                v = self.ev(x, env)
                if self.truth(v):
                    return v
            return v
        if isinstance(e, ast.UnaryOp) and isinstance(e.op, ast.Not):
            return not self.truth(self.ev(e.operand, env))
        if isinstance(e, ast.UnaryOp) and isinstance(e.op, ast.USub):
            v = self.ev(e.operand, env)
            if isinstance(v, int):
                return -v
            raise Unsupported('negation')
        if isinstance(e, ast.Compare):
            left = self.ev(e.left, env)
            for op, right_e in zip(e.ops, e.comparators):
                right = self.ev(right_e, env)
                if not self.cmp(op, left, right):
                    return False
                left = right
            return True
        if isinstance(e, ast.Subscript):
            v = self.ev(e.value, env)
            i = self.ev(e.slice, env)
            if isinstance(v, (list, tuple)) and isinstance(i, int):
                try:
                    return v[i]
                except IndexError:
                    raise Raises('IndexError')
            raise Unsupported('subscript')
        if isinstance(e, ast.Call):
            c = callee(e)
            args = [self.ev(a, env) for a in e.args]
            kw = {k.arg: self.ev(k.value, env) for k in e.keywords}
            if c == 'len':
                return len(args[0])
            if c == 'sorted':
                return sorted(args[0])
            if c in ('np.searchsorted', 'numpy.searchsorted'):
                import bisect
                side = kw.get('side', args[2] if len(args) > 2 else 'left')
                if args[1] is None:
                    raise Raises('searchsorted(None)')
                return (bisect.bisect_left if side == 'left' else bisect.bisect_right)(args[0], args[1])
            if c == 'isinstance':
                raise Unsupported('isinstance')
            if c in self.funcs:
                return self.call(c, args, kw)
            raise Unsupported('call %s' % c)
        if isinstance(e, ast.IfExp):
            return self.ev(e.body, env) if self.truth(self.ev(e.test, env)) else self.ev(e.orelse, env)
        raise Unsupported('expression %s' % type(e).__name__)

    def cmp(self, op, a, b):
        if isinstance(op, ast.Is):
            return a is b
        if isinstance(op, ast.IsNot):
            return a is not b
        if isinstance(op, ast.In):
            return a in b
        if isinstance(op, ast.NotIn):
            return a not in b
        if isinstance(op, ast.Eq):
            return a == b
        if isinstance(op, ast.NotEq):
            return a != b
        if a is None or b is None:
            raise Raises('ordering comparison with None')
        if isinstance(a, str) != isinstance(b, str):
            raise Raises('ordering comparison str/int')
        if isinstance(op, ast.Lt):
            return a < b
        if isinstance(op, ast.LtE):
            return a <= b
        if isinstance(op, ast.Gt):
            return a > b
        if isinstance(op, ast.GtE):
            return a >= b
        raise Unsupported('operator')
