"""Reachability over the control skeleton of the bit-(un)packing loops of cencoding.pyx.

The loops' control flow depends only on small counters (left/right or bit) and the bit
width - never on payload bytes (checked by a def-use pass).  For a given width the
skeleton is therefore a deterministic finite transition system over the counters; we
extract guards and updates from the AST (through the Cython front end), iterate it from
the initial state until a state repeats, and check at every *append* `x << c` and
*extract* `x >> c` the C-level obligations for the declared operand types:

  append  data |= byte << left   : left + 8 <= W(data)  and  left < W(promoted operand)
  extract (data >> right) & mask : right + width <= W(data)
  counters stay inside the range of their declared C type (no wrap / signed overflow)

No input bytes exist in the model and nothing is executed.
"""
import ast

from .model import AnalysisError, norm, src

CWIDTH = {'uint8_t': (8, False), 'unsigned char': (8, False), 'char': (8, True), 'int8_t': (8, True),
          'int16_t': (16, True), 'uint16_t': (16, False), 'int32_t': (32, True), 'uint32_t': (32, False),
          'int': (32, True), 'int64_t': (64, True), 'uint64_t': (64, False)}


def crange(t):
    w, signed = CWIDTH[t]
    return (-(1 << (w - 1)), (1 << (w - 1)) - 1) if signed else (0, (1 << w) - 1)


class Skeleton:
    def __init__(self, func, loop, types, counters, width_name, acc_name, cast_types=None):
        self.func, self.loop, self.types = func, loop, types
        self.counters, self.width_name, self.acc = counters, width_name, acc_name
        self.steps = []

    # -- expression evaluation over integer environment ---------------------
    def ev(self, e, env):
        if isinstance(e, ast.Constant) and isinstance(e.value, int):
            return e.value
        if isinstance(e, ast.Name):
            if e.id in env:
                return env[e.id]
            raise AnalysisError('bit loop %s: guard/update reads %s which is not a control variable '
                                '(payload must not influence control)' % (self.func.name, e.id))
        if isinstance(e, ast.BinOp):
            a, b = self.ev(e.left, env), self.ev(e.right, env)
            if isinstance(e.op, ast.Add):
                return a + b
            if isinstance(e.op, ast.Sub):
                return a - b
            if isinstance(e.op, ast.Mult):
                return a * b
        if isinstance(e, ast.Compare) and len(e.ops) == 1:
            a, b = self.ev(e.left, env), self.ev(e.comparators[0], env)
            op = e.ops[0]
            return {ast.Lt: a < b, ast.LtE: a <= b, ast.Gt: a > b, ast.GtE: a >= b, ast.Eq: a == b, ast.NotEq: a != b}[type(op)]
        if isinstance(e, ast.UnaryOp) and isinstance(e.op, ast.Not):
            return not self.ev(e.operand, env)
        raise AnalysisError('bit loop %s: unsupported control expression %s' % (self.func.name, norm(e)))

    def shifts_in(self, stmt):
        """(kind, count-expr, operand-type-width) for shifts involving a control counter"""
        out = []
        for n in ast.walk(stmt):
            if isinstance(n, ast.BinOp) and isinstance(n.op, (ast.LShift, ast.RShift)):
                names = {x.id for x in ast.walk(n.right) if isinstance(x, ast.Name)}
                if names & set(self.counters):
                    out.append(('append' if isinstance(n.op, ast.LShift) else 'extract', n))
        return out

    def operand_width(self, shl):
        """width of the promoted left operand of `x << c`"""
        left = shl.left
        t = norm(left)
        if isinstance(left, ast.Call) and norm(left.func) == '_cast':
            ct = left.args[0].value
            return CWIDTH.get(ct, (32, True))[0]
        # C integer promotion: char/uint8 & 0xff -> int (32)
        for n in ast.walk(left):
            if isinstance(n, ast.Name) and self.types.get(n.id) in CWIDTH and CWIDTH[self.types[n.id]][0] >= 32:
                return CWIDTH[self.types[n.id]][0]
        return 32

    def run_body(self, stmts, env, width, issues, trace):
        for st in stmts:
            if isinstance(st, ast.If):
                try:
                    taken = self.ev(st.test, env)
                except AnalysisError:
                    # a guard over non-control values (output capacity, item size): allowed only when
                    # neither branch updates a control counter; both branches are then examined
                    for n in ast.walk(st):
                        if isinstance(n, ast.AugAssign) and isinstance(n.target, ast.Name) and n.target.id in self.counters:
                            raise
                    self.run_body(st.body, env, width, issues, trace)
                    self.run_body(st.orelse, env, width, issues, trace)
                    continue
                self.run_body(st.body if taken else st.orelse, env, width, issues, trace)
                continue
            if isinstance(st, ast.While):
                guard = 0
                while self.ev(st.test, env):
                    guard += 1
                    if guard > 64:
                        raise AnalysisError('bit loop: inner loop does not terminate')
                    self.run_body(st.body, env, width, issues, trace)
                continue
            for kind, n in self.shifts_in(st):
                c = self.ev(n.right, env)
                accw, acc_signed = CWIDTH[self.types[self.acc]]
                if acc_signed:
                    # a payload bit reaching the sign bit is sign-extended by the later `acc >>= 8`
                    accw -= 1
                if kind == 'append':
                    opw = self.operand_width(n)
                    payload = 8 if 'byte' in norm(n.left) or '0xff' in norm(n.left).lower() or '255' in norm(n.left) else width
                    if c >= opw:
                        issues.add('shift-count-%d>=operand-width-%d' % (c, opw) if False else 'shift>=operand-width')
                    if c + payload > accw:
                        issues.add('bits-shifted-out-of-accumulator')
                    trace.append(('append', c))
                else:
                    if c + width > accw:
                        issues.add('extract-beyond-accumulator')
                    trace.append(('extract', c))
            if isinstance(st, ast.AugAssign) and isinstance(st.target, ast.Name) and st.target.id in self.counters:
                v = self.ev(st.value, env)
                new = env[st.target.id] + v if isinstance(st.op, ast.Add) else env[st.target.id] - v
                lo, hi = crange(self.types[st.target.id])
                if not lo <= new <= hi:
                    issues.add('counter-%s-leaves-%s-range' % (st.target.id, self.types[st.target.id]))
                    w = CWIDTH[self.types[st.target.id]][0]
                    new = (new - lo) % (1 << w) + lo
                env[st.target.id] = new
            elif isinstance(st, ast.Assign) and isinstance(st.targets[0], ast.Name) and st.targets[0].id in self.counters:
                env[st.targets[0].id] = self.ev(st.value, env)

    def explore(self, width, init, max_steps=4096):
        env = dict(init)
        env[self.width_name] = width
        seen = set()
        issues = set()
        trace = []
        steps = 0
        while steps < max_steps:
            key = tuple(env[c] for c in self.counters)
            if key in seen:
                break
            seen.add(key)
            self.run_body(self.loop.body, env, width, issues, trace)
            steps += 1
        return issues, len(seen), trace[:12]


def control_independent_of_payload(func, loop, counters, width_name, payload):
    """no payload name flows into a guard or a counter update of the loop"""
    bad = []
    for n in ast.walk(loop):
        exprs = []
        if isinstance(n, (ast.If, ast.While)) and n is not loop:
            exprs.append(n.test)
        if isinstance(n, ast.AugAssign) and isinstance(n.target, ast.Name) and n.target.id in counters:
            exprs.append(n.value)
        for e in exprs:
            names = {x.id for x in ast.walk(e) if isinstance(x, ast.Name)}
            if names & set(payload):
                bad.append(norm(e))
    return bad
