"""Canonical local names: undo behaviour-preserving renames of local variables.

The rules name locals of the pinned tree (footer_start, i_offset, rgs ...).  For every top-level
function/method we keep, in engine/refnames.json, the ordered list of its local binding sites
(name, kind of binding statement) as confirmed on the pinned tree.  When the function analysed
has the same sequence of binding kinds but different names, its locals are renamed back to the
reference names (a bijection is required, and no reference name may already be in use for
something else).  Any other difference leaves the function untouched."""
import ast
import builtins
import json
import os

REF_PATH = os.path.join(os.path.dirname(os.path.abspath(__file__)), 'refnames.json')
SHAPE_PATH = os.path.join(os.path.dirname(os.path.abspath(__file__)), 'refshapes.json')
_REF = None
_SHAPES = None


def shapes():
    global _SHAPES
    if _SHAPES is None:
        _SHAPES = json.load(open(SHAPE_PATH)) if os.path.exists(SHAPE_PATH) else {}
    return _SHAPES


def ref():
    global _REF
    if _REF is None:
        _REF = json.load(open(REF_PATH)) if os.path.exists(REF_PATH) else {}
    return _REF


def _ordered(node):
    """nodes of the subtree in source order"""
    out = []

    def rec(n):
        out.append(n)
        for c in ast.iter_child_nodes(n):
            rec(c)
    rec(node)
    return out


def binding_sites(func, module_globals):
    """ordered list of (name, kind) for the first binding of every local of func (nested defs included)"""
    params = set()
    declared = set()
    for n in ast.walk(func):
        if isinstance(n, (ast.FunctionDef, ast.AsyncFunctionDef, ast.Lambda)):
            a = n.args
            params |= {x.arg for x in a.posonlyargs + a.args + a.kwonlyargs}
            if a.vararg:
                params.add(a.vararg.arg)
            if a.kwarg:
                params.add(a.kwarg.arg)
            if isinstance(n, ast.FunctionDef) and n is not func:
                declared.add(n.name)
        elif isinstance(n, (ast.Global, ast.Nonlocal)):
            declared |= set(n.names)
        elif isinstance(n, (ast.Import, ast.ImportFrom)):
            for al in n.names:
                declared.add((al.asname or al.name).split('.')[0])
    skip = params | declared | module_globals      # (a builtin name that is stored to is a local like any other)
    seen = {}
    order = []
    kind_of = {}
    # map every Store name to the kind of its binding statement
    for st in _ordered(func):
        kind = None
        names = []
        if isinstance(st, ast.Assign):
            kind = 'assign'
            for t in st.targets:
                names += [x.id for x in _ordered(t) if isinstance(x, ast.Name) and isinstance(x.ctx, ast.Store)]
        elif isinstance(st, ast.AugAssign) and isinstance(st.target, ast.Name):
            kind, names = 'aug', [st.target.id]
        elif isinstance(st, ast.AnnAssign) and isinstance(st.target, ast.Name):
            kind, names = 'assign', [st.target.id]
        elif isinstance(st, (ast.For, ast.AsyncFor)):
            kind = 'for'
            names = [x.id for x in _ordered(st.target) if isinstance(x, ast.Name)]
        elif isinstance(st, ast.comprehension):
            kind = 'comp'
            names = [x.id for x in _ordered(st.target) if isinstance(x, ast.Name)]
        elif isinstance(st, (ast.With, ast.AsyncWith)):
            kind = 'with'
            for it in st.items:
                if it.optional_vars is not None:
                    names += [x.id for x in _ordered(it.optional_vars) if isinstance(x, ast.Name)]
        elif isinstance(st, ast.ExceptHandler) and st.name:
            kind, names = 'except', [st.name]
        elif isinstance(st, ast.NamedExpr) and isinstance(st.target, ast.Name):
            kind, names = 'walrus', [st.target.id]
        for nm in names:
            if kind == 'comp':
                # a comprehension's loop variables live in that comprehension: one entry per comprehension, whatever
                # else has the same name
                order.append([nm, kind])
                continue
            if nm in skip or nm in seen:
                continue
            seen[nm] = True
            order.append([nm, kind])
    return order


_COMPS = (ast.ListComp, ast.SetComp, ast.GeneratorExp, ast.DictComp)


def comp_nodes(func):
    """the comprehensions of func in the order in which binding_sites meets their `for` clauses"""
    out = []
    for n in _ordered(func):
        if isinstance(n, ast.comprehension):
            out.append(n)
    return out


def rename_scoped(f, gmap, cmaps):
    """rename function-scope names by gmap and, inside each `for` clause's comprehension, that clause's variables by
    cmaps[id(clause)]; a name bound by an enclosing comprehension is never touched by gmap"""
    def rec(node, env):
        if isinstance(node, _COMPS):
            inner = dict(env)
            for g in node.generators:
                cm = cmaps.get(id(g), {})
                for t in ast.walk(g.target):
                    if isinstance(t, ast.Name):
                        inner[t.id] = cm.get(t.id, t.id)
            rec(node.generators[0].iter, env)          # (evaluated in the enclosing scope)
            for gi, g in enumerate(node.generators):
                rec(g.target, inner)
                if gi:
                    rec(g.iter, inner)
                for c in g.ifs:
                    rec(c, inner)
            for fld in ('elt', 'key', 'value'):
                if hasattr(node, fld):
                    rec(getattr(node, fld), inner)
            return
        if isinstance(node, ast.Name):
            if node.id in env:
                node.id = env[node.id]
            return
        if isinstance(node, ast.ExceptHandler) and node.name in env:
            node.name = env[node.name]
        for ch in ast.iter_child_nodes(node):
            rec(ch, env)
    rec(f, dict(gmap))


def scope_names(f):
    """names read or written in f outside the comprehensions that bind them"""
    out = set()

    def rec(node, bound):
        if isinstance(node, _COMPS):
            inner = set(bound)
            for g in node.generators:
                inner |= {t.id for t in ast.walk(g.target) if isinstance(t, ast.Name)}
            rec(node.generators[0].iter, bound)
            for gi, g in enumerate(node.generators):
                if gi:
                    rec(g.iter, inner)
                for c in g.ifs:
                    rec(c, inner)
            for fld in ('elt', 'key', 'value'):
                if hasattr(node, fld):
                    rec(getattr(node, fld), inner)
            return
        if isinstance(node, ast.Name):
            if node.id not in bound:
                out.add(node.id)
            return
        if isinstance(node, ast.arguments):
            out.update(a.arg for a in node.posonlyargs + node.args + node.kwonlyargs)
        for ch in ast.iter_child_nodes(node):
            rec(ch, bound)
    rec(f, set())
    return out


def module_globals_of(tree):
    mg = set()
    for st in tree.body:
        if isinstance(st, (ast.Assign, ast.AnnAssign, ast.AugAssign)):
            for n in ast.walk(st):
                if isinstance(n, ast.Name) and isinstance(n.ctx, ast.Store):
                    mg.add(n.id)
        elif isinstance(st, (ast.FunctionDef, ast.ClassDef)):
            mg.add(st.name)
        elif isinstance(st, (ast.Import, ast.ImportFrom)):
            for al in st.names:
                mg.add((al.asname or al.name).split('.')[0])
        elif isinstance(st, (ast.If, ast.Try)):
            for n in ast.walk(st):
                if isinstance(n, ast.Name) and isinstance(n.ctx, ast.Store):
                    mg.add(n.id)
    return mg


def top_functions(tree):
    for st in tree.body:
        if isinstance(st, ast.FunctionDef):
            yield st.name, st
        elif isinstance(st, ast.ClassDef):
            for s2 in st.body:
                if isinstance(s2, ast.FunctionDef):
                    yield st.name + '.' + s2.name, s2


class _Ren(ast.NodeTransformer):
    def __init__(self, mapping):
        self.m = mapping

    def visit_Name(self, node):
        if node.id in self.m:
            node.id = self.m[node.id]
        return node

    def visit_ExceptHandler(self, node):
        if node.name in self.m:
            node.name = self.m[node.name]
        self.generic_visit(node)
        return node


class _Subst(ast.NodeTransformer):
    def __init__(self, name, expr):
        self.name, self.expr, self.done = name, expr, 0

    def visit_Name(self, node):
        if node.id == self.name and isinstance(node.ctx, ast.Load):
            self.done += 1
            return ast.copy_location(self.expr, node)
        return node


_PURE_METHODS = {'split', 'rsplit', 'strip', 'lstrip', 'rstrip', 'lower', 'upper', 'startswith', 'endswith', 'get', 'decode', 'encode',
                 'join', 'sum', 'any', 'all', 'tolist', 'format', 'replace', 'keys', 'values', 'items', 'count', 'index', 'find'}
_PURE_FUNCS = {'len', 'str', 'int', 'float', 'bool', 'list', 'tuple', 'set', 'dict', 'sorted', 'min', 'max', 'sum', 'any', 'all',
               'isinstance', 'getattr', 'hasattr', 'repr', 'abs', 'range', 'enumerate', 'zip', 'type', 'bytes', 'frozenset'}


def _pure(e):
    """an expression whose value depends only on the names it reads and that can be evaluated twice for once: names,
    attributes, subscripts, constants, arithmetic, comparisons, and calls of well-known read-only builtins / methods"""
    for x in ast.walk(e):
        if isinstance(x, (ast.Name, ast.Attribute, ast.Subscript, ast.Slice, ast.Constant, ast.BinOp, ast.UnaryOp, ast.BoolOp, ast.Compare,
                          ast.IfExp, ast.Tuple, ast.List, ast.operator, ast.unaryop, ast.boolop, ast.cmpop, ast.expr_context, ast.keyword)):
            continue
        if isinstance(x, ast.Call):
            if isinstance(x.func, ast.Name) and x.func.id in _PURE_FUNCS:
                continue
            if isinstance(x.func, ast.Attribute) and x.func.attr in _PURE_METHODS:
                continue
        return False
    return True


def inline_shared_temps(f, ref_names):
    """Undo "extract common subexpression": a local the reference does not have, bound once by `name = <pure
    expression>` and read several times in what follows its binding, none of the names it reads being stored to between
    the binding and the last read - every read is replaced by the expression.  Returns the number of temporaries."""
    if os.environ.get('VERIF_NO_INLINE'):
        return 0
    import copy
    done = 0
    pos = lambda n: (n.lineno, n.col_offset)
    again = True
    while again:
        again = False
        stores, loads = {}, {}
        for n in ast.walk(f):
            if isinstance(n, ast.Name):
                (stores if isinstance(n.ctx, (ast.Store, ast.Del)) else loads).setdefault(n.id, []).append(n)
        params = {a.arg for n in ast.walk(f) if isinstance(n, ast.arguments) for a in n.posonlyargs + n.args + n.kwonlyargs}
        for holder in ast.walk(f):
            for fld in ('body', 'orelse', 'finalbody'):
                blk = getattr(holder, fld, None)
                if not isinstance(blk, list):
                    continue
                for i, st in enumerate(blk[:-1]):
                    if not (isinstance(st, ast.Assign) and len(st.targets) == 1 and isinstance(st.targets[0], ast.Name)):
                        continue
                    nm = st.targets[0].id
                    if nm in ref_names or nm in params or not _pure(st.value):
                        continue
                    # every binding of the name is a plain `name = <pure expression>` statement of this very block; the
                    # reads between one binding and the next belong to that binding
                    def_idx = [j for j, x in enumerate(blk) if isinstance(x, ast.Assign) and len(x.targets) == 1 and isinstance(x.targets[0], ast.Name)
                               and x.targets[0].id == nm]
                    if len(def_idx) != len(stores.get(nm, [])) or not all(_pure(blk[j].value) for j in def_idx):
                        continue
                    nxt = min([j for j in def_idx if j > i], default=len(blk))
                    span = blk[i + 1:nxt]
                    after_first = {id(y) for later in blk[def_idx[0] + 1:] for y in ast.walk(later)}
                    if not all(id(u) in after_first for u in loads.get(nm, [])):
                        continue
                    in_span = {id(y) for later in span for y in ast.walk(later)}
                    uses = [u for u in loads.get(nm, []) if id(u) in in_span]
                    if len(uses) < (2 if len(def_idx) == 1 else 1):
                        continue
                    after = in_span
                    # (no nested function reads it: its value there is the one at call time)
                    if any(isinstance(d, (ast.FunctionDef, ast.AsyncFunctionDef, ast.Lambda)) and d is not f and any(u is y for u in uses for y in ast.walk(d))
                           for d in ast.walk(f)):
                        continue
                    last = max(pos(u) for u in uses)
                    reads = {y.id for y in ast.walk(st.value) if isinstance(y, ast.Name)}
                    loops = [lp for lp in ast.walk(f) if isinstance(lp, (ast.For, ast.While, ast.AsyncFor)) and any(st is y for y in ast.walk(lp))]
                    unstable = False
                    for r_ in reads:
                        for sn in stores.get(r_, []):
                            if pos(st) < pos(sn) <= last:
                                unstable = True
                    # attributes / items of what it reads must not be stored to in between either
                    for y in ast.walk(f):
                        if isinstance(y, (ast.Attribute, ast.Subscript)) and isinstance(y.ctx, (ast.Store, ast.Del)) and pos(st) < pos(y) <= last:
                            base = y
                            while isinstance(base, (ast.Attribute, ast.Subscript)):
                                base = base.value
                            if isinstance(base, ast.Name) and base.id in reads:
                                unstable = True
                    if unstable:
                        continue
                    for later in span:
                        class _S(ast.NodeTransformer):
                            def visit_Name(self, node):
                                if node.id == nm and isinstance(node.ctx, ast.Load):
                                    return ast.copy_location(copy.deepcopy(st.value), node)
                                return node
                        blk[blk.index(later)] = _S().visit(later)
                    del blk[i]
                    done += 1
                    again = True
                    break
                if again:
                    break
            if again:
                break
    if done:
        ast.fix_missing_locations(f)
    return done


def ref_temps(f):
    """[(name, value text, number of reads)] for the locals of f that are bound exactly once, by a plain
    `name = <expression>` (not a bare name or constant), and never otherwise stored"""
    stores, loads, defs = {}, {}, {}
    for n in ast.walk(f):
        if isinstance(n, ast.Name):
            d = stores if isinstance(n.ctx, (ast.Store, ast.Del)) else loads
            d[n.id] = d.get(n.id, 0) + 1
        elif isinstance(n, ast.Assign) and len(n.targets) == 1 and isinstance(n.targets[0], ast.Name):
            defs.setdefault(n.targets[0].id, []).append(n.value)
    params = {a.arg for n in ast.walk(f) if isinstance(n, ast.arguments) for a in n.posonlyargs + n.args + n.kwonlyargs}
    out = []
    for st in _ordered(f):
        if isinstance(st, ast.Assign) and len(st.targets) == 1 and isinstance(st.targets[0], ast.Name):
            nm = st.targets[0].id
            if stores.get(nm) == 1 and len(defs.get(nm, [])) == 1 and nm not in params and loads.get(nm, 0) >= 1 \
                    and not isinstance(st.value, (ast.Name, ast.Constant)):
                out.append([nm, ast.unparse(st.value), loads[nm]])
    return out


def reintroduce_ref_temps(f, temps):
    """Undo "inline temporary": a single-assignment local of the reference (`t = E`, read n times) that the function
    no longer has, while the expression E occurs exactly n times in it (outside lambdas / comprehensions), is bound
    again in front of the first statement that uses E and the occurrences read the name.  For n > 1 the expression must
    be pure and nothing it reads may be stored to between the first and the last occurrence."""
    if not temps or os.environ.get('VERIF_NO_INLINE'):
        return 0
    done = 0
    pos = lambda n: (n.lineno, n.col_offset)
    for _ in range(len(temps) + 1):
        changed = False
        names_now = {n.id for n in ast.walk(f) if isinstance(n, ast.Name)} | \
            {a.arg for n in ast.walk(f) if isinstance(n, ast.arguments) for a in n.posonlyargs + n.args + n.kwonlyargs}
        for nm, vtext, nreads in temps:
            if nm in names_now:
                continue
            hidden = set()
            for x in ast.walk(f):
                if isinstance(x, (ast.Lambda,) + _COMPS) or (isinstance(x, (ast.FunctionDef, ast.AsyncFunctionDef)) and x is not f):
                    hidden |= {id(y) for y in ast.walk(x)} - {id(x)}
            occ = [x for x in ast.walk(f) if isinstance(x, ast.expr) and id(x) not in hidden and not isinstance(getattr(x, 'ctx', None), (ast.Store, ast.Del))
                   and ast.unparse(x) == vtext]
            # (an occurrence inside another occurrence cannot happen: equal texts, equal sizes)
            if len(occ) != nreads or not occ:
                continue
            # the whole right-hand side of `other = E` is a renamed temporary, not a missing one
            if any(isinstance(a_, ast.Assign) and len(a_.targets) == 1 and isinstance(a_.targets[0], ast.Name) and any(a_.value is o for o in occ)
                   for a_ in ast.walk(f)):
                continue
            if nreads > 1:
                if not _pure(occ[0]):
                    continue
                reads = {y.id for y in ast.walk(occ[0]) if isinstance(y, ast.Name)}
                first, last = min(pos(o) for o in occ), max(pos(o) for o in occ)
                if any(isinstance(y, ast.Name) and isinstance(y.ctx, (ast.Store, ast.Del)) and y.id in reads and first <= pos(y) <= last for y in ast.walk(f)):
                    continue
            # the deepest block that holds all occurrences, and the first statement of it that holds one
            best = None
            for holder in ast.walk(f):
                for fld in ('body', 'orelse', 'finalbody'):
                    blk = getattr(holder, fld, None)
                    if not isinstance(blk, list) or not blk or not isinstance(blk[0], ast.stmt):
                        continue
                    idx = []
                    for o in occ:
                        hit = [i for i, st in enumerate(blk) if any(o is y for y in ast.walk(st))]
                        if not hit:
                            idx = None
                            break
                        idx.append(hit[0])
                    if idx is not None:
                        size = sum(1 for st in blk for _y in ast.walk(st))
                        if best is None or size < best[0]:
                            best = (size, blk, min(idx))
            if best is None:
                continue
            _, blk, i0 = best
            st0 = blk[i0]
            # (an occurrence in the test of a loop is evaluated again on every round: not the same as one binding in front)
            if any(isinstance(lp, (ast.While,)) and any(o is y for o in occ for y in ast.walk(lp.test)) for lp in ast.walk(f)):
                continue
            import copy as _copy
            value = _copy.deepcopy(occ[0])
            ids = {id(o) for o in occ}

            class _S(ast.NodeTransformer):
                def visit(self, node):
                    if id(node) in ids:
                        return ast.copy_location(ast.Name(id=nm, ctx=ast.Load()), node)
                    return super().visit(node)
            for j in range(i0, len(blk)):
                blk[j] = _S().visit(blk[j])
            new = ast.copy_location(ast.Assign(targets=[ast.Name(id=nm, ctx=ast.Store())], value=value), st0)
            blk.insert(i0, new)
            done += 1
            changed = True
            break
        if not changed:
            break
    if done:
        ast.fix_missing_locations(f)
        _reposition(f)
    return done


def loops_to_comprehensions(f, ref_names, ref_ncomp=None):
    """Undo "comprehension written out as a loop", for an accumulator the reference does not have:
        acc = {} / [] / set()                      acc = {k: v for T in IT if C}
        for T in IT:                        ->           [v for T in IT if C]
            [t1 = e1; ...]   (temporaries the reference does not have, each read once further down)
            [if C:]  acc[k] = v  /  acc.append(v)  /  acc.add(v)
    provided the loop has no else / break / continue, the accumulator is touched nowhere else inside the loop, and the
    loop variables are not read after the loop.  Returns the number of loops turned back."""
    if os.environ.get('VERIF_NO_INLINE'):
        return 0
    import copy
    done = 0
    for holder in ast.walk(f):
        for fld in ('body', 'orelse', 'finalbody'):
            blk = getattr(holder, fld, None)
            if not isinstance(blk, list):
                continue
            i = 0
            while i + 1 < len(blk):
                a, lp = blk[i], blk[i + 1]
                i += 1
                if not (isinstance(a, ast.Assign) and len(a.targets) == 1 and isinstance(a.targets[0], ast.Name) and isinstance(lp, ast.For)):
                    continue
                acc = a.targets[0].id
                v0 = a.value
                kind = None
                if isinstance(v0, ast.Dict) and not v0.keys:
                    kind = 'dict'
                elif isinstance(v0, ast.List) and not v0.elts:
                    kind = 'list'
                elif isinstance(v0, ast.Call) and isinstance(v0.func, ast.Name) and v0.func.id in ('dict', 'list', 'set') and not v0.args and not v0.keywords:
                    kind = v0.func.id
                if kind is None or lp.orelse:
                    continue
                # (an accumulator the reference does not have; or one it has, while the reference has more comprehensions)
                if acc in ref_names and not (ref_ncomp is not None and sum(1 for x in ast.walk(f) if isinstance(x, _COMPS)) < ref_ncomp):
                    continue
                if any(isinstance(y, (ast.Break, ast.Continue, ast.Return, ast.Yield, ast.YieldFrom, ast.Await, ast.For, ast.While, ast.Try, ast.With,
                                      ast.FunctionDef, ast.Lambda)) for st in lp.body for y in ast.walk(st)):
                    continue
                body = list(lp.body)
                cond = None
                temps = []
                while body and isinstance(body[0], ast.Assign) and len(body[0].targets) == 1 and isinstance(body[0].targets[0], ast.Name) \
                        and body[0].targets[0].id not in ref_names and body[0].targets[0].id != acc:
                    temps.append(body.pop(0))
                if len(body) == 1 and isinstance(body[0], ast.If) and not body[0].orelse and len(body[0].body) == 1 and not temps:
                    cond = body[0].test
                    body = list(body[0].body)
                if len(body) != 1:
                    continue
                st = body[0]
                elt = key = None
                if kind == 'dict' and isinstance(st, ast.Assign) and len(st.targets) == 1 and isinstance(st.targets[0], ast.Subscript) \
                        and isinstance(st.targets[0].value, ast.Name) and st.targets[0].value.id == acc:
                    key, elt = st.targets[0].slice, st.value
                elif kind in ('list', 'set') and isinstance(st, ast.Expr) and isinstance(st.value, ast.Call) and isinstance(st.value.func, ast.Attribute) \
                        and isinstance(st.value.func.value, ast.Name) and st.value.func.value.id == acc \
                        and st.value.func.attr == ('append' if kind == 'list' else 'add') and len(st.value.args) == 1 and not st.value.keywords:
                    elt = st.value.args[0]
                if elt is None:
                    continue
                parts = [x for x in (key, elt, cond) if x is not None]
                # temporaries: each bound once, read once, substituted in order
                ok = True
                for t in reversed(temps):
                    nm = t.targets[0].id
                    later = temps[temps.index(t) + 1:]
                    reads = sum(1 for p_ in parts + [x.value for x in later] for y in ast.walk(p_) if isinstance(y, ast.Name) and y.id == nm)
                    stores_ = sum(1 for y in ast.walk(f) if isinstance(y, ast.Name) and y.id == nm and isinstance(y.ctx, ast.Store))
                    all_reads = sum(1 for y in ast.walk(f) if isinstance(y, ast.Name) and y.id == nm and isinstance(y.ctx, ast.Load))
                    if reads != 1 or stores_ != 1 or all_reads != 1:
                        ok = False
                        break
                    sub = _Subst(nm, t.value)
                    parts = [sub.visit(p_) for p_ in parts]
                    for x in later:
                        x.value = sub.visit(x.value)
                if not ok:
                    continue
                if any(isinstance(y, ast.Name) and y.id == acc for p_ in parts + [lp.iter] for y in ast.walk(p_)):
                    continue
                tv = {y.id for y in ast.walk(lp.target) if isinstance(y, ast.Name)}
                inside = {id(y) for y in ast.walk(lp)}
                if any(isinstance(y, ast.Name) and y.id in tv and id(y) not in inside for y in ast.walk(f)):
                    continue
                it = iter(parts)
                key2 = next(it) if key is not None else None
                elt2 = next(it)
                cond2 = next(it) if cond is not None else None
                gen = ast.comprehension(target=lp.target, iter=lp.iter, ifs=[cond2] if cond2 is not None else [], is_async=0)
                if kind == 'dict':
                    comp = ast.DictComp(key=key2, value=elt2, generators=[gen])
                elif kind == 'list':
                    comp = ast.ListComp(elt=elt2, generators=[gen])
                else:
                    comp = ast.SetComp(elt=elt2, generators=[gen])
                a.value = ast.copy_location(comp, lp)
                blk.remove(lp)
                done += 1
    if done:
        ast.fix_missing_locations(f)
    return done


def inline_new_temps(f, ref_names, only=None):
    """Undo "introduce explaining variable": a local that does not exist on the reference tree, is bound exactly once
    by a plain `name = <expression>` statement and read exactly once, in the statement that directly follows, is
    substituted back into that statement and its binding removed.  Returns the number of temporaries inlined."""
    n_inlined = 0
    changed = not os.environ.get('VERIF_NO_INLINE')      # (switch used only to show that the twin family bites)
    while changed:
        changed = False
        stores, loads = {}, {}
        for n in ast.walk(f):
            if isinstance(n, ast.Name):
                (stores if isinstance(n.ctx, ast.Store) else loads).setdefault(n.id, []).append(n)
        params = {a.arg for n in ast.walk(f) if isinstance(n, ast.arguments) for a in n.posonlyargs + n.args + n.kwonlyargs}
        for holder in ast.walk(f):
            for fld in ('body', 'orelse', 'finalbody'):
                blk = getattr(holder, fld, None)
                if not isinstance(blk, list):
                    continue
                for i, st in enumerate(blk[:-1]):
                    if not (isinstance(st, ast.Assign) and len(st.targets) == 1 and isinstance(st.targets[0], ast.Name)):
                        continue
                    nm = st.targets[0].id
                    if nm in ref_names or nm in params or len(stores.get(nm, [])) != 1 or len(loads.get(nm, [])) != 1:
                        continue
                    if only is not None and nm not in only:
                        continue
                    nxt = blk[i + 1]
                    if isinstance(nxt, (ast.FunctionDef, ast.AsyncFunctionDef, ast.ClassDef)):
                        continue
                    # the single read must be in the header/expression part of the next statement
                    target = nxt
                    if isinstance(nxt, (ast.If, ast.While)):
                        target = nxt.test
                    elif isinstance(nxt, ast.For):
                        target = nxt.iter
                    elif isinstance(nxt, ast.With):
                        target = nxt.items[0].context_expr
                    if not any(x is loads[nm][0] for x in ast.walk(target)):
                        continue
                    sub = _Subst(nm, st.value)
                    if target is nxt:
                        blk[i + 1] = sub.visit(nxt)
                    elif isinstance(nxt, (ast.If, ast.While)):
                        nxt.test = sub.visit(nxt.test)
                    elif isinstance(nxt, ast.For):
                        nxt.iter = sub.visit(nxt.iter)
                    else:
                        nxt.items[0].context_expr = sub.visit(nxt.items[0].context_expr)
                    del blk[i]
                    n_inlined += 1
                    changed = True
                    break
                if changed:
                    break
            if changed:
                break
    if n_inlined:
        ast.fix_missing_locations(f)
    return n_inlined


def int_names(f):
    """names that hold an int by construction: the counter of `for i, x in enumerate(..)` / `for i in range(..)`
    (statement or comprehension) - for these `%d` / `%i` and `{i}` print the same text"""
    out = set()
    for n in ast.walk(f):
        if isinstance(n, (ast.For, ast.comprehension)) and isinstance(n.iter, ast.Call) and isinstance(n.iter.func, ast.Name):
            if n.iter.func.id == 'enumerate' and isinstance(n.target, ast.Tuple) and n.target.elts and isinstance(n.target.elts[0], ast.Name):
                out.add(n.target.elts[0].id)
            elif n.iter.func.id == 'range' and isinstance(n.target, ast.Name):
                out.add(n.target.id)
    return out


def fmt_alts(node, ints=None):
    """the same text built the other way: `"a%sb%r" % (x, y)`  <->  f"a{x}b{y!r}"; fields %s / %r (and %d / %i for a
    name of `ints`; ints=None: for any name), no widths, no literal per cent signs or braces; `{x!s}` counts as `{x}`.
    Returns the list of alternative spellings (empty when the expression is not of that plain kind)."""
    import re as _re
    import itertools
    if isinstance(node, ast.BinOp) and isinstance(node.op, ast.Mod) and isinstance(node.left, ast.Constant) and isinstance(node.left.value, str):
        fmt = node.left.value
        if '{' in fmt or '}' in fmt or '%%' in fmt:
            return []
        parts = _re.split(r'(%[srdi])', fmt)
        if any('%' in p_ for p_ in parts[0::2]):
            return []
        args = list(node.right.elts) if isinstance(node.right, ast.Tuple) else [node.right]
        if len(args) != len(parts[1::2]) or isinstance(node.right, (ast.Dict, ast.Starred)) or not parts[1::2]:
            return []
        vals, k = [], 0
        for i, p_ in enumerate(parts):
            if i % 2 == 0:
                if p_:
                    vals.append(ast.Constant(value=p_))
            else:
                if p_ in ('%d', '%i') and not (isinstance(args[k], ast.Name) and (ints is None or args[k].id in ints)):
                    return []
                vals.append(ast.FormattedValue(value=args[k], conversion=114 if p_ == '%r' else -1, format_spec=None))
                k += 1
        return [ast.JoinedStr(values=vals)]
    if isinstance(node, ast.JoinedStr):
        pieces, args = [], []
        for v in node.values:
            if isinstance(v, ast.Constant) and isinstance(v.value, str):
                if '%' in v.value:
                    return []
                pieces.append(v.value)
            elif isinstance(v, ast.FormattedValue) and v.format_spec is None and v.conversion in (-1, 114, 115) \
                    and not isinstance(v.value, (ast.Tuple, ast.Dict)):
                if v.conversion == 114:
                    pieces.append(['%r'])
                elif v.conversion == -1 and isinstance(v.value, ast.Name) and (ints is None or v.value.id in ints):
                    pieces.append(['%s', '%d', '%i'])
                else:
                    pieces.append(['%s'])
                args.append(v.value)
            else:
                return []
        if not args:
            return []
        right = ast.Tuple(elts=args, ctx=ast.Load()) if len(args) > 1 else (
            args[0] if not isinstance(args[0], ast.Tuple) else ast.Tuple(elts=[args[0]], ctx=ast.Load()))
        out = []
        for choice in itertools.islice(itertools.product(*[p_ for p_ in pieces if isinstance(p_, list)]), 27):
            it = iter(choice)
            fmt = ''.join(p_ if isinstance(p_, str) else next(it) for p_ in pieces)
            out.append(ast.BinOp(left=ast.Constant(value=fmt), op=ast.Mod(), right=right))
        return out
    return []


def fmt_parts(node):
    """(literal text with `{}` for each field, [field expression texts]) of a %-format or an f-string made of plain
    fields (%s %r %d %i / {x} {x!r} {x!s}); None for anything else.  For rules that care about WHAT is put into the
    text, not about the spelling."""
    import re as _re
    if isinstance(node, ast.BinOp) and isinstance(node.op, ast.Mod) and isinstance(node.left, ast.Constant) and isinstance(node.left.value, str):
        fmt = node.left.value
        if '{' in fmt or '}' in fmt or '%%' in fmt:
            return None
        parts = _re.split(r'(%[srdi])', fmt)
        if any('%' in p_ for p_ in parts[0::2]):
            return None
        args = list(node.right.elts) if isinstance(node.right, ast.Tuple) else [node.right]
        if len(args) != len(parts[1::2]):
            return None
        return ''.join('{}' if i % 2 else p_ for i, p_ in enumerate(parts)), [ast.unparse(a) for a in args]
    if isinstance(node, ast.JoinedStr):
        txt, args = '', []
        for v in node.values:
            if isinstance(v, ast.Constant) and isinstance(v.value, str):
                txt += v.value
            elif isinstance(v, ast.FormattedValue) and v.format_spec is None:
                txt += '{}'
                args.append(ast.unparse(v.value))
            else:
                return None
        return txt, args
    return None


def fmt_equiv(node):
    a = fmt_alts(node, ())
    return a[0] if a else None


_SWAP = {ast.Eq: ast.Eq, ast.NotEq: ast.NotEq, ast.Lt: ast.Gt, ast.Gt: ast.Lt, ast.LtE: ast.GtE, ast.GtE: ast.LtE}


def _negated(t):
    if isinstance(t, ast.UnaryOp) and isinstance(t.op, ast.Not):
        return t.operand
    return ast.UnaryOp(op=ast.Not(), operand=t)


def plain_if_else(st):
    # (an `else:` holding a single `if` counts too: turning `if c: <if x: ...> else: B` round makes exactly that shape)
    return isinstance(st, ast.If) and bool(st.orelse)


def _if_key(test, body):
    """an if/else is identified by its test and the first line of what it guards"""
    return '%s => %s' % (ast.unparse(test), ast.unparse(body[0]).split('\n')[0][:80])


def shape_of(f):
    """the orientation facts of a function: the texts (with multiplicity) of its two-operand comparisons and of the
    tests of its if/else statements"""
    cmps = sorted(ast.unparse(x) for x in ast.walk(f) if isinstance(x, ast.Compare) and len(x.ops) == 1 and type(x.ops[0]) in _SWAP)
    ifs = sorted(_if_key(x.test, x.body) for x in ast.walk(f) if plain_if_else(x))
    fmts = sorted(ast.unparse(x) for x in ast.walk(f) if fmt_alts(x))
    defs = sorted(x.name for x in ast.walk(f) if isinstance(x, ast.FunctionDef) and x is not f)
    stores = {}
    for x in ast.walk(f):
        if isinstance(x, ast.Name) and isinstance(x.ctx, ast.Store):
            stores[x.id] = stores.get(x.id, 0) + 1
    ifn = sorted(_if_key(x.test, x.body) for x in ast.walk(f) if isinstance(x, ast.If) and not x.orelse)
    tests = sorted(ast.unparse(x.test) for x in ast.walk(f) if isinstance(x, ast.If))
    closures = {x.name: [a.arg for a in x.args.args] for x in ast.walk(f) if isinstance(x, ast.FunctionDef) and x is not f
                and not (x.args.vararg or x.args.kwarg or x.args.kwonlyargs or x.args.posonlyargs)}
    ifexps = sorted(ast.unparse(x) for x in ast.walk(f) if isinstance(x, ast.IfExp))
    ncomp = sum(1 for x in ast.walk(f) if isinstance(x, _COMPS))
    return {'cmp': cmps, 'if': ifs, 'fmt': fmts, 'defs': defs, 'stores': stores, 'ifn': ifn, 'tests': tests, 'ifexp': ifexps, 'ncomp': ncomp, 'closures': closures}


class _Blank(ast.NodeTransformer):
    def __init__(self, names):
        self.names = names

    def visit_Name(self, node):
        return ast.copy_location(ast.Name(id='_', ctx=node.ctx), node) if node.id in self.names else node


def skeleton(f, mg):
    """the statements of f (headers only for compound ones) with every local name blanked: what is left of a function
    when its locals are renamed"""
    import copy
    names = {nm for nm, _ in binding_sites(f, mg)}
    out = []
    for st in ast.walk(f):
        if not isinstance(st, ast.stmt) or st is f:
            continue
        if isinstance(st, (ast.If, ast.While)):
            part = st.test
        elif isinstance(st, (ast.For, ast.AsyncFor)):
            part = ast.Tuple(elts=[st.target, st.iter], ctx=ast.Load())
        elif isinstance(st, (ast.With, ast.AsyncWith)):
            part = ast.Tuple(elts=[it.context_expr for it in st.items], ctx=ast.Load())
        elif isinstance(st, (ast.Try, ast.FunctionDef, ast.AsyncFunctionDef, ast.ClassDef)):
            continue
        else:
            part = st
        out.append(type(st).__name__ + ' ' + ast.unparse(_Blank(names).visit(copy.deepcopy(part))))
    return sorted(out)


def _choose_temps(f, want, mg, ref_skel):
    """the function has k locals more than the reference and several single-use temporaries with names the reference
    does not know (a rename came together with "introduce variable"): which k of them are the new ones?  Those whose
    substitution leaves the statements closest to the reference's (names blanked)."""
    import copy, itertools
    from collections import Counter
    cur = binding_sites(f, mg)
    k = len(cur) - len(want)
    if k <= 0 or not ref_skel:
        return None
    ref_names = {nm for nm, _ in want}
    probe = copy.deepcopy(f)
    cands = []
    while True:          # (which names could be substituted at all: one at a time on a copy)
        names_before = {nm for nm, _ in binding_sites(probe, mg)}
        if not inline_new_temps_one(probe, ref_names):
            break
        gone = names_before - {nm for nm, _ in binding_sites(probe, mg)}
        cands.extend(sorted(gone))
    if len(cands) <= k:
        return None
    refc = Counter(ref_skel)
    best, best_score = None, -1
    for sub in itertools.islice(itertools.combinations(cands, k), 300):
        g = copy.deepcopy(f)
        if inline_new_temps(g, ref_names, only=set(sub)) != k:
            continue
        if [kk for _, kk in binding_sites(g, mg)] != [kk for _, kk in want]:
            continue
        score = sum((Counter(skeleton(g, mg)) & refc).values())
        if score > best_score:
            best, best_score = set(sub), score
    return best


def inline_new_temps_one(f, ref_names):
    """substitute one temporary (the first that qualifies); 1 if done"""
    stores, loads = {}, {}
    for n in ast.walk(f):
        if isinstance(n, ast.Name):
            (stores if isinstance(n.ctx, ast.Store) else loads).setdefault(n.id, []).append(n)
    params = {a.arg for n in ast.walk(f) if isinstance(n, ast.arguments) for a in n.posonlyargs + n.args + n.kwonlyargs}
    for nm in sorted(stores, key=lambda x: (stores[x][0].lineno, stores[x][0].col_offset)):
        if nm in ref_names or nm in params or len(stores[nm]) != 1 or len(loads.get(nm, [])) != 1:
            continue
        if inline_new_temps(f, ref_names, only={nm}):
            return 1
    return 0


class _FmtBack(ast.NodeTransformer):
    def __init__(self, ref, cur, ints=()):
        self.ref, self.cur, self.n, self.ints = ref, cur, 0, ints

    def _maybe(self, node):
        alts = fmt_alts(node, self.ints)
        if not alts:
            return node
        t = ast.unparse(node)
        if self.cur[t] <= self.ref[t]:
            return node
        for alt in alts:
            ta = ast.unparse(alt)
            if self.cur[ta] < self.ref[ta]:
                self.cur[t] -= 1
                self.cur[ta] += 1
                self.n += 1
                return ast.copy_location(alt, node)
        return node

    def visit_BinOp(self, node):
        self.generic_visit(node)
        return self._maybe(node) if isinstance(node.op, ast.Mod) else node

    def visit_JoinedStr(self, node):
        self.generic_visit(node)
        return self._maybe(node)


def format_back(f, want):
    """Undo a change of string-formatting style: an f-string for the reference's `"...%s" % (x,)` or the other way
    round (only plain %s / %r fields), when the current form is in surplus and the reference's form is missing."""
    if not want or os.environ.get('VERIF_NO_ORIENT'):
        return 0
    from collections import Counter
    ref = Counter(want.get('fmt', []))
    cur = Counter(ast.unparse(x) for x in ast.walk(f) if fmt_alts(x))
    tr = _FmtBack(ref, cur, int_names(f))
    tr.generic_visit(f)
    if tr.n:
        ast.fix_missing_locations(f)
    return tr.n


def orient_back(f, want):
    """Undo two logic-preserving re-orientations: `b == a` for the reference's `a == b` (likewise != < <= > >=), and
    `if not c: B else: A` for the reference's `if c: A else: B`.  Only when the function has more occurrences of the
    current form than the reference function and fewer of the mirrored form; operands of a swapped comparison must be
    free of calls (so the order of evaluation is not at stake).  Returns the number of constructs turned back."""
    if not want or os.environ.get('VERIF_NO_ORIENT'):
        return 0
    from collections import Counter
    n = 0
    refc, refi = Counter(want.get('cmp', [])), Counter(want.get('if', []))
    cur = Counter(ast.unparse(x) for x in ast.walk(f) if isinstance(x, ast.Compare) and len(x.ops) == 1 and type(x.ops[0]) in _SWAP)
    for x in ast.walk(f):
        if isinstance(x, ast.Compare) and len(x.ops) == 1 and type(x.ops[0]) in _SWAP:
            t = ast.unparse(x)
            if cur[t] <= refc[t]:
                continue
            if any(isinstance(y, (ast.Call, ast.Await, ast.NamedExpr)) for side in (x.left, x.comparators[0]) for y in ast.walk(side)):
                continue
            m = ast.Compare(left=x.comparators[0], ops=[_SWAP[type(x.ops[0])]()], comparators=[x.left])
            tm = ast.unparse(m)
            if cur[tm] < refc[tm]:
                x.left, x.ops, x.comparators = m.left, m.ops, m.comparators
                cur[t] -= 1
                cur[tm] += 1
                n += 1
    cur = Counter(_if_key(x.test, x.body) for x in ast.walk(f) if plain_if_else(x))
    for x in ast.walk(f):
        if plain_if_else(x):
            t = _if_key(x.test, x.body)
            if cur[t] <= refi[t]:
                continue
            neg = _negated(x.test)
            tn = _if_key(neg, x.orelse)
            if cur[tn] < refi[tn]:
                x.test = neg
                x.body, x.orelse = x.orelse, x.body
                cur[t] -= 1
                cur[tn] += 1
                n += 1
    if n:
        ast.fix_missing_locations(f)
    return n


def _leaves(stmts):
    if not stmts:
        return False
    last = stmts[-1]
    if isinstance(last, (ast.Return, ast.Raise, ast.Continue, ast.Break)):
        return True
    if isinstance(last, ast.If) and last.orelse:
        return _leaves(last.body) and _leaves(last.orelse)
    return False


def else_counts(f):
    """{if key: number of statements in its else-arm} for the if/else statements of f"""
    return {_if_key(x.test, x.body): len(x.orelse) for x in ast.walk(f) if isinstance(x, ast.If) and x.orelse}


def layout_back(f, want):
    """Undo re-layouts of the same control flow, towards the reference:
      dedent   `if c: ..leave  else: R`   ->  `if c: ..leave` ; R        (the reference has this `if` without an else)
      nest     `if c: ..leave` ; R        ->  `if c: ..leave  else: R'`  (the reference has it with an else of n statements:
                                              the first n statements of R move in; a `continue` / `return` that only
                                              served the flat layout goes)
      flatten  `if a:` holding only `if b: S`  ->  `if a and b: S`        (the reference tests `a and b`)
      split    `if a and b: S`            ->  `if a:` holding `if b: S`  (the reference tests `a`, then `b`)
    each only when the function has the current form in surplus and the reference's form in deficit.  All four keep
    the behaviour whatever the reference says: a body that always leaves makes what follows it an else-arm."""
    if not want or os.environ.get('VERIF_NO_ORIENT'):
        return 0
    from collections import Counter
    n = 0
    ref_else, ref_plain, ref_tests = Counter(want.get('if', [])), Counter(want.get('ifn', [])), Counter(want.get('tests', []))
    ref_n = want.get('else_n', {})
    ref_ifexp = Counter(want.get('ifexp', []))
    for _ in range(12):
        cur_else = Counter(_if_key(x.test, x.body) for x in ast.walk(f) if isinstance(x, ast.If) and x.orelse)
        cur_plain = Counter(_if_key(x.test, x.body) for x in ast.walk(f) if isinstance(x, ast.If) and not x.orelse)
        cur_tests = Counter(ast.unparse(x.test) for x in ast.walk(f) if isinstance(x, ast.If))
        cur_ifexp = Counter(ast.unparse(x) for x in ast.walk(f) if isinstance(x, ast.IfExp))
        done = False
        for holder in ast.walk(f):
            for fld in ('body', 'orelse', 'finalbody'):
                blk = getattr(holder, fld, None)
                if not isinstance(blk, list) or not blk or not isinstance(blk[0], ast.stmt):
                    continue
                for i, st in enumerate(blk):
                    # `x = a if c else b` / `return a if c else b`  <->  the statement in both arms of an if / else
                    if isinstance(st, (ast.Assign, ast.Return)) and isinstance(st.value, ast.IfExp):
                        e = st.value
                        if cur_ifexp[ast.unparse(e)] > ref_ifexp[ast.unparse(e)]:
                            mk = (lambda v: ast.copy_location(ast.Assign(targets=st.targets, value=v), st)) if isinstance(st, ast.Assign) else \
                                (lambda v: ast.copy_location(ast.Return(value=v), st))
                            new = ast.copy_location(ast.If(test=e.test, body=[mk(e.body)], orelse=[mk(e.orelse)]), st)
                            k2 = _if_key(new.test, new.body)
                            if cur_else[k2] < ref_else[k2]:
                                blk[i] = new
                                done = True
                                break
                            if isinstance(st, ast.Return) and cur_plain[k2] < ref_plain[k2] and i == len(blk) - 1:
                                new.orelse = []
                                blk[i:i + 1] = [new, mk(e.orelse)]
                                done = True
                                break
                    # `flag = <comparison>` / `flag = bool(c)`  <-  `if c: flag = True  else: flag = False`
                    if isinstance(st, ast.Assign) and len(st.targets) == 1 and isinstance(st.targets[0], ast.Name):
                        v = st.value
                        if isinstance(v, ast.Call) and isinstance(v.func, ast.Name) and v.func.id == 'bool' and len(v.args) == 1 and not v.keywords:
                            v = v.args[0]
                        elif not (isinstance(v, ast.Compare) or (isinstance(v, ast.UnaryOp) and isinstance(v.op, ast.Not))
                                  or (isinstance(v, ast.BoolOp) and all(isinstance(x, (ast.Compare,)) or (isinstance(x, ast.UnaryOp) and isinstance(x.op, ast.Not))
                                                                        for x in v.values))):
                            v = None
                        if v is not None:
                            t_ = ast.copy_location(ast.Assign(targets=st.targets, value=ast.Constant(value=True)), st)
                            f_ = ast.copy_location(ast.Assign(targets=[ast.Name(id=st.targets[0].id, ctx=ast.Store())], value=ast.Constant(value=False)), st)
                            k2 = _if_key(v, [t_])
                            if cur_else[k2] < ref_else[k2]:
                                blk[i] = ast.copy_location(ast.If(test=v, body=[t_], orelse=[f_]), st)
                                done = True
                                break
                    if isinstance(st, ast.If):
                        arms = None
                        if len(st.body) == 1 and len(st.orelse) == 1:
                            arms = (st.body[0], st.orelse[0])
                        elif len(st.body) == 1 and not st.orelse and isinstance(st.body[0], ast.Return) and i + 1 < len(blk) and isinstance(blk[i + 1], ast.Return):
                            arms = (st.body[0], blk[i + 1])
                        if arms and type(arms[0]) is type(arms[1]) and isinstance(arms[0], (ast.Assign, ast.Return)) and arms[0].value is not None and arms[1].value is not None \
                                and (isinstance(arms[0], ast.Return) or [ast.unparse(t) for t in arms[0].targets] == [ast.unparse(t) for t in arms[1].targets]):
                            e = ast.IfExp(test=st.test, body=arms[0].value, orelse=arms[1].value)
                            te = ast.unparse(e)
                            if cur_ifexp[te] < ref_ifexp[te]:
                                new = ast.copy_location(ast.Assign(targets=arms[0].targets, value=e) if isinstance(arms[0], ast.Assign) else ast.Return(value=e), st)
                                if not st.orelse:
                                    del blk[i + 1]
                                blk[i] = new
                                done = True
                                break
                    if not isinstance(st, ast.If):
                        continue
                    k = _if_key(st.test, st.body)
                    if st.orelse and _leaves(st.body) and cur_else[k] > ref_else[k] and cur_plain[k] < ref_plain[k]:
                        rest, st.orelse = st.orelse, []
                        blk[i + 1:i + 1] = rest
                        done = True
                    elif not st.orelse and _leaves(st.body) and cur_plain[k] > ref_plain[k] and cur_else[k] < ref_else[k] and blk[i + 1:]:
                        take = ref_n.get(k) or len(blk) - i - 1
                        take = min(take, len(blk) - i - 1)
                        st.orelse = blk[i + 1:i + 1 + take]
                        del blk[i + 1:i + 1 + take]
                        # (a jump that only made the flat layout work: `continue` as the last statement of a loop body's
                        # last if-arm, bare `return` likewise at the end of the function)
                        last = st.body[-1]
                        is_last = i == len(blk) - 1
                        if is_last and isinstance(last, ast.Continue) and isinstance(holder, (ast.For, ast.While)) and fld == 'body' and len(st.body) > 1:
                            st.body.pop()
                        elif is_last and isinstance(last, ast.Return) and last.value is None and holder is f and fld == 'body' and len(st.body) > 1:
                            st.body.pop()
                        done = True
                    elif not st.orelse and len(st.body) == 1 and isinstance(st.body[0], ast.If) and not st.body[0].orelse:
                        inner = st.body[0]
                        joined = ast.BoolOp(op=ast.And(), values=(list(st.test.values) if isinstance(st.test, ast.BoolOp) and isinstance(st.test.op, ast.And) else [st.test]) +
                                            (list(inner.test.values) if isinstance(inner.test, ast.BoolOp) and isinstance(inner.test.op, ast.And) else [inner.test]))
                        tj, ta, tb = ast.unparse(joined), ast.unparse(st.test), ast.unparse(inner.test)
                        if cur_tests[tj] < ref_tests[tj] and cur_tests[ta] > ref_tests[ta] and cur_tests[tb] > ref_tests[tb]:
                            st.test, st.body = ast.copy_location(joined, st.test), inner.body
                            done = True
                    elif not st.orelse and isinstance(st.test, ast.BoolOp) and isinstance(st.test.op, ast.And) and cur_tests[ast.unparse(st.test)] > ref_tests[ast.unparse(st.test)]:
                        vals = st.test.values
                        for cut in range(1, len(vals)):
                            a_ = vals[0] if cut == 1 else ast.BoolOp(op=ast.And(), values=vals[:cut])
                            b_ = vals[cut] if cut == len(vals) - 1 else ast.BoolOp(op=ast.And(), values=vals[cut:])
                            ta, tb = ast.unparse(a_), ast.unparse(b_)
                            if cur_tests[ta] < ref_tests[ta] and cur_tests[tb] < ref_tests[tb]:
                                inner = ast.copy_location(ast.If(test=b_, body=st.body, orelse=[]), st)
                                st.test, st.body = a_, [inner]
                                done = True
                                break
                    if done:
                        break
                if done:
                    break
            if done:
                break
        if not done:
            break
        n += 1
    if n:
        ast.fix_missing_locations(f)
    return n


def _reposition(f):
    """after blocks changed places: hand the source positions out again in traversal order, so that "earlier in the
    source" keeps meaning "earlier in the function" for rules that order constructs by position (reports then point a
    few lines off inside the function that was turned back, never outside it)"""
    nodes = [n for n in _ordered(f) if hasattr(n, 'lineno') and n is not f]
    pos = sorted((n.lineno, n.col_offset) for n in nodes)
    for n, (l, c) in zip(nodes, pos):
        n.lineno, n.col_offset = l, c

    def end(n):
        e = getattr(n, 'lineno', 0)
        for ch in ast.iter_child_nodes(n):
            e = max(e, end(ch))
        if hasattr(n, 'end_lineno') and n is not f:
            n.end_lineno = e
        return e
    end(f)


def _simple_arg(e):
    return isinstance(e, (ast.Name, ast.Constant)) or (isinstance(e, ast.Attribute) and _simple_arg(e.value))


def inline_new_helpers(tree, known):
    """Undo "extract function": a module-level function that the reference tree does not have, whose body is a plain
    sequence of statements (optionally ending in `return <expr>`), is spliced back into the call sites that use it as a
    statement (`helper(a, b)`, `x = helper(a, b)`) with simple arguments - provided its local names do not collide with
    the caller's.  The definition itself stays.  Returns notes."""
    notes = []
    if os.environ.get('VERIF_NO_INLINE'):
        return notes
    helpers = {}
    for st in tree.body:
        if isinstance(st, ast.FunctionDef) and st.name not in known and not st.decorator_list:
            a = st.args
            if a.vararg or a.kwarg or a.kwonlyargs or a.posonlyargs:
                continue
            body = [x for x in st.body if not (isinstance(x, ast.Expr) and isinstance(x.value, ast.Constant))]
            if not body or any(isinstance(y, (ast.FunctionDef, ast.AsyncFunctionDef, ast.ClassDef, ast.Yield, ast.YieldFrom, ast.Global, ast.Nonlocal))
                               for x in body for y in ast.walk(x)):
                continue
            rets = [y for x in body for y in ast.walk(x) if isinstance(y, ast.Return)]
            if len(rets) > 1 or (rets and rets[0] is not body[-1]):
                continue
            helpers[st.name] = (st, body)
    if not helpers:
        return notes
    import copy
    for qual, f in top_functions(tree):
        if f.name in helpers:
            continue
        for holder in ast.walk(f):
            for fld in ('body', 'orelse', 'finalbody'):
                blk = getattr(holder, fld, None)
                if not isinstance(blk, list):
                    continue
                i = 0
                while i < len(blk):
                    st = blk[i]
                    call = None
                    if isinstance(st, ast.Expr) and isinstance(st.value, ast.Call):
                        call = st.value
                    elif isinstance(st, ast.Assign) and len(st.targets) == 1 and isinstance(st.value, ast.Call):
                        call = st.value
                    if call is None or not isinstance(call.func, ast.Name) or call.func.id not in helpers:
                        i += 1
                        continue
                    h, body = helpers[call.func.id]
                    params = [a.arg for a in h.args.args]
                    bound = {}
                    okc = len(call.args) <= len(params) and all(_simple_arg(a) for a in call.args) and \
                        all(k.arg in params and _simple_arg(k.value) for k in call.keywords)
                    if okc:
                        for pn, av in zip(params, call.args):
                            bound[pn] = av
                        for k in call.keywords:
                            bound[k.arg] = k.value
                        defaults = dict(zip(params[len(params) - len(h.args.defaults):], h.args.defaults))
                        for pn in params:
                            if pn not in bound and pn in defaults:
                                bound[pn] = defaults[pn]
                        okc = all(pn in bound for pn in params)
                    hl = {y.id for x in body for y in ast.walk(x) if isinstance(y, ast.Name) and isinstance(y.ctx, ast.Store)} - set(params)
                    # the helper's own locals must be free in the caller (apart from this statement's target)
                    used = {y.id for y in ast.walk(f) if isinstance(y, ast.Name)} - {y.id for y in ast.walk(st) if isinstance(y, ast.Name)}
                    if not okc or (hl & used) or any(isinstance(y, ast.Name) and isinstance(y.ctx, ast.Store) and y.id in params for x in body for y in ast.walk(x)):
                        i += 1
                        continue
                    new = []
                    for x in body:
                        x2 = copy.deepcopy(x)

                        class _P(ast.NodeTransformer):
                            def visit_Name(self, node):
                                if node.id in bound and isinstance(node.ctx, ast.Load):
                                    return ast.copy_location(copy.deepcopy(bound[node.id]), node)
                                return node
                        x2 = _P().visit(x2)
                        if isinstance(x2, ast.Return):
                            if isinstance(st, ast.Assign) and x2.value is not None:
                                x2 = ast.Assign(targets=st.targets, value=x2.value)
                            elif x2.value is None or _simple_arg(x2.value):
                                continue
                            else:
                                x2 = ast.Expr(value=x2.value)
                        # (all on the line of the call, in source order: rules that order constructs by position)
                        for j, y in enumerate(_ordered(x2)):
                            if hasattr(y, 'lineno') or isinstance(y, (ast.expr, ast.stmt)):
                                y.lineno, y.col_offset = st.lineno, st.col_offset + 10000 * (len(new) + 1) + j
                                y.end_lineno, y.end_col_offset = st.end_lineno, st.end_col_offset
                        new.append(x2)
                    if isinstance(st, ast.Assign) and not any(isinstance(x, ast.Return) for x in body):
                        i += 1
                        continue
                    blk[i:i + 1] = new
                    notes.append('%s: call of the new helper %s() spliced back in' % (qual, h.name))
                    i += len(new)
    if notes:
        # a helper that is no longer called anywhere has been undone completely: its definition goes as well
        for name, (h, _) in helpers.items():
            still = any(isinstance(c, ast.Name) and c.id == name for st in tree.body if st is not h for c in ast.walk(st))
            if not still and h in tree.body:
                tree.body.remove(h)
        ast.fix_missing_locations(tree)
    return notes


def _literal_const(v):
    """a small literal made of constants and dotted names only (what "move the constant to module level" produces)"""
    if isinstance(v, ast.Constant):
        return True
    if isinstance(v, (ast.Name, ast.Attribute)):
        return isinstance(v, ast.Name) or _literal_const(v.value)
    if isinstance(v, (ast.Tuple, ast.List, ast.Set)):
        return len(v.elts) <= 12 and all(_literal_const(e) for e in v.elts)
    if isinstance(v, ast.Dict):
        return len(v.keys) <= 16 and all(k is not None and _literal_const(k) for k in v.keys) and all(_literal_const(x) for x in v.values)
    return False


class _FoldText(ast.NodeTransformer):
    """after a name was replaced by a constant: getattr(o, 'a') -> o.a; an f-string field holding a constant text joins
    the text around it"""
    def visit_Call(self, node):
        self.generic_visit(node)
        if isinstance(node.func, ast.Name) and node.func.id == 'getattr' and len(node.args) == 2 and not node.keywords \
                and isinstance(node.args[1], ast.Constant) and isinstance(node.args[1].value, str) and node.args[1].value.isidentifier():
            return ast.copy_location(ast.Attribute(value=node.args[0], attr=node.args[1].value, ctx=ast.Load()), node)
        return node

    def visit_JoinedStr(self, node):
        self.generic_visit(node)
        vals = []
        for v in node.values:
            if isinstance(v, ast.FormattedValue) and v.format_spec is None and v.conversion in (-1, 115) and isinstance(v.value, ast.Constant) \
                    and isinstance(v.value.value, str):
                v = ast.Constant(value=v.value.value)
            if isinstance(v, ast.Constant) and vals and isinstance(vals[-1], ast.Constant):
                vals[-1] = ast.Constant(value=vals[-1].value + v.value)
            else:
                vals.append(v)
        if len(vals) == 1 and isinstance(vals[0], ast.Constant):
            return ast.copy_location(vals[0], node)
        node.values = vals
        return node


def new_module_literals(tree, ref_globals):
    """{name: Assign} for module-level `NAME = <small literal>` that the reference module does not have and nothing
    else stores to"""
    consts = {}
    if ref_globals is None:
        return consts
    for st in tree.body:
        if isinstance(st, ast.Assign) and len(st.targets) == 1 and isinstance(st.targets[0], ast.Name) and st.targets[0].id not in ref_globals \
                and _literal_const(st.value):
            consts[st.targets[0].id] = st
    for n in ast.walk(tree):
        if isinstance(n, ast.Name) and isinstance(n.ctx, (ast.Store, ast.Del)) and n.id in consts and consts[n.id].targets[0] is not n:
            consts.pop(n.id)
        elif isinstance(n, ast.Global):
            for nm in n.names:
                consts.pop(nm, None)
    return consts


def tables_back(tree, ref_globals, imported=None, ref_shapes=None):
    """Undo "table instead of code", for module-level literals the reference module does not have:
      * `if K in T: S(T[K])` with T a new dict literal  ->  `if K == k1: S(v1) elif K == k2: S(v2) ...` (the statement's
        own else / elif chain continues after the last entry)
      * `for x in T: body` with T a new tuple / list of at most 4 constants (or such a literal in place), body without
        break / continue  ->  the body once per element
      * any other read of a new module-level literal  ->  the literal itself ("constant moved to module level")
    Returns notes."""
    import copy
    notes = []
    if ref_globals is None or os.environ.get('VERIF_NO_INLINE'):
        return notes
    consts = new_module_literals(tree, ref_globals)
    # new literals of other modules that this one imports by name
    for st in tree.body:
        if isinstance(st, ast.ImportFrom) and st.module is not None or isinstance(st, ast.ImportFrom):
            base = (st.module or '').split('.')[-1]
            for al in st.names:
                src_ = (imported or {}).get(base, {})
                if al.name in src_ and (al.asname or al.name) not in ref_globals:
                    consts[al.asname or al.name] = src_[al.name]
    if not consts and ref_shapes is None:
        return notes

    class _Sub(ast.NodeTransformer):
        def __init__(self, name, value):
            self.name, self.value = name, value

        def visit_Name(self, node):
            if node.id == self.name and isinstance(node.ctx, ast.Load):
                return ast.copy_location(copy.deepcopy(self.value), node)
            return node

    class _SubTable(ast.NodeTransformer):
        def __init__(self, table, key_text, value):
            self.table, self.key_text, self.value = table, key_text, value

        def visit_Subscript(self, node):
            self.generic_visit(node)
            if isinstance(node.value, ast.Name) and node.value.id == self.table and isinstance(node.ctx, ast.Load) and ast.unparse(node.slice) == self.key_text:
                return ast.copy_location(copy.deepcopy(self.value), node)
            return node
    n_disp = n_loop = n_const = 0
    for qual, f in top_functions(tree):
        changed = True
        while changed:
            changed = False
            for holder in ast.walk(f):
                for fld in ('body', 'orelse', 'finalbody'):
                    blk = getattr(holder, fld, None)
                    if not isinstance(blk, list) or not blk or not isinstance(blk[0], ast.stmt):
                        continue
                    for i, st in enumerate(blk):
                        if isinstance(st, ast.If) and isinstance(st.test, ast.Compare) and len(st.test.ops) == 1 and isinstance(st.test.ops[0], ast.In) \
                                and isinstance(st.test.comparators[0], ast.Name) and st.test.comparators[0].id in consts \
                                and isinstance(consts[st.test.comparators[0].id].value, ast.Dict) and isinstance(st.test.left, (ast.Name, ast.Attribute)):
                            tname = st.test.comparators[0].id
                            d = consts[tname].value
                            ktext = ast.unparse(st.test.left)
                            first = prev = None
                            for k, v in zip(d.keys, d.values):
                                body = [_SubTable(tname, ktext, v).visit(copy.deepcopy(x)) for x in st.body]
                                arm = ast.copy_location(ast.If(test=ast.Compare(left=copy.deepcopy(st.test.left), ops=[ast.Eq()], comparators=[copy.deepcopy(k)]),
                                                               body=body, orelse=[]), st)
                                if first is None:
                                    first = arm
                                else:
                                    prev.orelse = [arm]
                                prev = arm
                            if first is not None:
                                prev.orelse = st.orelse
                                blk[i] = first
                                n_disp += 1
                                changed = True
                                break
                        if isinstance(st, ast.For) and not st.orelse and isinstance(st.target, ast.Name):
                            it = st.iter
                            if isinstance(it, ast.Name) and it.id in consts:
                                it = consts[it.id].value
                            # (a literal in place counts when the reference function has no loop over that literal)
                            in_ref = it is st.iter and (ref_shapes is None or any(
                                x.startswith('For ') and ast.unparse(it) in x for x in (ref_shapes.get(qual) or {}).get('skel', ['For ' + ast.unparse(it)])))
                            # (a loop that only fills an accumulator is a comprehension written out: left to loops_to_comprehensions)
                            core_ = st.body[0].body if len(st.body) == 1 and isinstance(st.body[0], ast.If) and not st.body[0].orelse else st.body
                            fills = len(core_) == 1 and (
                                (isinstance(core_[0], ast.Expr) and isinstance(core_[0].value, ast.Call) and isinstance(core_[0].value.func, ast.Attribute)
                                 and core_[0].value.func.attr in ('append', 'add')) or
                                (isinstance(core_[0], ast.Assign) and len(core_[0].targets) == 1 and isinstance(core_[0].targets[0], ast.Subscript)))
                            if isinstance(it, (ast.Tuple, ast.List)) and 1 <= len(it.elts) <= 4 and all(isinstance(e, ast.Constant) for e in it.elts) \
                                    and not in_ref and not (fills and it is st.iter) \
                                    and not any(isinstance(y, (ast.Break, ast.Continue)) for x in st.body for y in ast.walk(x)) \
                                    and not any(isinstance(y, ast.Name) and y.id == st.target.id and isinstance(y.ctx, ast.Store) for x in st.body for y in ast.walk(x)):
                                new = []
                                for e in it.elts:
                                    for x in st.body:
                                        x2 = _Sub(st.target.id, e).visit(copy.deepcopy(x))
                                        new.append(_FoldText().visit(x2))
                                blk[i:i + 1] = new
                                n_loop += 1
                                changed = True
                                break
                    if changed:
                        break
                if changed:
                    break
        # what is left of the new constants: read in place
        for name, cst in consts.items():
            if isinstance(cst.value, ast.Dict):
                continue
            before = sum(1 for y in ast.walk(f) if isinstance(y, ast.Name) and y.id == name and isinstance(y.ctx, ast.Load))
            if before and not any(isinstance(y, ast.Name) and y.id == name and isinstance(y.ctx, ast.Store) for y in ast.walk(f)) \
                    and name not in {a.arg for n in ast.walk(f) if isinstance(n, ast.arguments) for a in n.posonlyargs + n.args + n.kwonlyargs}:
                _Sub(name, cst.value).visit(f)
                n_const += before
    if n_disp or n_loop or n_const:
        ast.fix_missing_locations(tree)
        for qual, f in top_functions(tree):
            _reposition(f)
        notes.append('%d table dispatch(es) written out as if-chains, %d loop(s) over a constant tuple unrolled, %d read(s) of new module-level '
                     'literals replaced by the literal' % (n_disp, n_loop, n_const))
    return notes


def properties_back(trees):
    """Repo-level step, before the modules are canonicalised one by one: a new `@property` (a method of a class of
    module M that M's reference does not have) whose body is one `return <expression>` is read through wherever it is
    used, in every module: `<receiver>.name` becomes the expression with `self` standing for the receiver (a name or an
    attribute chain).  The property's name must not be stored to anywhere.  trees: {module: ast}.  Returns notes."""
    import copy
    notes = []
    if os.environ.get('VERIF_NO_INLINE'):
        return notes
    props = {}
    for m, tree in trees.items():
        known = ref().get(m)
        if known is None:
            continue
        for st in tree.body:
            if not isinstance(st, ast.ClassDef):
                continue
            for s2 in st.body:
                if isinstance(s2, ast.FunctionDef) and (st.name + '.' + s2.name) not in known and len(s2.decorator_list) == 1 \
                        and isinstance(s2.decorator_list[0], ast.Name) and s2.decorator_list[0].id == 'property' \
                        and len(s2.args.args) == 1 and s2.args.args[0].arg == 'self':
                    body = [x for x in s2.body if not (isinstance(x, ast.Expr) and isinstance(x.value, ast.Constant) and isinstance(x.value.value, str))]
                    if len(body) == 1 and isinstance(body[0], ast.Return) and body[0].value is not None and \
                            not any(isinstance(y, (ast.Yield, ast.YieldFrom, ast.Await, ast.NamedExpr, ast.Lambda)) for y in ast.walk(body[0].value)):
                        props[s2.name] = (m, st, s2, body[0].value)
    if not props:
        return notes
    for tree in trees.values():
        for n in ast.walk(tree):
            if isinstance(n, ast.Attribute) and isinstance(n.ctx, (ast.Store, ast.Del)) and n.attr in props:
                props.pop(n.attr)
    used = {}

    class _Self(ast.NodeTransformer):
        def __init__(self, recv):
            self.recv = recv

        def visit_Name(self, node):
            if node.id == 'self' and isinstance(node.ctx, ast.Load):
                return ast.copy_location(copy.deepcopy(self.recv), node)
            return node

    def simple(e):
        return isinstance(e, ast.Name) or (isinstance(e, ast.Attribute) and simple(e.value))

    class _Use(ast.NodeTransformer):
        def visit_Attribute(self, node):
            self.generic_visit(node)
            if node.attr in props and isinstance(node.ctx, ast.Load) and simple(node.value):
                m, cls, fn, expr = props[node.attr]
                if any(node is y for y in ast.walk(fn)):
                    return node
                used[node.attr] = used.get(node.attr, 0) + 1
                return ast.copy_location(_Self(node.value).visit(copy.deepcopy(expr)), node)
            return node
    for m, tree in trees.items():
        _Use().visit(tree)
    for name, (m, cls, fn, expr) in props.items():
        if used.get(name):
            still = any(isinstance(n, ast.Attribute) and n.attr == name and not any(n is y for y in ast.walk(fn)) for t in trees.values() for n in ast.walk(t))
            if not still:
                cls.body.remove(fn)
            notes.append('%s: new property %s.%s read through at %d place(s)' % (m, cls.name, name, used[name]))
    if notes:
        for t in trees.values():
            ast.fix_missing_locations(t)
    return notes


def canonicalise(module_name, tree, imported=None):
    """rename locals back to the reference names where only names changed, then substitute back temporaries that the
    reference tree does not have; returns list of notes"""
    notes = []
    r = ref().get(module_name, {})
    if r and not os.environ.get('VERIF_NO_INLINE'):
        from . import splice as _splice
        sh = shapes().get(module_name, {})
        notes += ['%s: %s' % (module_name, x) for x in _splice.closures_back(
            tree, {q for q in r if '.' not in q}, {q: v.get('closures', {}) for q, v in sh.items()}, top_functions)]
        notes += ['%s: %s' % (module_name, x) for x in _splice.splice(
            tree, {q for q in r if '.' not in q}, {q for q in r if '.' in q},
            {q: v.get('defs', []) for q, v in sh.items()}, top_functions)]
    if r:
        notes += ['%s: %s' % (module_name, x) for x in tables_back(tree, (shapes().get(module_name, {}).get('__module__') or {}).get('globals'), imported, shapes().get(module_name, {}))]
    mg = module_globals_of(tree)
    for qual, f in top_functions(tree):
        want = r.get(qual)
        if want is None:
            continue
        # (turning an if/else round changes the order in which locals are first bound: undo that before names are compared)
        kf = format_back(f, shapes().get(module_name, {}).get(qual))
        if kf:
            notes.append('%s.%s: %d string format(s) turned back to the reference style' % (module_name, qual, kf))
        k0 = 0
        for _ in range(8):      # (an outer if/else is recognised by what it guards: inner ones first, then again)
            kk = orient_back(f, shapes().get(module_name, {}).get(qual))
            kk += layout_back(f, shapes().get(module_name, {}).get(qual))
            k0 += kk
            if not kk:
                break
        sh_ = shapes().get(module_name, {}).get(qual) or {}
        # (every name the reference function stores to, module-level names it re-binds included)
        ref_all = {nm for nm, _ in want} | set(sh_.get('stores', {}))
        tot = {'temps': 0, 'loops': 0, 'renamed': 0, 'single': 0, 'shared': 0}
        renamed = 0
        for _round in range(3):
            progress = 0
            names_cur = {nm for nm, _ in binding_sites(f, mg)}
            if len(names_cur) < len(want) or any(t[0] not in names_cur for t in sh_.get('temps', [])):
                kt = reintroduce_ref_temps(f, sh_.get('temps'))
                tot['temps'] += kt
                progress += kt
            if len(binding_sites(f, mg)) > len(want) or sum(1 for x in ast.walk(f) if isinstance(x, _COMPS)) < sh_.get('ncomp', 0):
                kl = loops_to_comprehensions(f, ref_all, sh_.get('ncomp'))
                if kl:
                    inline_new_temps(f, ref_all)
                tot['loops'] += kl
                progress += kl
            if not renamed:
                renamed = _rename_back(f, want, mg, sh_.get('stores'), sh_.get('temps'))
                tot['renamed'] += renamed
                progress += renamed
            if not renamed and len(binding_sites(f, mg)) > len(want):
                # (a rename together with new temporaries: find out which temporaries are the new ones, then rename)
                sub = _choose_temps(f, want, mg, sh_.get('skel'))
                if sub:
                    k = inline_new_temps(f, ref_all, only=sub)
                    tot['single'] += k
                    progress += k
                    renamed = _rename_back(f, want, mg, sh_.get('stores'), sh_.get('temps'))
                    tot['renamed'] += renamed
            if any(nm not in ref_all for nm, _ in binding_sites(f, mg)):
                k2 = inline_shared_temps(f, ref_all)
                tot['shared'] += k2
                progress += k2
                k = inline_new_temps(f, ref_all)
                tot['single'] += k
                progress += k
            if not progress:
                break
        for key, text in (('temps', 'temporar(ies) of the reference bound again'), ('loops', "accumulating loop(s) turned back into the reference's comprehension"),
                          ('renamed', 'local(s) mapped back to reference names'), ('single', 'new single-use temporar(ies) inlined'),
                          ('shared', 'new shared temporar(ies) (pure expression read several times) substituted back')):
            if tot[key]:
                notes.append('%s.%s: %d %s' % (module_name, qual, tot[key], text))
        k = k0 + orient_back(f, shapes().get(module_name, {}).get(qual))
        if k:
            _reposition(f)
            notes.append('%s.%s: %d comparison(s) / if-else(s) turned back to the reference orientation' % (module_name, qual, k))
    return notes


def _name_shape(e):
    """the expression with all names blanked (so that a definition compares equal when only other renamed locals differ)"""
    import copy as _copy
    e = _copy.deepcopy(e)
    for n in ast.walk(e):
        if isinstance(n, ast.Name):
            n.id = '_'
    return ast.unparse(e)


def _merge_ok(f, x, y):
    """a local `x` that the reference does not have may stand for a second life of the reference's `y` (one name used
    for two things there, two names here) only if the two never overlap: every read of `y` comes before the first
    binding of `x` in the source, and no loop holds both a read of `y` and a binding of `x`"""
    pos = lambda n: (n.lineno, n.col_offset)
    xs = [n for n in ast.walk(f) if isinstance(n, ast.Name) and n.id == x and isinstance(n.ctx, ast.Store)]
    yl = [n for n in ast.walk(f) if isinstance(n, ast.Name) and n.id == y and isinstance(n.ctx, ast.Load)]
    if not xs:
        return False
    first = min(pos(n) for n in xs)
    if any(pos(n) >= first for n in yl):
        return False
    for loop in ast.walk(f):
        if isinstance(loop, (ast.For, ast.While, ast.AsyncFor)):
            inside = {id(n) for n in ast.walk(loop)}
            if any(id(n) in inside for n in xs) and any(id(n) in inside for n in yl):
                return False
    return True


def _split_back(f, want, mg, ref_stores=None):
    """Undo "one variable per purpose": the reference binds one name twice, the function now has a second name for
    the second life.  Tried only when the function has exactly one local more than the reference."""
    cur = binding_sites(f, mg)
    if len(cur) != len(want) + 1:
        return 0
    want_names = {nm for nm, _ in want}
    params = {a.arg for n in ast.walk(f) if isinstance(n, ast.arguments) for a in n.posonlyargs + n.args + n.kwonlyargs}
    # (first the names the reference does not have; then - the second life kept the old name, the first got a new one -
    # the others)
    for i, (x, _) in sorted(enumerate(cur), key=lambda t: (t[1][0] in want_names, t[0])):
        rest = cur[:i] + cur[i + 1:]
        if [k for _, k in rest] != [k for _, k in want]:
            continue
        back = {a: b for (a, _), (b, _) in zip(rest, want) if _ != 'comp'}
        if len(set(back.values())) != len(back):
            continue
        # (what is left must line up as a rename, not as a shift of names both trees use)
        rest_names = {a for a, k_ in rest if k_ != 'comp'}
        if any(a != b and (a in want_names or b in rest_names) for a, b in back.items()):
            continue
        now = shape_of(f)['stores']
        for y_now, y_ref in list(back.items()) + [(p_, p_) for p_ in sorted(params)]:
            # (the reference binds its one name as often as the two names are bound together here)
            if ref_stores is None or now.get(x, 0) + now.get(y_now, 0) != ref_stores.get(y_ref, 0):
                continue
            if _merge_ok(f, x, y_now):
                _Ren({x: y_now}).visit(f)
                return 1
    return 0


def _rename_back(f, want, mg, ref_stores=None, ref_temps_=None):
    if not want:
        return 0
    cur = binding_sites(f, mg)
    if cur == want:
        return 0
    if len(cur) == len(want) + 1 and _split_back(f, want, mg, ref_stores):
        cur = binding_sites(f, mg)
        if cur == want:
            return 1
    if len(cur) != len(want) or [k for _, k in cur] != [k for _, k in want]:
        return 0
    clauses = comp_nodes(f)
    per_clause = []
    for g in clauses:
        per_clause += [(id(g), x.id) for x in _ordered(g.target) if isinstance(x, ast.Name)]
    if len(per_clause) != sum(1 for _, k in cur if k == 'comp'):
        return 0
    mapping, cmaps, ci = {}, {}, 0
    for (a, k), (b, _) in zip(cur, want):
        if k == 'comp':
            gid, nm = per_clause[ci]
            ci += 1
            if nm != a:
                return 0
            if a != b:
                if cmaps.setdefault(gid, {}).get(a, b) != b:
                    return 0
                cmaps[gid][a] = b
        elif a != b:
            mapping[a] = b
    if not mapping and not cmaps:
        return 0
    if len(set(mapping.values())) != len(mapping):
        return 0
    # a rename introduces names the reference does not have and retires names the function no longer has; when the
    # "mapping" merely permutes names both trees use (a local now bound earlier than before), it is not a rename
    want_names, cur_names = {nm for nm, k in want if k != 'comp'}, {nm for nm, k in cur if k != 'comp'}
    if any(a_ in want_names or b_ in cur_names for a_, b_ in mapping.items()):
        return 0
    used = scope_names(f)
    if any(b in used and b not in mapping for b in mapping.values()):
        return 0
    # a renamed single-assignment temporary still holds what the reference's temporary holds: its defining expression,
    # read with the new names, is the reference's (else the "rename" pairs up two different things that merely sit at
    # the same place in the order of bindings)
    if ref_temps_:
        import copy as _copy
        rt = {t[0]: t[1] for t in ref_temps_}
        cur_defs = {}
        for st in ast.walk(f):
            if isinstance(st, ast.Assign) and len(st.targets) == 1 and isinstance(st.targets[0], ast.Name):
                cur_defs.setdefault(st.targets[0].id, []).append(st.value)
        for a_, b_ in mapping.items():
            if b_ in rt and len(cur_defs.get(a_, [])) == 1:
                v = _copy.deepcopy(cur_defs[a_][0])
                rename_scoped(v, mapping, {})
                if ast.unparse(v) != rt[b_] and _name_shape(v) != _name_shape(ast.parse(rt[b_], mode='eval').body):
                    return 0
    # inside one comprehension the new names of its variables must be distinct and must not capture a name it reads
    for g in clauses:
        cm = cmaps.get(id(g))
        if not cm:
            continue
        if len(set(cm.values())) != len(cm):
            return 0
    for node in ast.walk(f):
        if isinstance(node, _COMPS):
            cm = {}
            for g in node.generators:
                cm.update(cmaps.get(id(g), {}))
            if not cm:
                continue
            bound = {t.id for g in node.generators for t in ast.walk(g.target) if isinstance(t, ast.Name)}
            free = {y.id for y in ast.walk(node) if isinstance(y, ast.Name)} - bound
            free = {mapping.get(x, x) for x in free}
            if any(b in free or (b in bound and b not in cm) for b in cm.values()):
                return 0
    rename_scoped(f, mapping, cmaps)
    return len(mapping) + sum(len(v) for v in cmaps.values())
