"""Canonical local names: undo behaviour-preserving renames of local variables.

The rules name locals of the pinned tree (footer_start, i_offset, rgs ...).  For every top-level
function/method we keep, in engine/refnames.json, the ordered list of its local binding sites
(name, kind of binding statement) as confirmed on the pinned tree.  When the function analysed
has the same sequence of binding kinds but different names, its locals are renamed back to the
reference names (a bijection is required, and no reference name may already be in use for
something else).  Any other difference leaves the function untouched."""
import ast
import builtins
import json
import os

REF_PATH = os.path.join(os.path.dirname(os.path.abspath(__file__)), 'refnames.json')
_REF = None


def ref():
    global _REF
    if _REF is None:
        _REF = json.load(open(REF_PATH)) if os.path.exists(REF_PATH) else {}
    return _REF


def _ordered(node):
    """nodes of the subtree in source order"""
    out = []

    def rec(n):
        out.append(n)
        for c in ast.iter_child_nodes(n):
            rec(c)
    rec(node)
    return out


def binding_sites(func, module_globals):
    """ordered list of (name, kind) for the first binding of every local of func (nested defs included)"""
    params = set()
    declared = set()
    for n in ast.walk(func):
        if isinstance(n, (ast.FunctionDef, ast.AsyncFunctionDef, ast.Lambda)):
            a = n.args
            params |= {x.arg for x in a.posonlyargs + a.args + a.kwonlyargs}
            if a.vararg:
                params.add(a.vararg.arg)
            if a.kwarg:
                params.add(a.kwarg.arg)
            if isinstance(n, ast.FunctionDef) and n is not func:
                declared.add(n.name)
        elif isinstance(n, (ast.Global, ast.Nonlocal)):
            declared |= set(n.names)
        elif isinstance(n, (ast.Import, ast.ImportFrom)):
            for al in n.names:
                declared.add((al.asname or al.name).split('.')[0])
    skip = params | declared | module_globals | set(dir(builtins))
    seen = {}
    order = []
    kind_of = {}
    # map every Store name to the kind of its binding statement
    for st in _ordered(func):
        kind = None
        names = []
        if isinstance(st, ast.Assign):
            kind = 'assign'
            for t in st.targets:
                names += [x.id for x in _ordered(t) if isinstance(x, ast.Name) and isinstance(x.ctx, ast.Store)]
        elif isinstance(st, ast.AugAssign) and isinstance(st.target, ast.Name):
            kind, names = 'aug', [st.target.id]
        elif isinstance(st, ast.AnnAssign) and isinstance(st.target, ast.Name):
            kind, names = 'assign', [st.target.id]
        elif isinstance(st, (ast.For, ast.AsyncFor)):
            kind = 'for'
            names = [x.id for x in _ordered(st.target) if isinstance(x, ast.Name)]
        elif isinstance(st, ast.comprehension):
            kind = 'comp'
            names = [x.id for x in _ordered(st.target) if isinstance(x, ast.Name)]
        elif isinstance(st, (ast.With, ast.AsyncWith)):
            kind = 'with'
            for it in st.items:
                if it.optional_vars is not None:
                    names += [x.id for x in _ordered(it.optional_vars) if isinstance(x, ast.Name)]
        elif isinstance(st, ast.ExceptHandler) and st.name:
            kind, names = 'except', [st.name]
        elif isinstance(st, ast.NamedExpr) and isinstance(st.target, ast.Name):
            kind, names = 'walrus', [st.target.id]
        for nm in names:
            if nm in skip or nm in seen:
                continue
            seen[nm] = True
            order.append([nm, kind])
    return order


def module_globals_of(tree):
    mg = set()
    for st in tree.body:
        if isinstance(st, (ast.Assign, ast.AnnAssign, ast.AugAssign)):
            for n in ast.walk(st):
                if isinstance(n, ast.Name) and isinstance(n.ctx, ast.Store):
                    mg.add(n.id)
        elif isinstance(st, (ast.FunctionDef, ast.ClassDef)):
            mg.add(st.name)
        elif isinstance(st, (ast.Import, ast.ImportFrom)):
            for al in st.names:
                mg.add((al.asname or al.name).split('.')[0])
        elif isinstance(st, (ast.If, ast.Try)):
            for n in ast.walk(st):
                if isinstance(n, ast.Name) and isinstance(n.ctx, ast.Store):
                    mg.add(n.id)
    return mg


def top_functions(tree):
    for st in tree.body:
        if isinstance(st, ast.FunctionDef):
            yield st.name, st
        elif isinstance(st, ast.ClassDef):
            for s2 in st.body:
                if isinstance(s2, ast.FunctionDef):
                    yield st.name + '.' + s2.name, s2


class _Ren(ast.NodeTransformer):
    def __init__(self, mapping):
        self.m = mapping

    def visit_Name(self, node):
        if node.id in self.m:
            node.id = self.m[node.id]
        return node

    def visit_ExceptHandler(self, node):
        if node.name in self.m:
            node.name = self.m[node.name]
        self.generic_visit(node)
        return node


class _Subst(ast.NodeTransformer):
    def __init__(self, name, expr):
        self.name, self.expr, self.done = name, expr, 0

    def visit_Name(self, node):
        if node.id == self.name and isinstance(node.ctx, ast.Load):
            self.done += 1
            return ast.copy_location(self.expr, node)
        return node


def inline_new_temps(f, ref_names):
    """Undo "introduce explaining variable": a local that does not exist on the reference tree, is bound exactly once
    by a plain `name = <expression>` statement and read exactly once, in the statement that directly follows, is
    substituted back into that statement and its binding removed.  Returns the number of temporaries inlined."""
    n_inlined = 0
    changed = not os.environ.get('VERIF_NO_INLINE')      # (switch used only to show that the twin family bites)
    while changed:
        changed = False
        stores, loads = {}, {}
        for n in ast.walk(f):
            if isinstance(n, ast.Name):
                (stores if isinstance(n.ctx, ast.Store) else loads).setdefault(n.id, []).append(n)
        params = {a.arg for n in ast.walk(f) if isinstance(n, ast.arguments) for a in n.posonlyargs + n.args + n.kwonlyargs}
        for holder in ast.walk(f):
            for fld in ('body', 'orelse', 'finalbody'):
                blk = getattr(holder, fld, None)
                if not isinstance(blk, list):
                    continue
                for i, st in enumerate(blk[:-1]):
                    if not (isinstance(st, ast.Assign) and len(st.targets) == 1 and isinstance(st.targets[0], ast.Name)):
                        continue
                    nm = st.targets[0].id
                    if nm in ref_names or nm in params or len(stores.get(nm, [])) != 1 or len(loads.get(nm, [])) != 1:
                        continue
                    nxt = blk[i + 1]
                    if isinstance(nxt, (ast.FunctionDef, ast.AsyncFunctionDef, ast.ClassDef)):
                        continue
                    # the single read must be in the header/expression part of the next statement
                    target = nxt
                    if isinstance(nxt, (ast.If, ast.While)):
                        target = nxt.test
                    elif isinstance(nxt, ast.For):
                        target = nxt.iter
                    elif isinstance(nxt, ast.With):
                        target = nxt.items[0].context_expr
                    if not any(x is loads[nm][0] for x in ast.walk(target)):
                        continue
                    sub = _Subst(nm, st.value)
                    if target is nxt:
                        blk[i + 1] = sub.visit(nxt)
                    elif isinstance(nxt, (ast.If, ast.While)):
                        nxt.test = sub.visit(nxt.test)
                    elif isinstance(nxt, ast.For):
                        nxt.iter = sub.visit(nxt.iter)
                    else:
                        nxt.items[0].context_expr = sub.visit(nxt.items[0].context_expr)
                    del blk[i]
                    n_inlined += 1
                    changed = True
                    break
                if changed:
                    break
            if changed:
                break
    if n_inlined:
        ast.fix_missing_locations(f)
    return n_inlined


def canonicalise(module_name, tree):
    """rename locals back to the reference names where only names changed, then substitute back temporaries that the
    reference tree does not have; returns list of notes"""
    notes = []
    r = ref().get(module_name, {})
    mg = module_globals_of(tree)
    for qual, f in top_functions(tree):
        want = r.get(qual)
        if want is None:
            continue
        renamed = _rename_back(f, want, mg)
        if renamed:
            notes.append('%s.%s: %d local(s) mapped back to reference names' % (module_name, qual, renamed))
        k = inline_new_temps(f, {nm for nm, _ in want})
        if k:
            notes.append('%s.%s: %d new single-use temporar%s inlined' % (module_name, qual, k, 'y' if k == 1 else 'ies'))
    return notes


def _rename_back(f, want, mg):
    if not want:
        return 0
    cur = binding_sites(f, mg)
    if cur == want:
        return 0
    if len(cur) != len(want) or [k for _, k in cur] != [k for _, k in want]:
        return 0
    mapping = {a: b for (a, _), (b, _) in zip(cur, want) if a != b}
    if not mapping:
        return 0
    if len(set(mapping.values())) != len(mapping):
        return 0
    used = {n.id for n in ast.walk(f) if isinstance(n, ast.Name)} | {a.arg for n in ast.walk(f) if isinstance(n, ast.arguments)
                                                                       for a in n.posonlyargs + n.args + n.kwonlyargs}
    if any(b in used and b not in mapping for b in mapping.values()):
        return 0
    _Ren(mapping).visit(f)
    return len(mapping)
