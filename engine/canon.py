"""Canonical local names: undo behaviour-preserving renames of local variables.

The rules name locals of the pinned tree (footer_start, i_offset, rgs ...).  For every top-level
function/method we keep, in engine/refnames.json, the ordered list of its local binding sites
(name, kind of binding statement) as confirmed on the pinned tree.  When the function analysed
has the same sequence of binding kinds but different names, its locals are renamed back to the
reference names (a bijection is required, and no reference name may already be in use for
something else).  Any other difference leaves the function untouched."""
import ast
import builtins
import json
import os

REF_PATH = os.path.join(os.path.dirname(os.path.abspath(__file__)), 'refnames.json')
SHAPE_PATH = os.path.join(os.path.dirname(os.path.abspath(__file__)), 'refshapes.json')
_REF = None
_SHAPES = None


def shapes():
    global _SHAPES
    if _SHAPES is None:
        _SHAPES = json.load(open(SHAPE_PATH)) if os.path.exists(SHAPE_PATH) else {}
    return _SHAPES


def ref():
    global _REF
    if _REF is None:
        _REF = json.load(open(REF_PATH)) if os.path.exists(REF_PATH) else {}
    return _REF


def _ordered(node):
    """nodes of the subtree in source order"""
    out = []

    def rec(n):
        out.append(n)
        for c in ast.iter_child_nodes(n):
            rec(c)
    rec(node)
    return out


def binding_sites(func, module_globals):
    """ordered list of (name, kind) for the first binding of every local of func (nested defs included)"""
    params = set()
    declared = set()
    for n in ast.walk(func):
        if isinstance(n, (ast.FunctionDef, ast.AsyncFunctionDef, ast.Lambda)):
            a = n.args
            params |= {x.arg for x in a.posonlyargs + a.args + a.kwonlyargs}
            if a.vararg:
                params.add(a.vararg.arg)
            if a.kwarg:
                params.add(a.kwarg.arg)
            if isinstance(n, ast.FunctionDef) and n is not func:
                declared.add(n.name)
        elif isinstance(n, (ast.Global, ast.Nonlocal)):
            declared |= set(n.names)
        elif isinstance(n, (ast.Import, ast.ImportFrom)):
            for al in n.names:
                declared.add((al.asname or al.name).split('.')[0])
    skip = params | declared | module_globals | set(dir(builtins))
    seen = {}
    order = []
    kind_of = {}
    # map every Store name to the kind of its binding statement
    for st in _ordered(func):
        kind = None
        names = []
        if isinstance(st, ast.Assign):
            kind = 'assign'
            for t in st.targets:
                names += [x.id for x in _ordered(t) if isinstance(x, ast.Name) and isinstance(x.ctx, ast.Store)]
        elif isinstance(st, ast.AugAssign) and isinstance(st.target, ast.Name):
            kind, names = 'aug', [st.target.id]
        elif isinstance(st, ast.AnnAssign) and isinstance(st.target, ast.Name):
            kind, names = 'assign', [st.target.id]
        elif isinstance(st, (ast.For, ast.AsyncFor)):
            kind = 'for'
            names = [x.id for x in _ordered(st.target) if isinstance(x, ast.Name)]
        elif isinstance(st, ast.comprehension):
            kind = 'comp'
            names = [x.id for x in _ordered(st.target) if isinstance(x, ast.Name)]
        elif isinstance(st, (ast.With, ast.AsyncWith)):
            kind = 'with'
            for it in st.items:
                if it.optional_vars is not None:
                    names += [x.id for x in _ordered(it.optional_vars) if isinstance(x, ast.Name)]
        elif isinstance(st, ast.ExceptHandler) and st.name:
            kind, names = 'except', [st.name]
        elif isinstance(st, ast.NamedExpr) and isinstance(st.target, ast.Name):
            kind, names = 'walrus', [st.target.id]
        for nm in names:
            if nm in skip or nm in seen:
                continue
            seen[nm] = True
            order.append([nm, kind])
    return order


def module_globals_of(tree):
    mg = set()
    for st in tree.body:
        if isinstance(st, (ast.Assign, ast.AnnAssign, ast.AugAssign)):
            for n in ast.walk(st):
                if isinstance(n, ast.Name) and isinstance(n.ctx, ast.Store):
                    mg.add(n.id)
        elif isinstance(st, (ast.FunctionDef, ast.ClassDef)):
            mg.add(st.name)
        elif isinstance(st, (ast.Import, ast.ImportFrom)):
            for al in st.names:
                mg.add((al.asname or al.name).split('.')[0])
        elif isinstance(st, (ast.If, ast.Try)):
            for n in ast.walk(st):
                if isinstance(n, ast.Name) and isinstance(n.ctx, ast.Store):
                    mg.add(n.id)
    return mg


def top_functions(tree):
    for st in tree.body:
        if isinstance(st, ast.FunctionDef):
            yield st.name, st
        elif isinstance(st, ast.ClassDef):
            for s2 in st.body:
                if isinstance(s2, ast.FunctionDef):
                    yield st.name + '.' + s2.name, s2


class _Ren(ast.NodeTransformer):
    def __init__(self, mapping):
        self.m = mapping

    def visit_Name(self, node):
        if node.id in self.m:
            node.id = self.m[node.id]
        return node

    def visit_ExceptHandler(self, node):
        if node.name in self.m:
            node.name = self.m[node.name]
        self.generic_visit(node)
        return node


class _Subst(ast.NodeTransformer):
    def __init__(self, name, expr):
        self.name, self.expr, self.done = name, expr, 0

    def visit_Name(self, node):
        if node.id == self.name and isinstance(node.ctx, ast.Load):
            self.done += 1
            return ast.copy_location(self.expr, node)
        return node


def inline_new_temps(f, ref_names):
    """Undo "introduce explaining variable": a local that does not exist on the reference tree, is bound exactly once
    by a plain `name = <expression>` statement and read exactly once, in the statement that directly follows, is
    substituted back into that statement and its binding removed.  Returns the number of temporaries inlined."""
    n_inlined = 0
    changed = not os.environ.get('VERIF_NO_INLINE')      # (switch used only to show that the twin family bites)
    while changed:
        changed = False
        stores, loads = {}, {}
        for n in ast.walk(f):
            if isinstance(n, ast.Name):
                (stores if isinstance(n.ctx, ast.Store) else loads).setdefault(n.id, []).append(n)
        params = {a.arg for n in ast.walk(f) if isinstance(n, ast.arguments) for a in n.posonlyargs + n.args + n.kwonlyargs}
        for holder in ast.walk(f):
            for fld in ('body', 'orelse', 'finalbody'):
                blk = getattr(holder, fld, None)
                if not isinstance(blk, list):
                    continue
                for i, st in enumerate(blk[:-1]):
                    if not (isinstance(st, ast.Assign) and len(st.targets) == 1 and isinstance(st.targets[0], ast.Name)):
                        continue
                    nm = st.targets[0].id
                    if nm in ref_names or nm in params or len(stores.get(nm, [])) != 1 or len(loads.get(nm, [])) != 1:
                        continue
                    nxt = blk[i + 1]
                    if isinstance(nxt, (ast.FunctionDef, ast.AsyncFunctionDef, ast.ClassDef)):
                        continue
                    # the single read must be in the header/expression part of the next statement
                    target = nxt
                    if isinstance(nxt, (ast.If, ast.While)):
                        target = nxt.test
                    elif isinstance(nxt, ast.For):
                        target = nxt.iter
                    elif isinstance(nxt, ast.With):
                        target = nxt.items[0].context_expr
                    if not any(x is loads[nm][0] for x in ast.walk(target)):
                        continue
                    sub = _Subst(nm, st.value)
                    if target is nxt:
                        blk[i + 1] = sub.visit(nxt)
                    elif isinstance(nxt, (ast.If, ast.While)):
                        nxt.test = sub.visit(nxt.test)
                    elif isinstance(nxt, ast.For):
                        nxt.iter = sub.visit(nxt.iter)
                    else:
                        nxt.items[0].context_expr = sub.visit(nxt.items[0].context_expr)
                    del blk[i]
                    n_inlined += 1
                    changed = True
                    break
                if changed:
                    break
            if changed:
                break
    if n_inlined:
        ast.fix_missing_locations(f)
    return n_inlined


def fmt_equiv(node):
    """the same text built the other way: `"a%sb%r" % (x, y)`  <->  f"a{x}b{y!r}" (only %s / %r fields, no widths, no
    literal per cent signs or braces); None when the expression is not of that plain kind"""
    import re as _re
    if isinstance(node, ast.BinOp) and isinstance(node.op, ast.Mod) and isinstance(node.left, ast.Constant) and isinstance(node.left.value, str):
        fmt = node.left.value
        if '{' in fmt or '}' in fmt or '%%' in fmt:
            return None
        parts = _re.split(r'(%[sr])', fmt)
        if any('%' in p_ for p_ in parts[0::2]):
            return None
        args = list(node.right.elts) if isinstance(node.right, ast.Tuple) else [node.right]
        if len(args) != len(parts[1::2]) or isinstance(node.right, (ast.Dict, ast.Starred)) or not parts[1::2]:
            return None
        vals, k = [], 0
        for i, p_ in enumerate(parts):
            if i % 2 == 0:
                if p_:
                    vals.append(ast.Constant(value=p_))
            else:
                vals.append(ast.FormattedValue(value=args[k], conversion=114 if p_ == '%r' else -1, format_spec=None))
                k += 1
        return ast.JoinedStr(values=vals)
    if isinstance(node, ast.JoinedStr):
        fmt, args = '', []
        for v in node.values:
            if isinstance(v, ast.Constant) and isinstance(v.value, str):
                if '%' in v.value:
                    return None
                fmt += v.value
            elif isinstance(v, ast.FormattedValue) and v.format_spec is None and v.conversion in (-1, 114) \
                    and not isinstance(v.value, (ast.Tuple, ast.Dict)):
                fmt += '%r' if v.conversion == 114 else '%s'
                args.append(v.value)
            else:
                return None
        if not args:
            return None
        return ast.BinOp(left=ast.Constant(value=fmt), op=ast.Mod(), right=ast.Tuple(elts=args, ctx=ast.Load()) if len(args) > 1 else
                         (args[0] if not isinstance(args[0], ast.Tuple) else ast.Tuple(elts=[args[0]], ctx=ast.Load())))
    return None


_SWAP = {ast.Eq: ast.Eq, ast.NotEq: ast.NotEq, ast.Lt: ast.Gt, ast.Gt: ast.Lt, ast.LtE: ast.GtE, ast.GtE: ast.LtE}


def _negated(t):
    if isinstance(t, ast.UnaryOp) and isinstance(t.op, ast.Not):
        return t.operand
    return ast.UnaryOp(op=ast.Not(), operand=t)


def plain_if_else(st):
    # (an `else:` holding a single `if` counts too: turning `if c: <if x: ...> else: B` round makes exactly that shape)
    return isinstance(st, ast.If) and bool(st.orelse)


def _if_key(test, body):
    """an if/else is identified by its test and the first line of what it guards"""
    return '%s => %s' % (ast.unparse(test), ast.unparse(body[0]).split('\n')[0][:80])


def shape_of(f):
    """the orientation facts of a function: the texts (with multiplicity) of its two-operand comparisons and of the
    tests of its if/else statements"""
    cmps = sorted(ast.unparse(x) for x in ast.walk(f) if isinstance(x, ast.Compare) and len(x.ops) == 1 and type(x.ops[0]) in _SWAP)
    ifs = sorted(_if_key(x.test, x.body) for x in ast.walk(f) if plain_if_else(x))
    fmts = sorted(ast.unparse(x) for x in ast.walk(f) if fmt_equiv(x) is not None)
    defs = sorted(x.name for x in ast.walk(f) if isinstance(x, ast.FunctionDef) and x is not f)
    return {'cmp': cmps, 'if': ifs, 'fmt': fmts, 'defs': defs}


class _FmtBack(ast.NodeTransformer):
    def __init__(self, ref, cur):
        self.ref, self.cur, self.n = ref, cur, 0

    def _maybe(self, node):
        alt = fmt_equiv(node)
        if alt is None:
            return node
        t = ast.unparse(node)
        if self.cur[t] <= self.ref[t]:
            return node
        ta = ast.unparse(alt)
        if self.cur[ta] < self.ref[ta]:
            self.cur[t] -= 1
            self.cur[ta] += 1
            self.n += 1
            return ast.copy_location(alt, node)
        return node

    def visit_BinOp(self, node):
        self.generic_visit(node)
        return self._maybe(node) if isinstance(node.op, ast.Mod) else node

    def visit_JoinedStr(self, node):
        self.generic_visit(node)
        return self._maybe(node)


def format_back(f, want):
    """Undo a change of string-formatting style: an f-string for the reference's `"...%s" % (x,)` or the other way
    round (only plain %s / %r fields), when the current form is in surplus and the reference's form is missing."""
    if not want or os.environ.get('VERIF_NO_ORIENT'):
        return 0
    from collections import Counter
    ref = Counter(want.get('fmt', []))
    cur = Counter(ast.unparse(x) for x in ast.walk(f) if fmt_equiv(x) is not None)
    tr = _FmtBack(ref, cur)
    tr.generic_visit(f)
    if tr.n:
        ast.fix_missing_locations(f)
    return tr.n


def orient_back(f, want):
    """Undo two logic-preserving re-orientations: `b == a` for the reference's `a == b` (likewise != < <= > >=), and
    `if not c: B else: A` for the reference's `if c: A else: B`.  Only when the function has more occurrences of the
    current form than the reference function and fewer of the mirrored form; operands of a swapped comparison must be
    free of calls (so the order of evaluation is not at stake).  Returns the number of constructs turned back."""
    if not want or os.environ.get('VERIF_NO_ORIENT'):
        return 0
    from collections import Counter
    n = 0
    refc, refi = Counter(want.get('cmp', [])), Counter(want.get('if', []))
    cur = Counter(ast.unparse(x) for x in ast.walk(f) if isinstance(x, ast.Compare) and len(x.ops) == 1 and type(x.ops[0]) in _SWAP)
    for x in ast.walk(f):
        if isinstance(x, ast.Compare) and len(x.ops) == 1 and type(x.ops[0]) in _SWAP:
            t = ast.unparse(x)
            if cur[t] <= refc[t]:
                continue
            if any(isinstance(y, (ast.Call, ast.Await, ast.NamedExpr)) for side in (x.left, x.comparators[0]) for y in ast.walk(side)):
                continue
            m = ast.Compare(left=x.comparators[0], ops=[_SWAP[type(x.ops[0])]()], comparators=[x.left])
            tm = ast.unparse(m)
            if cur[tm] < refc[tm]:
                x.left, x.ops, x.comparators = m.left, m.ops, m.comparators
                cur[t] -= 1
                cur[tm] += 1
                n += 1
    cur = Counter(_if_key(x.test, x.body) for x in ast.walk(f) if plain_if_else(x))
    for x in ast.walk(f):
        if plain_if_else(x):
            t = _if_key(x.test, x.body)
            if cur[t] <= refi[t]:
                continue
            neg = _negated(x.test)
            tn = _if_key(neg, x.orelse)
            if cur[tn] < refi[tn]:
                x.test = neg
                x.body, x.orelse = x.orelse, x.body
                cur[t] -= 1
                cur[tn] += 1
                n += 1
    if n:
        ast.fix_missing_locations(f)
    return n


def _reposition(f):
    """after blocks changed places: hand the source positions out again in traversal order, so that "earlier in the
    source" keeps meaning "earlier in the function" for rules that order constructs by position (reports then point a
    few lines off inside the function that was turned back, never outside it)"""
    nodes = [n for n in _ordered(f) if hasattr(n, 'lineno') and n is not f]
    pos = sorted((n.lineno, n.col_offset) for n in nodes)
    for n, (l, c) in zip(nodes, pos):
        n.lineno, n.col_offset = l, c

    def end(n):
        e = getattr(n, 'lineno', 0)
        for ch in ast.iter_child_nodes(n):
            e = max(e, end(ch))
        if hasattr(n, 'end_lineno') and n is not f:
            n.end_lineno = e
        return e
    end(f)


def _simple_arg(e):
    return isinstance(e, (ast.Name, ast.Constant)) or (isinstance(e, ast.Attribute) and _simple_arg(e.value))


def inline_new_helpers(tree, known):
    """Undo "extract function": a module-level function that the reference tree does not have, whose body is a plain
    sequence of statements (optionally ending in `return <expr>`), is spliced back into the call sites that use it as a
    statement (`helper(a, b)`, `x = helper(a, b)`) with simple arguments - provided its local names do not collide with
    the caller's.  The definition itself stays.  Returns notes."""
    notes = []
    if os.environ.get('VERIF_NO_INLINE'):
        return notes
    helpers = {}
    for st in tree.body:
        if isinstance(st, ast.FunctionDef) and st.name not in known and not st.decorator_list:
            a = st.args
            if a.vararg or a.kwarg or a.kwonlyargs or a.posonlyargs:
                continue
            body = [x for x in st.body if not (isinstance(x, ast.Expr) and isinstance(x.value, ast.Constant))]
            if not body or any(isinstance(y, (ast.FunctionDef, ast.AsyncFunctionDef, ast.ClassDef, ast.Yield, ast.YieldFrom, ast.Global, ast.Nonlocal))
                               for x in body for y in ast.walk(x)):
                continue
            rets = [y for x in body for y in ast.walk(x) if isinstance(y, ast.Return)]
            if len(rets) > 1 or (rets and rets[0] is not body[-1]):
                continue
            helpers[st.name] = (st, body)
    if not helpers:
        return notes
    import copy
    for qual, f in top_functions(tree):
        if f.name in helpers:
            continue
        for holder in ast.walk(f):
            for fld in ('body', 'orelse', 'finalbody'):
                blk = getattr(holder, fld, None)
                if not isinstance(blk, list):
                    continue
                i = 0
                while i < len(blk):
                    st = blk[i]
                    call = None
                    if isinstance(st, ast.Expr) and isinstance(st.value, ast.Call):
                        call = st.value
                    elif isinstance(st, ast.Assign) and len(st.targets) == 1 and isinstance(st.value, ast.Call):
                        call = st.value
                    if call is None or not isinstance(call.func, ast.Name) or call.func.id not in helpers:
                        i += 1
                        continue
                    h, body = helpers[call.func.id]
                    params = [a.arg for a in h.args.args]
                    bound = {}
                    okc = len(call.args) <= len(params) and all(_simple_arg(a) for a in call.args) and \
                        all(k.arg in params and _simple_arg(k.value) for k in call.keywords)
                    if okc:
                        for pn, av in zip(params, call.args):
                            bound[pn] = av
                        for k in call.keywords:
                            bound[k.arg] = k.value
                        defaults = dict(zip(params[len(params) - len(h.args.defaults):], h.args.defaults))
                        for pn in params:
                            if pn not in bound and pn in defaults:
                                bound[pn] = defaults[pn]
                        okc = all(pn in bound for pn in params)
                    hl = {y.id for x in body for y in ast.walk(x) if isinstance(y, ast.Name) and isinstance(y.ctx, ast.Store)} - set(params)
                    # the helper's own locals must be free in the caller (apart from this statement's target)
                    used = {y.id for y in ast.walk(f) if isinstance(y, ast.Name)} - {y.id for y in ast.walk(st) if isinstance(y, ast.Name)}
                    if not okc or (hl & used) or any(isinstance(y, ast.Name) and isinstance(y.ctx, ast.Store) and y.id in params for x in body for y in ast.walk(x)):
                        i += 1
                        continue
                    new = []
                    for x in body:
                        x2 = copy.deepcopy(x)

                        class _P(ast.NodeTransformer):
                            def visit_Name(self, node):
                                if node.id in bound and isinstance(node.ctx, ast.Load):
                                    return ast.copy_location(copy.deepcopy(bound[node.id]), node)
                                return node
                        x2 = _P().visit(x2)
                        if isinstance(x2, ast.Return):
                            if isinstance(st, ast.Assign) and x2.value is not None:
                                x2 = ast.Assign(targets=st.targets, value=x2.value)
                            elif x2.value is None or _simple_arg(x2.value):
                                continue
                            else:
                                x2 = ast.Expr(value=x2.value)
                        # (all on the line of the call, in source order: rules that order constructs by position)
                        for j, y in enumerate(_ordered(x2)):
                            if hasattr(y, 'lineno') or isinstance(y, (ast.expr, ast.stmt)):
                                y.lineno, y.col_offset = st.lineno, st.col_offset + 10000 * (len(new) + 1) + j
                                y.end_lineno, y.end_col_offset = st.end_lineno, st.end_col_offset
                        new.append(x2)
                    if isinstance(st, ast.Assign) and not any(isinstance(x, ast.Return) for x in body):
                        i += 1
                        continue
                    blk[i:i + 1] = new
                    notes.append('%s: call of the new helper %s() spliced back in' % (qual, h.name))
                    i += len(new)
    if notes:
        # a helper that is no longer called anywhere has been undone completely: its definition goes as well
        for name, (h, _) in helpers.items():
            still = any(isinstance(c, ast.Name) and c.id == name for st in tree.body if st is not h for c in ast.walk(st))
            if not still and h in tree.body:
                tree.body.remove(h)
        ast.fix_missing_locations(tree)
    return notes


def canonicalise(module_name, tree):
    """rename locals back to the reference names where only names changed, then substitute back temporaries that the
    reference tree does not have; returns list of notes"""
    notes = []
    r = ref().get(module_name, {})
    if r and not os.environ.get('VERIF_NO_INLINE'):
        from . import splice as _splice
        sh = shapes().get(module_name, {})
        notes += ['%s: %s' % (module_name, x) for x in _splice.splice(
            tree, {q for q in r if '.' not in q}, {q for q in r if '.' in q},
            {q: v.get('defs', []) for q, v in sh.items()}, top_functions)]
    mg = module_globals_of(tree)
    for qual, f in top_functions(tree):
        want = r.get(qual)
        if want is None:
            continue
        # (turning an if/else round changes the order in which locals are first bound: undo that before names are compared)
        kf = format_back(f, shapes().get(module_name, {}).get(qual))
        if kf:
            notes.append('%s.%s: %d string format(s) turned back to the reference style' % (module_name, qual, kf))
        k0 = 0
        for _ in range(8):      # (an outer if/else is recognised by what it guards: inner ones first, then again)
            kk = orient_back(f, shapes().get(module_name, {}).get(qual))
            k0 += kk
            if not kk:
                break
        renamed = _rename_back(f, want, mg)
        if renamed:
            notes.append('%s.%s: %d local(s) mapped back to reference names' % (module_name, qual, renamed))
        k = inline_new_temps(f, {nm for nm, _ in want})
        if k:
            notes.append('%s.%s: %d new single-use temporar%s inlined' % (module_name, qual, k, 'y' if k == 1 else 'ies'))
        k = k0 + orient_back(f, shapes().get(module_name, {}).get(qual))
        if k:
            _reposition(f)
            notes.append('%s.%s: %d comparison(s) / if-else(s) turned back to the reference orientation' % (module_name, qual, k))
    return notes


def _rename_back(f, want, mg):
    if not want:
        return 0
    cur = binding_sites(f, mg)
    if cur == want:
        return 0
    if len(cur) != len(want) or [k for _, k in cur] != [k for _, k in want]:
        return 0
    mapping = {a: b for (a, _), (b, _) in zip(cur, want) if a != b}
    if not mapping:
        return 0
    if len(set(mapping.values())) != len(mapping):
        return 0
    # a rename introduces names the reference does not have and retires names the function no longer has; when the
    # "mapping" merely permutes names both trees use (a local now bound earlier than before), it is not a rename
    want_names, cur_names = {nm for nm, _ in want}, {nm for nm, _ in cur}
    if any(a_ in want_names or b_ in cur_names for a_, b_ in mapping.items()):
        return 0
    used = {n.id for n in ast.walk(f) if isinstance(n, ast.Name)} | {a.arg for n in ast.walk(f) if isinstance(n, ast.arguments)
                                                                       for a in n.posonlyargs + n.args + n.kwonlyargs}
    if any(b in used and b not in mapping for b in mapping.values()):
        return 0
    _Ren(mapping).visit(f)
    return len(mapping)
