"""Statement-level control-flow graph for one function, with the queries the rules
need: dominance, must-pass-through, reachability avoiding a set, reaching definitions.

Nodes are simple statements and the headers of compound statements.  Exceptional flow:
every statement inside a ``try`` body has an edge to each handler of that ``try``
(may-raise approximation); ``raise`` goes to the enclosing handlers or to the RAISE
exit.  Statements outside a ``try`` are not given exceptional edges: the rules speak
about normal paths unless they ask for the ``raise`` statements explicitly.
"""
import ast


class Node:
    __slots__ = ('id', 'stmt', 'kind', 'label')

    def __init__(self, nid, stmt, kind, label=''):
        self.id, self.stmt, self.kind, self.label = nid, stmt, kind, label

    def __repr__(self):
        ln = getattr(self.stmt, 'lineno', '-')
        return '<%d %s L%s %s>' % (self.id, self.kind, ln, self.label)


class CFG:
    def __init__(self, func):
        self.func = func
        self.nodes = []
        self.succ = {}
        self.pred = {}
        self.entry = self._new(None, 'entry')
        self.exit = self._new(None, 'exit')       # normal return / fall off the end
        self.raise_exit = self._new(None, 'raise')  # exception leaves the function
        self.stmt_node = {}                         # ast stmt -> node id
        outs = self._seq(func.body, {self.entry}, _Ctx())
        for o in outs:
            self._edge(o, self.exit)

    # -- construction -----------------------------------------------------
    def _new(self, stmt, kind, label=''):
        n = Node(len(self.nodes), stmt, kind, label)
        self.nodes.append(n)
        self.succ[n.id] = set()
        self.pred[n.id] = set()
        return n.id

    def _edge(self, a, b):
        self.succ[a].add(b)
        self.pred[b].add(a)

    def _stmt(self, stmt, preds, ctx, kind='stmt'):
        nid = self._new(stmt, kind)
        self.stmt_node[stmt] = nid
        for p in preds:
            self._edge(p, nid)
        # may-raise edge into the innermost handlers
        for h in ctx.handlers[-1] if ctx.handlers else ():
            self._edge(nid, h)
        return nid

    def _seq(self, stmts, preds, ctx):
        cur = set(preds)
        for st in stmts:
            if not cur:
                # unreachable code still gets nodes (so lookups work) but no preds
                pass
            cur = self._one(st, cur, ctx)
        return cur

    def _one(self, st, preds, ctx):
        if isinstance(st, ast.If):
            t = self._stmt(st, preds, ctx, 'test')
            a = self._seq(st.body, {t}, ctx)
            b = self._seq(st.orelse, {t}, ctx) if st.orelse else {t}
            return a | b
        if isinstance(st, (ast.For, ast.AsyncFor, ast.While)):
            h = self._stmt(st, preds, ctx, 'loop')
            inner = ctx.loop(h)
            body_out = self._seq(st.body, {h}, inner)
            for o in body_out | inner.continues:
                self._edge(o, h)
            infinite = isinstance(st, ast.While) and isinstance(st.test, ast.Constant) and st.test.value is True
            after = set() if infinite else {h}
            if st.orelse:
                after = self._seq(st.orelse, after, ctx)
            return after | inner.breaks
        if isinstance(st, ast.Try):
            tnode = self._stmt(st, preds, ctx, 'try')
            hentries = []
            catchall = False
            for h in st.handlers:
                hn = self._new(h, 'handler')
                self.stmt_node[h] = hn
                hentries.append(hn)
                if h.type is None or (isinstance(h.type, ast.Name) and h.type.id in ('Exception', 'BaseException')):
                    catchall = True
            inner = ctx.with_handlers(hentries, catchall)
            body_out = self._seq(st.body, {tnode}, inner)
            if st.orelse:
                body_out = self._seq(st.orelse, body_out, ctx)
            outs = set(body_out)
            for h, hn in zip(st.handlers, hentries):
                outs |= self._seq(h.body, {hn}, ctx)
            if st.finalbody:
                outs = self._seq(st.finalbody, outs, ctx)
            return outs
        if isinstance(st, (ast.With, ast.AsyncWith)):
            w = self._stmt(st, preds, ctx, 'with')
            return self._seq(st.body, {w}, ctx)
        if isinstance(st, ast.Return):
            r = self._stmt(st, preds, ctx, 'return')
            self._edge(r, self.exit)
            return set()
        if isinstance(st, ast.Raise):
            r = self._stmt(st, preds, ctx, 'raise_stmt')
            # explicit raise: to enclosing handlers, else out
            went = False
            for level, ca in zip(reversed(ctx.handlers), reversed(ctx.catchall)):
                for h in level:
                    self._edge(r, h)
                went = True
                if ca:
                    break
            else:
                self._edge(r, self.raise_exit)
            return set()
        if isinstance(st, ast.Break):
            b = self._stmt(st, preds, ctx, 'break')
            ctx.breaks.add(b)
            return set()
        if isinstance(st, ast.Continue):
            c = self._stmt(st, preds, ctx, 'continue')
            ctx.continues.add(c)
            return set()
        if isinstance(st, (ast.FunctionDef, ast.AsyncFunctionDef, ast.ClassDef)):
            d = self._stmt(st, preds, ctx, 'def')
            return {d}
        if isinstance(st, ast.Match):
            t = self._stmt(st, preds, ctx, 'test')
            outs = {t}
            for case in st.cases:
                outs |= self._seq(case.body, {t}, ctx)
            return outs
        n = self._stmt(st, preds, ctx)
        return {n}

    # -- queries ----------------------------------------------------------
    def node_of(self, stmt):
        return self.stmt_node[stmt]

    def reach(self, starts, avoid=(), forward=True):
        avoid = set(avoid)
        seen = set()
        todo = [s for s in starts if s not in avoid]
        nxt = self.succ if forward else self.pred
        while todo:
            n = todo.pop()
            if n in seen:
                continue
            seen.add(n)
            for m in nxt[n]:
                if m not in avoid and m not in seen:
                    todo.append(m)
        return seen

    def reachable_from_entry(self, n):
        return n in self.reach({self.entry})

    def dominates(self, a, b):
        """every path entry -> b passes through a (a == b counts)"""
        if a == b:
            return True
        return b not in self.reach({self.entry}, avoid={a})

    def set_dominates(self, A, b):
        """every path entry -> b passes through some node of A"""
        if b in A:
            return True
        return b not in self.reach({self.entry}, avoid=set(A))

    def must_pass_to_exit(self, a, B, exits=None):
        """every path from a to a normal exit passes through some node of B"""
        exits = {self.exit} if exits is None else exits
        r = self.reach(self.succ[a], avoid=set(B))
        return not (r & exits)

    def exists_path(self, a, b, avoid=()):
        return b in self.reach(self.succ[a], avoid=set(avoid))

    def stmts_after(self, a):
        """nodes reachable after a (strictly)"""
        return self.reach(self.succ[a])

    def enclosing_tests(self, stmt, func=None):
        """list of (If/While/For node, branch) syntactically enclosing stmt"""
        func = func or self.func
        path = []

        def rec(body, trail):
            for st in body:
                if st is stmt:
                    path.extend(trail)
                    return True
                for fld in ('body', 'orelse', 'finalbody'):
                    sub = getattr(st, fld, None)
                    if sub and not isinstance(st, (ast.FunctionDef, ast.ClassDef)):
                        if rec(sub, trail + [(st, fld)]):
                            return True
                for h in getattr(st, 'handlers', []) or []:
                    if h is stmt:
                        path.extend(trail + [(st, 'handler')])
                        return True
                    if rec(h.body, trail + [(st, 'handler'), (h, 'body')]):
                        return True
            return False
        rec(func.body, [])
        return path


class _Ctx:
    def __init__(self):
        self.handlers = []     # stack of lists of handler entry ids
        self.catchall = []
        self.breaks = set()
        self.continues = set()

    def loop(self, header):
        c = _Ctx()
        c.handlers = list(self.handlers)
        c.catchall = list(self.catchall)
        return c

    def with_handlers(self, hs, catchall):
        c = _Ctx()
        c.handlers = self.handlers + [hs]
        c.catchall = self.catchall + [catchall]
        c.breaks = self.breaks
        c.continues = self.continues
        return c


# ---------------------------------------------------------------------------
# reaching definitions (names only)

def defs_in_stmt(st):
    """names (re)defined by the header of statement st (not its nested bodies)"""
    out = set()

    def targets(t):
        if isinstance(t, ast.Name):
            out.add(t.id)
        elif isinstance(t, (ast.Tuple, ast.List)):
            for e in t.elts:
                targets(e)
        elif isinstance(t, ast.Starred):
            targets(t.value)

    if isinstance(st, ast.Assign):
        for t in st.targets:
            targets(t)
    elif isinstance(st, (ast.AugAssign, ast.AnnAssign)):
        targets(st.target)
    elif isinstance(st, (ast.For, ast.AsyncFor)):
        targets(st.target)
    elif isinstance(st, (ast.With, ast.AsyncWith)):
        for it in st.items:
            if it.optional_vars is not None:
                targets(it.optional_vars)
    elif isinstance(st, (ast.FunctionDef, ast.ClassDef)):
        out.add(st.name)
    elif isinstance(st, (ast.Import, ast.ImportFrom)):
        for a in st.names:
            out.add((a.asname or a.name).split('.')[0])
    elif isinstance(st, ast.ExceptHandler) and st.name:
        out.add(st.name)
    # walrus
    if isinstance(st, ast.stmt) and not isinstance(st, (ast.FunctionDef, ast.ClassDef)):
        hdr = st
        for n in _header_exprs(hdr):
            for w in ast.walk(n):
                if isinstance(w, ast.NamedExpr) and isinstance(w.target, ast.Name):
                    out.add(w.target.id)
    return out


def _header_exprs(st):
    if isinstance(st, (ast.If, ast.While)):
        return [st.test]
    if isinstance(st, (ast.For, ast.AsyncFor)):
        return [st.iter]
    if isinstance(st, (ast.With, ast.AsyncWith)):
        return [it.context_expr for it in st.items]
    if isinstance(st, ast.Try):
        return []
    if isinstance(st, ast.ExceptHandler):
        return [st.type] if st.type is not None else []
    if isinstance(st, (ast.FunctionDef, ast.ClassDef)):
        return []
    return [st]


def header_exprs(st):
    return _header_exprs(st)


class ReachingDefs:
    """classic reaching definitions over CFG nodes; a definition is (name, node id);
    parameters are defined at the entry node."""

    def __init__(self, cfg):
        self.cfg = cfg
        f = cfg.func
        params = [a.arg for a in f.args.posonlyargs + f.args.args + f.args.kwonlyargs]
        if f.args.vararg:
            params.append(f.args.vararg.arg)
        if f.args.kwarg:
            params.append(f.args.kwarg.arg)
        self.gen = {n.id: set() for n in cfg.nodes}
        for p in params:
            self.gen[cfg.entry].add((p, cfg.entry))
        for n in cfg.nodes:
            if n.stmt is not None:
                for name in defs_in_stmt(n.stmt):
                    self.gen[n.id].add((name, n.id))
        self.IN = {n.id: set() for n in cfg.nodes}
        self.OUT = {n.id: set(self.gen[n.id]) for n in cfg.nodes}
        changed = True
        while changed:
            changed = False
            for n in cfg.nodes:
                i = set()
                for p in cfg.pred[n.id]:
                    i |= self.OUT[p]
                killed = {name for name, _ in self.gen[n.id]}
                # augmented assignment keeps the old def flowing into the new one but
                # the name is redefined at this node
                o = {d for d in i if d[0] not in killed} | self.gen[n.id]
                if i != self.IN[n.id] or o != self.OUT[n.id]:
                    self.IN[n.id], self.OUT[n.id] = i, o
                    changed = True

    def defs_reaching(self, nid, name):
        """node ids whose definition of `name` reaches the *use* at node nid"""
        return {d for (nm, d) in self.IN[nid] if nm == name}
