"""Driver:  python -m engine.check <ID> [--tier quick|thorough] [--repo PATH] [--explain FILE]

Exit codes: 0 property clause held on everything analysed (known findings are printed
as KNOWN-FINDING lines), 1 violation (a line ``VIOLATION property=<id> replay=<path>``),
2 ANALYSIS-ERROR (anchor vanished, unparsable source, instance floor not met).
"""
import argparse
import importlib
import json
import os
import sys
import time
import traceback

HERE = os.path.dirname(os.path.dirname(os.path.abspath(__file__)))


def main(argv=None):
    ap = argparse.ArgumentParser()
    ap.add_argument('prop')
    ap.add_argument('--tier', default=os.environ.get('VERIF_TIER', 'quick'))
    ap.add_argument('--repo', default=None)
    ap.add_argument('--explain', default=None)
    ap.add_argument('--no-evidence', action='store_true',
                    help='do not write evidence (used by the self-test on scratch copies)')
    ap.add_argument('--json', action='store_true', help='print machine-readable result')
    args = ap.parse_args(argv)
    if args.repo:
        os.environ['VERIF_REPO'] = args.repo
    if args.tier not in ('quick', 'thorough'):
        args.tier = 'quick'
    pid = args.prop.upper()

    if args.explain:
        return explain(pid, args.explain)

    from .model import AnalysisError
    from .report import Ctx, finish
    t0 = time.time()
    try:
        ctx = Ctx(pid, args.tier)
        mod = importlib.import_module('engine.rules.%s' % pid.lower())
        mod.run(ctx)
        if args.tier == 'thorough' and not args.no_evidence:
            from . import selftest
            selftest.run_for(ctx, pid)
        return finish(ctx, t0, write=not args.no_evidence, as_json=args.json)
    except AnalysisError as e:
        print('ANALYSIS-ERROR property=%s %s' % (pid, e))
        return 2
    except Exception:
        print('ANALYSIS-ERROR property=%s internal error:' % pid)
        traceback.print_exc(file=sys.stdout)
        return 2


def explain(pid, path):
    from .model import repo_root
    try:
        data = json.load(open(path))
    except Exception as e:
        print('cannot read %s: %s' % (path, e))
        return 2
    for v in data.get('violations', []):
        print('property=%s rule=%s key=%s' % (pid, v['rule'], v['key']))
        print('  ' + v.get('detail', ''))
        loc = v.get('loc', '')
        print('  at ' + loc)
        if ':' in loc:
            f, ln = loc.rsplit(':', 1)
            p = os.path.join(repo_root(), f)
            try:
                ln = int(ln)
                lines = open(p, encoding='utf8').read().split('\n')
                for i in range(max(0, ln - 4), min(len(lines), ln + 3)):
                    print('   %s%5d  %s' % ('>' if i + 1 == ln else ' ', i + 1, lines[i]))
            except Exception:
                pass
    return 0


if __name__ == '__main__':
    sys.exit(main())
