"""File-system effect vocabulary of this repository, frozen from reading it.

OPEN(mode)   open_with(p, mode) / self.open / fs.open / builtin open / default_open
MKDIR        mkdirs / default_mkdirs / fs.mkdirs / os.makedirs
REMOVE       remove_with / fs.rm / default_remove / os.unlink / os.remove
RENAME       fs.rename / os.rename / os.replace
WRITE/SEEK/TRUNCATE on a handle:  f.write, write_thrift(f, ..), f.seek, f.truncate
"""
import ast

from .model import callee, const_value, norm, walk_no_nested, kwarg

OPEN_NAMES = {'open_with', 'default_open', 'open', 'self.open', 'fs.open', 'self.fs.open', 'io.open'}
MKDIR_NAMES = {'mkdirs', 'default_mkdirs', 'fs.mkdirs', 'self.fs.mkdirs', 'os.makedirs', 'os.mkdir', 'fs.makedirs'}
REMOVE_NAMES = {'remove_with', 'default_remove', 'self.fs.rm', 'fs.rm', 'os.unlink', 'os.remove',
                'shutil.rmtree', 'fs.rm_file', 'self.fs.rm_file', 'fs.delete'}
RENAME_NAMES = {'self.fs.rename', 'fs.rename', 'os.rename', 'os.replace', 'shutil.move', 'fs.mv',
                'self.fs.mv', 'fs.move', 'self.fs.move'}
BUILTIN_IO = {'open', 'io.open', 'os.makedirs', 'os.mkdir', 'os.unlink', 'os.remove', 'os.rename',
              'os.replace', 'shutil.rmtree', 'shutil.move', 'default_open', 'default_mkdirs', 'default_remove'}


def mode_of(call):
    """mode string of an OPEN call ('rb' default) or None when it is not a literal"""
    m = kwarg(call, 'mode', 1)
    if m is None:
        return 'rb'
    v = const_value(m, None)
    return v if isinstance(v, str) else None


def writable(mode):
    return mode is None or any(c in mode for c in 'wax+')


def _kind_of_name(c):
    if c in OPEN_NAMES:
        return 'OPEN'
    if c in MKDIR_NAMES:
        return 'MKDIR'
    if c in REMOVE_NAMES:
        return 'REMOVE'
    if c in RENAME_NAMES:
        return 'RENAME'
    return None


def local_aliases(func):
    """{local name: kind} for method values bound to a local: `rename = self.fs.rename if ... else os.rename`"""
    out = {}
    for st in walk_no_nested(func):
        if isinstance(st, ast.Assign) and len(st.targets) == 1 and isinstance(st.targets[0], ast.Name):
            v = st.value
            leaves = [v.body, v.orelse] if isinstance(v, ast.IfExp) else [v]
            if all(isinstance(x, (ast.Attribute, ast.Name)) for x in leaves):
                kinds = {_kind_of_name(norm(x)) for x in leaves}
                if len(kinds) == 1 and None not in kinds:
                    out[st.targets[0].id] = kinds.pop()
    return out


def classify(call, aliases=None):
    c = callee(call)
    if c is None:
        return None
    if aliases and c in aliases:
        return aliases[c]
    if c in OPEN_NAMES:
        return 'OPEN'
    if c in MKDIR_NAMES:
        return 'MKDIR'
    if c in REMOVE_NAMES:
        return 'REMOVE'
    if c in RENAME_NAMES:
        return 'RENAME'
    last = c.rsplit('.', 1)[-1]
    if last in ('write', 'writelines') and '.' in c:
        return 'WRITE'
    if last == 'seek' and '.' in c:
        return 'SEEK'
    if last == 'truncate' and '.' in c:
        return 'TRUNCATE'
    if c == 'write_thrift':
        return 'WRITE'
    return None


def direct_effects(func):
    """list of (kind, call) for calls directly in func (not nested defs)"""
    out = []
    al = local_aliases(func)
    for n in walk_no_nested(func):
        if isinstance(n, ast.Call):
            k = classify(n, al)
            if k:
                out.append((k, n))
    return out


class EffectIndex:
    """per-function direct effects and transitive effect kinds over the call graph"""

    def __init__(self, repo, cg):
        self.repo, self.cg = repo, cg
        self.direct = {}
        for m, q, f in repo.functions():
            self.direct[(m.name, q)] = direct_effects(f)
        self._trans = {}

    def trans(self, key, prune=None):
        seen = self.cg.reachable([key], prune=prune)
        # closures defined inside reachable functions are considered reachable
        extra = set()
        for k in list(seen):
            for nk in self.cg.nested_keys(k):
                extra |= self.cg.reachable([nk], prune=prune)
        seen |= extra
        out = {}
        for k in seen:
            for kind, call in self.direct.get(k, []):
                out.setdefault(kind, []).append((k, call))
        return out, seen
