"""Reader for the subset of the Thrift IDL used by parquet.thrift."""
import os
import re

from .model import AnalysisError


class Field:
    def __init__(self, fid, req, typ, name):
        self.id, self.req, self.type, self.name = fid, req, typ, name

    @property
    def base(self):
        m = re.match(r'list<\s*(.+?)\s*>$', self.type)
        return m.group(1) if m else self.type

    @property
    def is_list(self):
        return self.type.startswith('list<')

    def __repr__(self):
        return '%d:%s %s %s' % (self.id, self.req or '', self.type, self.name)


class IDL:
    SCALARS = {'bool', 'byte', 'i8', 'i16', 'i32', 'i64', 'double', 'string', 'binary'}

    def __init__(self, path):
        if not os.path.exists(path):
            raise AnalysisError('IDL %s missing' % path)
        text = open(path, encoding='utf8').read()
        # strip comments
        text = re.sub(r'/\*.*?\*/', lambda m: '\n' * m.group(0).count('\n'), text, flags=re.S)
        text = re.sub(r'(//|#)[^\n]*', '', text)
        self.structs = {}   # name -> {fieldname: Field}
        self.kinds = {}     # name -> 'struct'|'union'
        self.enums = {}     # name -> {NAME: int}
        for m in re.finditer(r'\b(struct|union)\s+(\w+)\s*\{(.*?)\}', text, flags=re.S):
            kind, name, body = m.groups()
            fields = {}
            for fm in re.finditer(
                    r'(\d+)\s*:\s*(required|optional)?\s*([\w.]+(?:\s*<\s*[\w.]+\s*>)?)\s+(\w+)\s*(?:=\s*[^;,\n]+)?[;,]?',
                    body):
                fid, req, typ, fname = fm.groups()
                typ = re.sub(r'\s+', '', typ)
                fields[fname] = Field(int(fid), req, typ, fname)
            self.structs[name] = fields
            self.kinds[name] = kind
        for m in re.finditer(r'\benum\s+(\w+)\s*\{(.*?)\}', text, flags=re.S):
            name, body = m.groups()
            vals = {}
            for em in re.finditer(r'(\w+)\s*=\s*(\d+)', body):
                vals[em.group(1)] = int(em.group(2))
            self.enums[name] = vals
        if len(self.structs) < 50 or len(self.enums) < 7:
            raise AnalysisError('IDL parse below floor: %d structs, %d enums' % (
                len(self.structs), len(self.enums)))

    def int_width(self, struct, field):
        """declared wire width of an integral field: 'i8','i16','i32','i64', 'enum' (=i32),
        or None when the field is not integral."""
        f = self.structs[struct].get(field)
        if f is None:
            return None
        t = f.base
        if t in ('i8', 'byte'):
            return 'i8'
        if t in ('i16', 'i32', 'i64'):
            return t
        if t in self.enums:
            return 'enum'
        return None

    def reachable(self, roots):
        seen = set()
        todo = list(roots)
        while todo:
            s = todo.pop()
            if s in seen or s not in self.structs:
                continue
            seen.add(s)
            for f in self.structs[s].values():
                if f.base in self.structs:
                    todo.append(f.base)
        return seen
