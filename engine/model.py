"""Program model of fastparquet built from source only (ast + the Cython front end).

Nothing from fastparquet is imported or executed.
"""
import ast
import hashlib
import os
import re

from . import pyxfront


class AnalysisError(Exception):
    """The analysis itself cannot proceed (anchor vanished, unparsable source,
    instance count below floor).  Turned into exit code 2, never into a verdict."""


PKG = 'fastparquet'
PY_MODULES = ['api', 'writer', 'core', 'util', 'schema', 'encoding', 'converted_types',
              'compression', 'dataframe', 'json', 'thrift_structures']
PYX_MODULES = ['cencoding', 'speedups']


def repo_root():
    return os.environ.get('VERIF_REPO', '/repo')


class Module:
    def __init__(self, name, path, tree, source, pyx=None):
        self.name = name
        self.path = path
        self.tree = tree
        self.source = source
        self.pyx = pyx
        self.funcs = {}       # qualname -> FunctionDef
        self.classes = {}     # name -> ClassDef
        self.assigns = {}     # module-level name -> list of value nodes (in order)
        self.imports = {}     # local name -> dotted target
        self._index()

    def _index(self):
        def visit(body, prefix):
            for st in body:
                if isinstance(st, (ast.FunctionDef, ast.AsyncFunctionDef)):
                    q = prefix + st.name
                    self.funcs[q] = st
                    st._qualname = q
                    st._module = self.name
                    visit(st.body, q + '.')
                elif isinstance(st, ast.ClassDef):
                    self.classes[prefix + st.name] = st
                    visit(st.body, prefix + st.name + '.')
                elif isinstance(st, (ast.If, ast.Try, ast.With, ast.For, ast.While)):
                    for fld in ('body', 'orelse', 'finalbody'):
                        visit(getattr(st, fld, []) or [], prefix)
                    for h in getattr(st, 'handlers', []) or []:
                        visit(h.body, prefix)
        visit(self.tree.body, '')
        for st in self.tree.body:
            if isinstance(st, ast.Assign):
                for t in st.targets:
                    if isinstance(t, ast.Name):
                        self.assigns.setdefault(t.id, []).append(st.value)
                    elif isinstance(t, ast.Subscript) and isinstance(t.value, ast.Name):
                        self.assigns.setdefault(t.value.id + '[]', []).append((t.slice, st.value))
            elif isinstance(st, ast.AnnAssign) and isinstance(st.target, ast.Name) and st.value:
                self.assigns.setdefault(st.target.id, []).append(st.value)
        for st in ast.walk(self.tree):
            if isinstance(st, ast.Import):
                for a in st.names:
                    self.imports[a.asname or a.name.split('.')[0]] = a.name if a.asname else a.name.split('.')[0]
            elif isinstance(st, ast.ImportFrom):
                base = st.module or ''
                if st.level:
                    base = PKG + ('.' + base if base else '')
                for a in st.names:
                    self.imports[a.asname or a.name] = base + '.' + a.name

    def func(self, qualname):
        f = self.funcs.get(qualname)
        if f is None:
            raise AnalysisError('anchor vanished: function %s.%s not found in %s' % (
                self.name, qualname, self.path))
        return f

    def loc(self, node):
        return '%s:%d' % (os.path.relpath(self.path, repo_root()), getattr(node, 'lineno', 0))


class Repo:
    def __init__(self, root=None):
        self.root = root or repo_root()
        self.pkg = os.path.join(self.root, PKG)
        if not os.path.isdir(self.pkg):
            raise AnalysisError('package directory %s not found' % self.pkg)
        self.modules = {}
        self.digests = {}
        from . import canon
        parsed = {}
        for name in PY_MODULES:
            path = os.path.join(self.pkg, name + '.py')
            if not os.path.exists(path):
                raise AnalysisError('module %s missing' % path)
            src = open(path, encoding='utf8').read()
            try:
                tree = ast.parse(src, filename=path)
            except SyntaxError as e:
                raise AnalysisError('%s does not parse: %s' % (path, e))
            parsed[name] = (path, tree, src)
        # (what spans modules first: a new property of one module read in another)
        self.canon_notes = canon.properties_back({n: t for n, (p_, t, s_) in parsed.items()})
        new_literals = {n: canon.new_module_literals(t, (canon.shapes().get(n, {}).get('__module__') or {}).get('globals'))
                        for n, (p_, t, s_) in parsed.items()}
        for name in PY_MODULES:
            path, tree, src = parsed[name]
            self.canon_notes = self.canon_notes + canon.canonicalise(name, tree, new_literals)
            self.modules[name] = Module(name, path, tree, src)
            self.digests[name] = hashlib.sha256(src.encode()).hexdigest()[:16]
        for name in PYX_MODULES:
            path = os.path.join(self.pkg, name + '.pyx')
            if not os.path.exists(path):
                raise AnalysisError('module %s missing' % path)
            try:
                pyx = pyxfront.translate(path, name)
            except pyxfront.FrontEndError as e:
                raise AnalysisError('Cython front end: %s' % e)
            self.modules[name] = Module(name, path, pyx.tree, pyx.py_source, pyx=pyx)
            self.digests[name] = hashlib.sha256(open(path, 'rb').read()).hexdigest()[:16]
        floors = {'cencoding': 55, 'speedups': 3}
        for name, fl in floors.items():
            got = len(self.modules[name].pyx.func_sigs)
            if got < fl:
                raise AnalysisError('front end recovered %d functions from %s.pyx, floor %d' % (got, name, fl))
        # other python files must at least parse (tests, benchmarks)
        self.other_parsed = 0
        for dp, dn, fn in os.walk(self.pkg):
            for f in fn:
                if f.endswith('.py'):
                    p = os.path.join(dp, f)
                    try:
                        ast.parse(open(p, encoding='utf8').read(), filename=p)
                        self.other_parsed += 1
                    except SyntaxError as e:
                        raise AnalysisError('%s does not parse: %s' % (p, e))
        self.enums = self._load_enums()

    def __getitem__(self, name):
        return self.modules[name]

    def _load_enums(self):
        path = os.path.join(self.pkg, 'parquet_thrift', 'parquet', 'ttypes.py')
        if not os.path.exists(path):
            raise AnalysisError('ttypes.py missing')
        tree = ast.parse(open(path, encoding='utf8').read())
        enums = {}
        for st in tree.body:
            if isinstance(st, ast.ClassDef):
                vals = {}
                for s in st.body:
                    if (isinstance(s, ast.Assign) and len(s.targets) == 1 and
                            isinstance(s.targets[0], ast.Name) and
                            isinstance(s.value, ast.Constant) and isinstance(s.value.value, int)):
                        vals[s.targets[0].id] = s.value.value
                if vals:
                    enums[st.name] = vals
        if len(enums) < 7:
            raise AnalysisError('ttypes.py: expected >=7 enums, found %d' % len(enums))
        return enums

    def functions(self):
        for m in self.modules.values():
            for q, f in m.funcs.items():
                yield m, q, f


# --------------------------------------------------------------------------
# small AST helpers

def dotted(node):
    """a.b.c -> 'a.b.c'; anything else -> None"""
    parts = []
    while isinstance(node, ast.Attribute):
        parts.append(node.attr)
        node = node.value
    if isinstance(node, ast.Name):
        parts.append(node.id)
        return '.'.join(reversed(parts))
    return None


def callee(call):
    return dotted(call.func) if isinstance(call, ast.Call) else None


def src(node):
    try:
        return ast.unparse(node)
    except Exception:
        return '<?>'


def norm(node):
    """normalised statement/expression text used in keys (line independent)."""
    return re.sub(r'\s+', ' ', src(node)).strip()


def resolved(f, node, depth=3):
    """normalised text of an expression of function f with every local that f binds exactly once, by a plain
    `name = <expression>` statement, replaced by that expression (so `l = len(data); g(l << 1)` and `g(len(data) << 1)`
    read alike).  Locals bound more than once, loop variables and parameters stay as they are."""
    import copy
    stores, defs = {}, {}
    for n in ast.walk(f):
        if isinstance(n, ast.Name) and isinstance(n.ctx, (ast.Store, ast.Del)):
            stores[n.id] = stores.get(n.id, 0) + 1
        elif isinstance(n, ast.Assign) and len(n.targets) == 1 and isinstance(n.targets[0], ast.Name):
            defs.setdefault(n.targets[0].id, []).append(n.value)
    params = {a.arg for n in ast.walk(f) if isinstance(n, ast.arguments) for a in n.posonlyargs + n.args + n.kwonlyargs}
    single = {k: v[0] for k, v in defs.items() if len(v) == 1 and stores.get(k) == 1 and k not in params}

    class _R(ast.NodeTransformer):
        def __init__(self, d):
            self.d = d

        def visit_Name(self, n):
            if isinstance(n.ctx, ast.Load) and n.id in single and self.d > 0:
                return _R(self.d - 1).visit(copy.deepcopy(single[n.id]))
            return n
    return norm(_R(depth).visit(copy.deepcopy(node)))


def return_values(f):
    """the expressions f may return: the value of every `return` (nested defs excluded), a conditional expression
    counted as its two arms - `return a if c else b` and `if c: return a / else: return b` give the same list"""
    out = []

    def arms(e):
        if isinstance(e, ast.IfExp):
            arms(e.body)
            arms(e.orelse)
        else:
            out.append(e)
    for st in walk_no_nested(f):
        if isinstance(st, ast.Return) and st.value is not None:
            arms(st.value)
    return out


def calls_in(node):
    for n in ast.walk(node):
        if isinstance(n, ast.Call):
            yield n


def names_loaded(node):
    return {n.id for n in ast.walk(node) if isinstance(n, ast.Name) and isinstance(n.ctx, ast.Load)}


def kwarg(call, name, pos=None):
    for k in call.keywords:
        if k.arg == name:
            return k.value
    if pos is not None and len(call.args) > pos:
        return call.args[pos]
    return None


def const_value(node, default=None):
    if isinstance(node, ast.Constant):
        return node.value
    return default


def iter_child_stmts(body):
    """All statements nested under a statement list (not into nested defs/classes)."""
    for st in body:
        yield st
        if isinstance(st, (ast.FunctionDef, ast.AsyncFunctionDef, ast.ClassDef)):
            continue
        for fld in ('body', 'orelse', 'finalbody'):
            sub = getattr(st, fld, None)
            if sub:
                yield from iter_child_stmts(sub)
        for h in getattr(st, 'handlers', []) or []:
            yield from iter_child_stmts(h.body)


def walk_no_nested(node):
    """ast.walk that does not descend into nested function/class definitions
    (the node itself may be a FunctionDef)."""
    todo = list(ast.iter_child_nodes(node))
    while todo:
        n = todo.pop()
        yield n
        if isinstance(n, (ast.FunctionDef, ast.AsyncFunctionDef, ast.ClassDef, ast.Lambda)):
            continue
        todo.extend(ast.iter_child_nodes(n))


def before(seq, a, b):
    """a and b are both direct members of seq and a comes first"""
    ia = [i for i, x in enumerate(seq) if x is a]
    ib = [i for i, x in enumerate(seq) if x is b]
    return bool(ia and ib) and ia[0] < ib[0]


def parent_map(root):
    pm = {}
    for n in ast.walk(root):
        for c in ast.iter_child_nodes(n):
            pm[c] = n
    return pm


# --------------------------------------------------------------------------
# constant folding of module-level tables

class Enum:
    __slots__ = ('cls', 'name', 'value')

    def __init__(self, cls, name, value):
        self.cls, self.name, self.value = cls, name, value

    def __repr__(self):
        return '%s.%s' % (self.cls, self.name)

    def __eq__(self, o):
        return isinstance(o, Enum) and (self.cls, self.name) == (o.cls, o.name)

    def __hash__(self):
        return hash((self.cls, self.name))


class Sym:
    """symbolic leaf (np.int32, np.dtype('int32'), pd.Int8Dtype(), function refs...)"""
    __slots__ = ('text',)

    def __init__(self, text):
        self.text = text

    def __repr__(self):
        return 'Sym(%s)' % self.text

    def __eq__(self, o):
        return isinstance(o, Sym) and self.text == o.text

    def __hash__(self):
        return hash(self.text)


class Unfoldable(Exception):
    pass


def fold(node, repo, env=None):
    """Fold a literal expression into python data with Enum/Sym leaves."""
    env = env or {}
    if isinstance(node, ast.Constant):
        return node.value
    if isinstance(node, ast.Tuple):
        return tuple(fold(e, repo, env) for e in node.elts)
    if isinstance(node, ast.List):
        return [fold(e, repo, env) for e in node.elts]
    if isinstance(node, ast.Set):
        return set(fold(e, repo, env) for e in node.elts)
    if isinstance(node, ast.Dict):
        out = {}
        for k, v in zip(node.keys, node.values):
            if k is None:
                raise Unfoldable('dict unpacking')
            out[fold(k, repo, env)] = fold(v, repo, env)
        return out
    if isinstance(node, ast.Name):
        if node.id in env:
            return env[node.id]
        if node.id in ('str', 'bytes', 'list', 'dict', 'bool', 'int', 'float', 'Decimal'):
            return Sym(node.id)
        raise Unfoldable('name %s' % node.id)
    if isinstance(node, ast.Attribute):
        d = dotted(node)
        if d:
            parts = d.split('.')
            if len(parts) >= 2 and parts[-2] in repo.enums and parts[-1] in repo.enums[parts[-2]]:
                return Enum(parts[-2], parts[-1], repo.enums[parts[-2]][parts[-1]])
            return Sym(d)
        raise Unfoldable(src(node))
    if isinstance(node, ast.Call):
        c = callee(node)
        if c in ('np.dtype', 'numpy.dtype') and node.args:
            a = fold(node.args[0], repo, env)
            return Sym('dtype:%s' % (a if isinstance(a, str) else a.text))
        if c and not node.args and not node.keywords:
            return Sym(c + '()')
        raise Unfoldable(src(node))
    if isinstance(node, ast.UnaryOp) and isinstance(node.op, ast.USub):
        return -fold(node.operand, repo, env)
    if isinstance(node, ast.BinOp):
        l, r = fold(node.left, repo, env), fold(node.right, repo, env)
        try:
            if isinstance(node.op, ast.Add):
                return l + r
            if isinstance(node.op, ast.Mult):
                return l * r
            if isinstance(node.op, ast.Pow):
                return l ** r
            if isinstance(node.op, ast.Sub):
                return l - r
            if isinstance(node.op, ast.LShift):
                return l << r
        except Exception:
            pass
        raise Unfoldable(src(node))
    if isinstance(node, ast.Lambda):
        return Sym('lambda')
    raise Unfoldable(type(node).__name__ + ': ' + src(node)[:60])


def module_table(repo, module, name):
    """Fold the module-level dict/list `name`, including later `name[k] = v` stores
    (compression tables are built that way)."""
    m = repo[module]
    vals = m.assigns.get(name)
    if not vals:
        raise AnalysisError('anchor vanished: table %s.%s' % (module, name))
    try:
        table = fold(vals[0], repo)
    except Unfoldable as e:
        raise AnalysisError('table %s.%s is not a foldable literal: %s' % (module, name, e))
    for sl, v in m.assigns.get(name + '[]', []):
        try:
            table[fold(sl, repo)] = fold(v, repo)
        except Unfoldable:
            try:
                table[fold(sl, repo)] = Sym(src(v))
            except Unfoldable:
                pass
    return table


# --------------------------------------------------------------------------
# call resolution

class CallGraph:
    """Resolved call graph over the package.  Resolution: direct names (module
    functions, imported functions), module.attr, self.method (methods of the class
    being analysed), unique method names of the repo classes."""

    REPO_CLASSES = {'ParquetFile': 'api', 'SchemaHelper': 'schema', 'NumpyIO': 'cencoding',
                    'ThriftObject': 'cencoding'}

    def __init__(self, repo):
        self.repo = repo
        self.edges = {}      # (mod, qual) -> list of (call node, target key or None, text)
        self.resolved = 0
        self.unresolved = 0
        self.methods_by_name = {}
        for m in repo.modules.values():
            for q in m.funcs:
                if '.' in q:
                    cls, meth = q.rsplit('.', 1)
                    if cls in m.classes:
                        self.methods_by_name.setdefault(meth, []).append((m.name, q))
        for m in repo.modules.values():
            for q, f in m.funcs.items():
                self.edges[(m.name, q)] = self._resolve_function(m, q, f)

    def _module_of_alias(self, m, name):
        tgt = m.imports.get(name)
        if not tgt:
            return None
        # 'fastparquet.cencoding' or 'fastparquet.encoding' etc
        if tgt.startswith(PKG + '.'):
            mod = tgt[len(PKG) + 1:].split('.')[0]
            if mod in self.repo.modules:
                return mod
        return None

    def resolve_name(self, m, q, text):
        """resolve a dotted callee text in the context of module m / function q"""
        repo = self.repo
        parts = text.split('.')
        if len(parts) == 1:
            name = parts[0]
            # nested function of the enclosing function
            encl = q
            while encl:
                cand = encl + '.' + name
                if cand in m.funcs:
                    return (m.name, cand)
                encl = encl.rsplit('.', 1)[0] if '.' in encl else ''
            if name in m.funcs:
                return (m.name, name)
            if name in m.classes and name + '.__init__' in m.funcs:
                return (m.name, name + '.__init__')
            tgt = m.imports.get(name)
            if tgt and tgt.startswith(PKG + '.'):
                rest = tgt[len(PKG) + 1:].split('.')
                if len(rest) == 2 and rest[0] in repo.modules:
                    mod = repo[rest[0]]
                    if rest[1] in mod.funcs:
                        return (rest[0], rest[1])
                    if rest[1] in mod.classes and rest[1] + '.__init__' in mod.funcs:
                        return (rest[0], rest[1] + '.__init__')
            return None
        if parts[0] == 'self' and len(parts) == 2 and '.' in q:
            cls = q.split('.')[0]
            cand = cls + '.' + parts[1]
            if cand in m.funcs:
                return (m.name, cand)
            return None
        if len(parts) == 2:
            mod = self._module_of_alias(m, parts[0])
            if mod is None and parts[0] in repo.modules and m.imports.get(parts[0], '').endswith(parts[0]):
                mod = parts[0]
            if mod:
                mm = repo[mod]
                if parts[1] in mm.funcs:
                    return (mod, parts[1])
                if parts[1] in mm.classes and parts[1] + '.__init__' in mm.funcs:
                    return (mod, parts[1] + '.__init__')
                return None
            if parts[0] in self.REPO_CLASSES:
                mod = self.REPO_CLASSES[parts[0]]
                cand = parts[0] + '.' + parts[1]
                if cand in repo[mod].funcs:
                    return (mod, cand)
        if len(parts) == 3 and parts[0] == 'api' and parts[1] == 'ParquetFile':
            return None
        # method call on an object: unique method name among repo classes
        meth = parts[-1]
        cands = self.methods_by_name.get(meth, [])
        if len(cands) == 1 and not meth.startswith('__') and meth not in (
                'get', 'copy', 'read', 'write', 'seek', 'tell', 'len', 'data', 'columns',
                'count', 'head', 'info', 'open', 'text'):
            return cands[0]
        return None

    def _resolve_function(self, m, q, f):
        out = []
        for n in walk_no_nested(f):
            if isinstance(n, ast.Call):
                text = callee(n)
                tgt = self.resolve_name(m, q, text) if text else None
                if tgt:
                    self.resolved += 1
                else:
                    self.unresolved += 1
                out.append((n, tgt, text))
        return out

    def callees(self, key):
        return [t for _, t, _ in self.edges.get(key, []) if t]

    def reachable(self, roots, prune=None, max_depth=12):
        """set of function keys reachable from roots; prune(caller, callnode, target)
        may return False to cut an edge."""
        seen = set()
        todo = [(r, 0) for r in roots]
        while todo:
            k, d = todo.pop()
            if k in seen or d > max_depth:
                continue
            seen.add(k)
            for call, tgt, _ in self.edges.get(k, []):
                if tgt and (prune is None or prune(k, call, tgt)):
                    todo.append((tgt, d + 1))
        return seen

    def nested_keys(self, key):
        """functions lexically nested in key (closures are considered called)"""
        mod, q = key
        return [(mod, x) for x in self.repo[mod].funcs if x.startswith(q + '.')]
