"""Path conditions as boolean formulas over the texts of atomic tests, compared by truth table.

`reach(f)` walks a function and gives, for every statement, the condition under which control gets there as far as
the if / elif / else structure tells: the tests of the enclosing `if`s (negated in an else arm) AND the negations of
the tests of earlier `if`s in the enclosing blocks whose body always leaves (guard clauses: return / raise / continue /
break).  Two spellings of the same control flow - nested vs. `and`-joined, `else:` vs. `continue` + dedent, `elif` vs. a
second `if` after a `return`, a test turned round with its arms swapped - give equivalent formulas; a conjunct that is
dropped where an earlier guard already established it leaves the formula equivalent, a conjunct dropped anywhere else
does not.

Atoms are the normalised texts of the tests' leaves (`a is not b` is the negation of the atom `a is b`, `a > b` is the
atom `b < a`, ...).  When a name an atom reads is stored to between the test and the statement, the atom is a
different quantity from a later atom with the same text: the earlier one is renamed (`text@1`), so the two never
cancel.  Nothing here evaluates code: the only values ever computed are the truth tables of the formulas."""
import ast
import itertools

T, F = ('const', True), ('const', False)


def _neg(x):
    if x[0] == 'const':
        return ('const', not x[1])
    if x[0] == 'not':
        return x[1]
    return ('not', x)


def _and(xs):
    out = []
    for x in xs:
        if x == T:
            continue
        if x == F:
            return F
        if x[0] == 'and':
            out.extend(x[1])
        else:
            out.append(x)
    if not out:
        return T
    return out[0] if len(out) == 1 else ('and', tuple(out))


def _or(xs):
    out = []
    for x in xs:
        if x == F:
            continue
        if x == T:
            return T
        if x[0] == 'or':
            out.extend(x[1])
        else:
            out.append(x)
    if not out:
        return F
    return out[0] if len(out) == 1 else ('or', tuple(out))


def _u(e):
    return ' '.join(ast.unparse(e).split())


_NEGOF = {ast.IsNot: ast.Is, ast.NotEq: ast.Eq, ast.NotIn: ast.In}
_SYM = (ast.Eq, ast.Is)
_MIRROR = {ast.Gt: ast.Lt, ast.GtE: ast.LtE}


def formula(e):
    """boolean formula of a test expression"""
    if isinstance(e, ast.Constant) and isinstance(e.value, bool):
        return ('const', e.value)
    if isinstance(e, ast.UnaryOp) and isinstance(e.op, ast.Not):
        return _neg(formula(e.operand))
    if isinstance(e, ast.BoolOp):
        parts = [formula(v) for v in e.values]
        return _and(parts) if isinstance(e.op, ast.And) else _or(parts)
    if isinstance(e, ast.IfExp):
        c = formula(e.test)
        return _or([_and([c, formula(e.body)]), _and([_neg(c), formula(e.orelse)])])
    if isinstance(e, ast.Call) and isinstance(e.func, ast.Name) and e.func.id == 'bool' and len(e.args) == 1 and not e.keywords:
        return formula(e.args[0])
    if isinstance(e, ast.Compare) and len(e.ops) == 1 and isinstance(e.ops[0], (ast.In, ast.NotIn)) and \
            isinstance(e.comparators[0], (ast.Tuple, ast.List, ast.Set)) and 1 <= len(e.comparators[0].elts) <= 6 and \
            all(isinstance(x, ast.Constant) for x in e.comparators[0].elts):
        # `x in (c1, c2)` is `x == c1 or x == c2`
        alts = _or([formula(ast.Compare(left=e.left, ops=[ast.Eq()], comparators=[c])) for c in e.comparators[0].elts])
        return _neg(alts) if isinstance(e.ops[0], ast.NotIn) else alts
    if isinstance(e, ast.Compare):
        parts, left = [], e.left
        for op, right in zip(e.ops, e.comparators):
            neg = False
            o = type(op)
            if o in _NEGOF:
                o, neg = _NEGOF[o], True
            a, b = left, right
            if o in _MIRROR:
                o, a, b = _MIRROR[o], b, a
            ta, tb = _u(a), _u(b)
            if o in _SYM and tb < ta:
                ta, tb = tb, ta
            sym = {ast.Is: 'is', ast.Eq: '==', ast.In: 'in', ast.Lt: '<', ast.LtE: '<='}[o]
            at = ('atom', '%s %s %s' % (ta, sym, tb), frozenset(n.id for x in (a, b) for n in ast.walk(x) if isinstance(n, ast.Name)))
            parts.append(_neg(at) if neg else at)
            left = right
        return _and(parts)
    return ('atom', _u(e), frozenset(n.id for n in ast.walk(e) if isinstance(n, ast.Name)))


def atoms(x, acc=None):
    acc = set() if acc is None else acc
    if x[0] == 'atom':
        acc.add(x[1])
    elif x[0] == 'not':
        atoms(x[1], acc)
    elif x[0] in ('and', 'or'):
        for y in x[1]:
            atoms(y, acc)
    return acc


def _eval(x, env):
    k = x[0]
    if k == 'const':
        return x[1]
    if k == 'atom':
        return env[x[1]]
    if k == 'not':
        return not _eval(x[1], env)
    if k == 'and':
        return all(_eval(y, env) for y in x[1])
    return any(_eval(y, env) for y in x[1])


def equivalent(a, b, limit=14):
    """True / False; None when there are too many atoms to decide"""
    if a == b:
        return True
    names = sorted(atoms(a) | atoms(b))
    if len(names) > limit:
        return None
    for vals in itertools.product((False, True), repeat=len(names)):
        env = dict(zip(names, vals))
        if _eval(a, env) != _eval(b, env):
            return False
    return True


def implies(a, b, limit=14):
    names = sorted(atoms(a) | atoms(b))
    if len(names) > limit:
        return None
    for vals in itertools.product((False, True), repeat=len(names)):
        env = dict(zip(names, vals))
        if _eval(a, env) and not _eval(b, env):
            return False
    return True


def dumps(x):
    """a stable, readable text form (also the storage form: `loads` reads it back)"""
    k = x[0]
    if k == 'const':
        return 'TRUE' if x[1] else 'FALSE'
    if k == 'atom':
        return '<%s>' % x[1]
    if k == 'not':
        return '!' + dumps(x[1])
    return '(' + (' & ' if k == 'and' else ' | ').join(dumps(y) for y in x[1]) + ')'


def to_json(x):
    k = x[0]
    if k == 'const':
        return x[1]
    if k == 'atom':
        return x[1]
    if k == 'not':
        return {'not': to_json(x[1])}
    return {k: [to_json(y) for y in x[1]]}


def from_json(j):
    if isinstance(j, bool):
        return ('const', j)
    if isinstance(j, str):
        return ('atom', j, frozenset())
    if 'not' in j:
        return ('not', from_json(j['not']))
    k = 'and' if 'and' in j else 'or'
    return (k, tuple(from_json(y) for y in j[k]))


def _strip(x):
    """drop the name sets (comparison is by atom text)"""
    k = x[0]
    if k == 'atom':
        return ('atom', x[1], frozenset())
    if k == 'not':
        return ('not', _strip(x[1]))
    if k in ('and', 'or'):
        return (k, tuple(_strip(y) for y in x[1]))
    return x


def _age(x, names):
    """atoms that read a name of `names` become an older quantity"""
    k = x[0]
    if k == 'atom':
        if x[2] & names:
            return ('atom', x[1] + '@1', x[2])
        return x
    if k == 'not':
        return ('not', _age(x[1], names))
    if k in ('and', 'or'):
        return (k, tuple(_age(y, names) for y in x[1]))
    return x


def _stored(st):
    """names a statement (with everything nested in it) may store to"""
    out = set()
    for n in ast.walk(st):
        if isinstance(n, ast.Name) and isinstance(n.ctx, (ast.Store, ast.Del)):
            out.add(n.id)
        elif isinstance(n, ast.ExceptHandler) and n.name:
            out.add(n.name)
        elif isinstance(n, (ast.FunctionDef, ast.AsyncFunctionDef, ast.ClassDef)):
            out.add(n.name)
        elif isinstance(n, (ast.Import, ast.ImportFrom)):
            out.update((a.asname or a.name).split('.')[0] for a in n.names)
    return out


_LEAVE = (ast.Return, ast.Raise, ast.Continue, ast.Break)


def always_leaves(stmts):
    """the block cannot fall through to what follows it"""
    if not stmts:
        return False
    last = stmts[-1]
    if isinstance(last, _LEAVE):
        return True
    if isinstance(last, ast.If) and last.orelse:
        return always_leaves(last.body) and always_leaves(last.orelse)
    if isinstance(last, ast.With):
        return always_leaves(last.body)
    return False


def reach(f):
    """{id(stmt): formula} for every statement of f (nested defs excluded), and {id(If/While): formula of its test}"""
    out = {}

    def block(stmts, facts):
        facts = list(facts)
        for st in stmts:
            out[id(st)] = _and(facts)
            if isinstance(st, (ast.FunctionDef, ast.AsyncFunctionDef, ast.ClassDef)):
                facts = [_age(x, {st.name}) for x in facts]
                continue
            if isinstance(st, ast.If):
                c = formula(st.test)
                tn = {n.id for n in ast.walk(st.test) if isinstance(n, ast.Name) and isinstance(n.ctx, ast.Store)}
                block(st.body, [_age(x, tn) for x in facts] + [c])
                block(st.orelse, [_age(x, tn) for x in facts] + [_neg(c)])
                lb, lo = always_leaves(st.body), bool(st.orelse) and always_leaves(st.orelse)
                s_all = _stored(st)
                facts = [_age(x, s_all) for x in facts]
                # what is known after the statement: the arm that fell through was taken, provided that arm (and the
                # test) did not store to what the test reads
                if lb and not lo:
                    if not (_names_of(c) & s_all):
                        facts.append(_neg(c))
                elif lo and not lb:
                    if not (_names_of(c) & s_all):
                        facts.append(c)
                elif lb and lo:
                    facts.append(F)
                continue
            if isinstance(st, (ast.For, ast.AsyncFor, ast.While)):
                s_all = _stored(st)
                inner = [_age(x, s_all) for x in facts]
                if isinstance(st, ast.While):
                    c = formula(st.test)
                    block(st.body, inner + ([c] if not (_names_of(c) & s_all) else []))
                else:
                    block(st.body, inner)
                block(st.orelse, inner)
                facts = inner
                continue
            if isinstance(st, (ast.With, ast.AsyncWith)):
                hdr = set()
                for it in st.items:
                    if it.optional_vars is not None:
                        hdr |= {n.id for n in ast.walk(it.optional_vars) if isinstance(n, ast.Name)}
                block(st.body, [_age(x, hdr) for x in facts])
                facts = [_age(x, _stored(st)) for x in facts]
                if always_leaves(st.body):
                    facts.append(F)
                continue
            if isinstance(st, ast.Try) or st.__class__.__name__ == 'TryStar':
                s_all = _stored(st)
                block(st.body, facts)
                aged = [_age(x, s_all) for x in facts]
                for h in st.handlers:
                    block(h.body, aged)
                block(st.orelse, aged)
                block(st.finalbody, aged)
                facts = aged
                continue
            if isinstance(st, ast.Match):
                s_all = _stored(st)
                for case in st.cases:
                    block(case.body, [_age(x, s_all) for x in facts])
                facts = [_age(x, s_all) for x in facts]
                continue
            s = _stored(st)
            if s:
                facts = [_age(x, s) for x in facts]
            if isinstance(st, _LEAVE):
                facts.append(F)
    block(f.body, [])
    return out


def _names_of(x, acc=None):
    acc = set() if acc is None else acc
    if x[0] == 'atom':
        acc |= x[2]
    elif x[0] == 'not':
        _names_of(x[1], acc)
    elif x[0] in ('and', 'or'):
        for y in x[1]:
            _names_of(y, acc)
    return acc


def effective(f):
    """[(If/While/IfExp node, formula under which its body runs)]: reach condition AND its own test"""
    r = reach(f)
    out = []
    for st in ast.walk(f):
        if isinstance(st, (ast.If, ast.While)) and id(st) in r:
            out.append((st, _and([r[id(st)], formula(st.test)])))
    return out


def truth_of(f, name):
    """formula under which the local `name` ends up true, as far as its plain assignments tell: the OR over
    `name = <value>` of (the statement is reached AND the value is true); `if c: name = True else: name = False`,
    `name = bool(c)` and `name = c` give the same formula.  None when `name` is stored in any other way."""
    r = reach(f)
    parts = []
    for st in ast.walk(f):
        if isinstance(st, ast.Assign) and any(isinstance(t, ast.Name) and t.id == name for t in st.targets):
            if id(st) not in r:
                return None
            v = st.value
            if isinstance(v, ast.Constant) and v.value is None:
                val = F
            elif isinstance(v, ast.Constant) and isinstance(v.value, (bool, int)):
                val = ('const', bool(v.value))
            else:
                val = formula(v)
            parts.append(_and([r[id(st)], val]))
        elif isinstance(st, ast.Name) and st.id == name and isinstance(st.ctx, (ast.Store, ast.Del)):
            par_ok = any(isinstance(a, ast.Assign) and any(t is st for t in a.targets) for a in ast.walk(f))
            if not par_ok:
                return None
    return _or(parts) if parts else None


def requires(x, text_pred):
    """every way of making x true makes an atom accepted by text_pred true (x implies the OR of those atoms)"""
    sel = [a for a in atoms(x) if text_pred(a)]
    if not sel:
        return x == F
    return implies(x, _or([('atom', a, frozenset()) for a in sel])) is True


def substitute(x, text, repl):
    """formula x with every atom of that text replaced by the formula repl"""
    k = x[0]
    if k == 'atom':
        return repl if x[1] == text else x
    if k == 'not':
        return _neg(substitute(x[1], text, repl))
    if k == 'and':
        return _and([substitute(y, text, repl) for y in x[1]])
    if k == 'or':
        return _or([substitute(y, text, repl) for y in x[1]])
    return x


def none_sentinels(f, x, r=None):
    """formula x with every atom `<name> is None`, for a local that f only ever binds by plain assignments, replaced by
    the condition under which the name was given None: the OR over `name = None` of their reach conditions.  Other
    assignments (`name = <something else>`) are taken to give a value that is not None - the reading under which
    `v = helper(); if v is None: return False` means "the helper refused"."""
    r = reach(f) if r is None else r
    for a in sorted(atoms(x)):
        if not (a.startswith('None is ') and a[8:].isidentifier()):
            continue
        name = a[8:]
        parts, plain = [], True
        for st in ast.walk(f):
            if isinstance(st, ast.Name) and st.id == name and isinstance(st.ctx, (ast.Store, ast.Del)):
                if not any(isinstance(p, ast.Assign) and len(p.targets) == 1 and p.targets[0] is st for p in ast.walk(f)):
                    plain = False
            if isinstance(st, ast.Assign) and len(st.targets) == 1 and isinstance(st.targets[0], ast.Name) and st.targets[0].id == name:
                if isinstance(st.value, ast.Constant) and st.value.value is None and id(st) in r:
                    parts.append(r[id(st)])
        if plain and parts:
            x = substitute(x, a, _or(parts))
    return x
