"""Cython front end: rewrite the Cython subset used by fastparquet's .pyx files into
Python that ``ast.parse`` accepts, preserving line numbers, and record the C-level
declarations (parameter types, local types, class attribute types, directives) in a
side table.

Fail-closed: a construct that cannot be classified raises FrontEndError.

Rewrites
  cpdef/cdef/def [ret] name(T a, T b=..)   -> def name(a, b=..):       (+ param/return types)
  cdef: block                               -> if 1:                    (+ local types)
  cdef T a = e, b                           -> a = e    /  pass         (+ local types)
  cdef class X:                             -> class X:
  <T>e , <T*>e                              -> _cast('T', e)
  &x[0]   (address-of, only directly after a cast or as call argument)
                                            -> _addr(x[0])
  cdef extern ... / cimport ...             -> blank
"""
import ast
import re


class FrontEndError(Exception):
    pass


C_TYPES = {
    'void', 'char', 'int', 'double', 'float', 'bint', 'object', 'bytes', 'str', 'list',
    'dict', 'int8_t', 'uint8_t', 'int16_t', 'uint16_t', 'int32_t', 'uint32_t',
    'int64_t', 'uint64_t', 'size_t', 'Py_ssize_t', 'NumpyIO', 'ThriftObject',
    'unsigned char', 'unsigned int', 'long',
}

_CAST_RE = re.compile(
    r'<\s*((?:const\s+)?(?:unsigned\s+)?[A-Za-z_][A-Za-z_0-9]*)\s*(\*+)?\s*>(?=\s*[A-Za-z_(&])')


def _scan_strings(line):
    """Return list of (start, end) spans of string literals / comments in a line."""
    spans = []
    i, n = 0, len(line)
    while i < n:
        c = line[i]
        if c == '#':
            spans.append((i, n))
            break
        if c in '"\'':
            q = c
            if line[i:i + 3] == q * 3:
                j = line.find(q * 3, i + 3)
                j = n if j < 0 else j + 3
            else:
                j = i + 1
                while j < n and line[j] != q:
                    if line[j] == '\\':
                        j += 1
                    j += 1
                j = min(n, j + 1)
            spans.append((i, j))
            i = j
            continue
        i += 1
    return spans


def _in_spans(pos, spans):
    return any(a <= pos < b for a, b in spans)


def _strip_comment(line):
    for a, b in _scan_strings(line):
        if line[a] == '#':
            return line[:a].rstrip(), line[a:]
    return line.rstrip(), ''


def _match_bracket(s, i):
    """s[i] is an opening bracket; return index after the matching close."""
    pairs = {'(': ')', '[': ']', '{': '}'}
    stack = [pairs[s[i]]]
    j = i + 1
    spans = _scan_strings(s)
    while j < len(s) and stack:
        if _in_spans(j, spans):
            j += 1
            continue
        c = s[j]
        if c in pairs:
            stack.append(pairs[c])
        elif c in ')]}':
            if c != stack[-1]:
                raise FrontEndError('unbalanced bracket in %r' % s)
            stack.pop()
        j += 1
    if stack:
        raise FrontEndError('unterminated bracket in %r' % s)
    return j


def _operand_end(s, i):
    """Extent of a unary operand starting at s[i]: NAME or (...) followed by any
    number of .name / [...] / (...) postfixes."""
    n = len(s)
    while i < n and s[i] == ' ':
        i += 1
    if i < n and s[i] == '(':
        j = _match_bracket(s, i)
    else:
        m = re.compile(r'[A-Za-z_][A-Za-z_0-9]*').match(s, i)
        if not m:
            raise FrontEndError('cannot find cast operand in %r at %d' % (s, i))
        j = m.end()
    while j < n:
        if s[j] == '.' and j + 1 < n and (s[j + 1].isalpha() or s[j + 1] == '_'):
            m = re.compile(r'\.[A-Za-z_][A-Za-z_0-9]*').match(s, j)
            j = m.end()
        elif s[j] in '[(':
            j = _match_bracket(s, j)
        else:
            break
    return j


def _rewrite_casts(line):
    """Rewrite every <T>e into _cast('T', e) and &e (after a cast or '(' / ',') into
    _addr(e).  Works right-to-left so nested casts are handled."""
    code, comment = _strip_comment(line)
    guard = 0
    while True:
        guard += 1
        if guard > 50:
            raise FrontEndError('cast rewriting does not terminate: %r' % line)
        spans = _scan_strings(code)
        ms = [m for m in _CAST_RE.finditer(code) if not _in_spans(m.start(), spans)]
        if not ms:
            break
        m = ms[-1]
        base = re.sub(r'\s+', ' ', m.group(1)).strip()
        core = base.replace('const ', '')
        if core not in C_TYPES:
            raise FrontEndError('unknown cast type %r in %r' % (base, line))
        typ = base + (m.group(2) or '')
        k = m.end()
        while k < len(code) and code[k] == ' ':
            k += 1
        if code[k] == '&':
            e = _operand_end(code, k + 1)
            operand = '_addr(%s)' % code[k + 1:e].strip()
        else:
            e = _operand_end(code, k)
            operand = code[k:e].strip()
        code = code[:m.start()] + "_cast(%r, %s)" % (typ, operand) + code[e:]
    # remaining address-of operators: '&name' directly after '(' or ',' or '='
    def addr(mm):
        return mm.group(1) + '_addr(' + mm.group(2) + ')'
    spans = _scan_strings(code)
    out = []
    pos = 0
    for mm in re.finditer(r'([(,=]\s*)&([A-Za-z_][A-Za-z_0-9]*(?:\[[^\]]*\])?)', code):
        if _in_spans(mm.start(), spans):
            continue
        out.append(code[pos:mm.start()])
        out.append(addr(mm))
        pos = mm.end()
    out.append(code[pos:])
    code = ''.join(out)
    return code + (('  ' + comment) if comment else '')


def _split_top(s, sep=','):
    """Split at top-level separators (outside brackets and strings)."""
    parts, depth, cur = [], 0, []
    spans = _scan_strings(s)
    for i, c in enumerate(s):
        if _in_spans(i, spans):
            cur.append(c)
            continue
        if c in '([{':
            depth += 1
        elif c in ')]}':
            depth -= 1
        if c == sep and depth == 0:
            parts.append(''.join(cur))
            cur = []
        else:
            cur.append(c)
    parts.append(''.join(cur))
    return parts


def _split_assign(s):
    """Split 'decl = expr' at the first top-level single '='."""
    depth = 0
    spans = _scan_strings(s)
    for i, c in enumerate(s):
        if _in_spans(i, spans):
            continue
        if c in '([{':
            depth += 1
        elif c in ')]}':
            depth -= 1
        elif c == '=' and depth == 0:
            if s[i + 1:i + 2] == '=' or s[i - 1:i] in ('=', '!', '<', '>'):
                continue
            return s[:i].strip(), s[i + 1:].strip()
    return s.strip(), None


_IDENT = re.compile(r'[A-Za-z_][A-Za-z_0-9]*$')


def _type_and_name(decl):
    """'const uint8_t[::1] data' -> ('const uint8_t[::1]', 'data');  'val' -> (None,'val')."""
    decl = decl.strip()
    if decl.startswith('**') or decl.startswith('*') and _IDENT.match(decl.lstrip('*')):
        # *args / **kwargs in a def signature
        return None, decl
    m = re.search(r'([A-Za-z_][A-Za-z_0-9]*)\s*$', decl)
    if not m:
        raise FrontEndError('cannot parse declarator %r' % decl)
    name = m.group(1)
    typ = decl[:m.start()].strip()
    if not typ:
        return None, name
    # pointer star may be attached to the name side: 'char * inptr', 'unsigned char *start'
    typ = re.sub(r'\s*\*', '*', typ)
    typ = re.sub(r'\s+', ' ', typ)
    return typ, name


class PyxModule:
    def __init__(self, path, name):
        self.path = path
        self.name = name
        self.directives = {}
        self.func_sigs = {}     # qualname -> {'kind','ret','params':[(name,type)]}
        self.local_types = {}   # qualname -> {var: type}
        self.attr_types = {}    # class -> {attr: type}
        self.global_types = {}  # module-level cdef vars
        self.externs = set()
        self.py_source = None
        self.tree = None


def translate(path, name):
    src = open(path, encoding='utf8').read()
    lines = src.split('\n')
    mod = PyxModule(path, name)
    out = [''] * len(lines)

    # ---- pass 0: directives
    for ln in lines:
        m = re.match(r'#\s*cython:\s*([A-Za-z_]+)\s*=\s*(\S+)', ln)
        if m:
            mod.directives[m.group(1)] = m.group(2)

    # scope tracking: stack of (indent, kind, qualname)
    scope = []
    decl_ctx = []   # stack of (indent_of_block_header, 'cdefblock')

    def current_owner(indent):
        while scope and scope[-1][0] >= indent:
            scope.pop()
        return scope[-1] if scope else None

    i = 0
    n = len(lines)
    in_docstring = None
    while i < n:
        raw = lines[i]
        stripped = raw.strip()
        indent = len(raw) - len(raw.lstrip(' '))
        # --- docstrings / triple-quoted blocks are copied verbatim
        if in_docstring:
            out[i] = raw
            if in_docstring in raw:
                in_docstring = None
            i += 1
            continue
        if stripped.startswith(('"""', "'''")):
            q = stripped[:3]
            out[i] = raw
            if stripped.count(q) < 2:
                in_docstring = q
            i += 1
            continue
        if not stripped or stripped.startswith('#'):
            out[i] = raw
            i += 1
            continue

        # --- leave cdef: blocks when dedented
        while decl_ctx and indent <= decl_ctx[-1]:
            decl_ctx.pop()

        code, comment = _strip_comment(raw)
        cs = code.strip()

        # --- extern blocks / cimports -> blank
        if cs.startswith('cdef extern'):
            j = i + 1
            while j < n and (not lines[j].strip() or
                             len(lines[j]) - len(lines[j].lstrip(' ')) > indent):
                m = re.search(r'\b([A-Za-z_][A-Za-z_0-9]*)\s*\(', lines[j])
                if m:
                    mod.externs.add(m.group(1))
                j += 1
            i = j
            continue
        if re.match(r'(from\s+\S+\s+)?cimport\b', cs):
            j = i
            text = cs
            if '(' in cs and ')' not in cs:
                while ')' not in lines[j]:
                    j += 1
                    text += ' ' + lines[j].strip()
            for nm in re.findall(r'[A-Za-z_][A-Za-z_0-9]*', text.split('cimport', 1)[1]):
                mod.externs.add(nm)
            i = j + 1
            continue

        # --- cdef: block header
        if cs == 'cdef:':
            out[i] = ' ' * indent + 'if 1:'
            decl_ctx.append(indent)
            i += 1
            continue

        # --- class
        m = re.match(r'cdef\s+class\s+([A-Za-z_][A-Za-z_0-9]*)\s*(\(.*\))?\s*:', cs)
        if m:
            current_owner(indent)
            out[i] = ' ' * indent + 'class %s%s:' % (m.group(1), m.group(2) or '')
            scope.append((indent, 'class', m.group(1)))
            mod.attr_types.setdefault(m.group(1), {})
            i += 1
            continue
        m = re.match(r'class\s+([A-Za-z_][A-Za-z_0-9]*)', cs)
        if m:
            current_owner(indent)
            out[i] = raw
            scope.append((indent, 'class', m.group(1)))
            i += 1
            continue

        # --- function definitions (def / cpdef / cdef ... '(' ... '):')
        is_func = False
        mkind = re.match(r'(cpdef|cdef|def)\b', cs)
        if mkind and '(' in cs and not cs.startswith('cdef class'):
            # gather logical line until the closing '):'
            j = i
            text = code
            depth = text.count('(') - text.count(')')
            while depth > 0:
                j += 1
                c2, _ = _strip_comment(lines[j])
                text += ' ' + c2.strip()
                depth = text.count('(') - text.count(')')
            t = text.strip()
            if t.endswith(':') and (mkind.group(1) != 'cdef' or
                                    re.match(r'cdef\s+[^=]*\(', t)) and '=' not in t.split('(')[0]:
                is_func = True
        if is_func:
            kind = mkind.group(1)
            head, rest = t.split('(', 1)
            close = _match_bracket('(' + rest, 0) - 1
            params_s = rest[:close - 1] if close - 1 >= 0 else ''
            params_s = ('(' + rest)[1:_match_bracket('(' + rest, 0) - 1]
            head = head[len(kind):].strip()
            mname = re.search(r'([A-Za-z_][A-Za-z_0-9]*)\s*$', head)
            fname = mname.group(1)
            ret = head[:mname.start()].strip() or None
            if ret:
                ret = re.sub(r'\s*\*', '*', ret)
            params, py_params = [], []
            for p in _split_top(params_s):
                p = p.strip()
                if not p:
                    continue
                decl, default = _split_assign(p)
                typ, pname = _type_and_name(decl)
                params.append((pname.lstrip('*'), typ))
                py_params.append(pname + ('=' + default if default is not None else ''))
            owner = current_owner(indent)
            qual = (owner[2] + '.' if owner else '') + fname
            mod.func_sigs[qual] = {'kind': kind, 'ret': ret, 'params': params, 'line': i + 1}
            mod.local_types.setdefault(qual, {})
            for pn, pt in params:
                if pt:
                    mod.local_types[qual][pn] = pt
            out[i] = ' ' * indent + 'def %s(%s):' % (fname, ', '.join(py_params))
            for k in range(i + 1, j + 1):
                out[k] = ''
            scope.append((indent, 'func', qual))
            i = j + 1
            continue

        # --- declarations
        in_block = bool(decl_ctx) and indent > decl_ctx[-1]
        if cs.startswith('cdef ') or in_block:
            body = cs[5:].strip() if cs.startswith('cdef ') else cs
            # a declaration whose initialiser spans several lines (specs/children)
            j = i
            full = body
            opens = sum(full.count(c) for c in '([{') - sum(full.count(c) for c in ')]}')
            first_line_only = opens > 0
            pieces = _split_top(body) if not first_line_only else [body]
            owner = current_owner(indent)
            stmts = []
            base_type = None
            for idx, piece in enumerate(pieces):
                decl, init = _split_assign(piece)
                if idx == 0:
                    typ, vname = _type_and_name(decl)
                    base_type = (typ or 'object')
                    vtype = base_type
                else:
                    d = decl.strip()
                    stars = len(d) - len(d.lstrip('* '))
                    vname = d.lstrip('* ').strip()
                    if not _IDENT.match(vname):
                        raise FrontEndError('%s:%d cannot parse declaration %r' % (path, i + 1, raw))
                    vtype = base_type.rstrip('*') + ('*' if '*' in d[:stars] else
                                                    ('*' if False else ''))
                    if '*' not in d[:stars]:
                        vtype = base_type.rstrip('*') if '*' in d[:stars] else base_type
                        # 'char *a, b' style never occurs with mixed pointer-ness here
                if owner is None:
                    mod.global_types[vname] = vtype
                elif owner[1] == 'class':
                    mod.attr_types[owner[2]][vname] = vtype
                else:
                    mod.local_types.setdefault(owner[2], {})[vname] = vtype
                if init is not None:
                    stmts.append('%s = %s' % (vname, init))
            if owner is not None and owner[1] == 'class' and stmts:
                raise FrontEndError('%s:%d initialised class attribute' % (path, i + 1))
            text = '; '.join(stmts) if stmts else 'pass'
            out[i] = _rewrite_casts(' ' * indent + text)
            i += 1
            continue

        # --- ordinary statement
        out[i] = _rewrite_casts(raw)
        i += 1

    py = '\n'.join(out)
    try:
        tree = ast.parse(py, filename=path)
    except SyntaxError as e:
        raise FrontEndError('%s: translated source does not parse: %s (line %s: %r)' % (
            path, e.msg, e.lineno, out[(e.lineno or 1) - 1]))
    mod.py_source = py
    mod.tree = tree
    return mod


if __name__ == '__main__':
    import sys
    m = translate(sys.argv[1], 'x')
    print(len(m.func_sigs), 'functions')
    for k, v in m.func_sigs.items():
        print(k, v['kind'], v['ret'], v['params'])
    print(m.directives)
    if len(sys.argv) > 2:
        print(m.py_source)
