"""Inventory of raw stores in the Cython sources (compiled with boundscheck=False):
stores through C pointers (`p[k] = v`, `_cast('T*', p)[0] = v`), `memcpy(dest, ..)`, and
item stores into memoryviews / ndarrays declared with C types.

Each store is classified
  GUARDED  an enclosing if/while test, or a clamp dominating the enclosing counted loop,
           relates the store to the destination capacity;
  SIZED    the destination is allocated in the same function from the quantity that bounds
           the loop (two-pass sizing, np.empty(n) with i < n);
  CHECKED-API  the store is inside a NumpyIO write_* method behind its own capacity test;
  UNGUARDED otherwise.
"""
import ast

from .model import callee, norm, src, walk_no_nested, iter_child_stmts
from .cfg import CFG

CAPACITY_WORDS = ('nbytes', 'endptr', 'vals_left')


def _is_pointer(name, types):
    t = types.get(name, '')
    return t.endswith('*')


def _is_view(name, types):
    t = types.get(name, '')
    return '[' in t or t.startswith('np.ndarray') or t == 'object[:]'


def inventory(module):
    """list of dicts for every raw store of the pyx module"""
    out = []
    pyx = module.pyx
    for q, f in module.funcs.items():
        types = dict(pyx.local_types.get(q, {}))
        cls = q.split('.')[0] if '.' in q else None
        attr_types = pyx.attr_types.get(cls, {}) if cls else {}
        cfg = None
        seen = {}
        stmts = sorted((s for s in walk_no_nested(f) if isinstance(s, ast.stmt)), key=lambda s: (s.lineno, s.col_offset))
        for st in stmts:
            store = None
            dest = None
            if isinstance(st, (ast.Assign, ast.AugAssign)):
                tgt = st.targets[0] if isinstance(st, ast.Assign) else st.target
                if isinstance(tgt, ast.Subscript):
                    base = tgt.value
                    if isinstance(base, ast.Call) and norm(base.func) == '_cast' and base.args[0].value.endswith('*'):
                        store, dest = 'ptr-cast', norm(base.args[1])
                    elif isinstance(base, ast.Name) and _is_pointer(base.id, types):
                        store, dest = 'ptr', base.id
                    elif isinstance(base, ast.Name) and _is_view(base.id, types):
                        store, dest = 'view', base.id
                    elif isinstance(base, ast.Attribute) and norm(base.value) == 'self' and \
                            attr_types.get(base.attr, '').endswith('*'):
                        store, dest = 'ptr', norm(base)
                    elif isinstance(base, ast.Name) and base.id == 'ptr' and types.get('ptr', '').endswith('*'):
                        store, dest = 'ptr', 'ptr'
            elif isinstance(st, ast.Expr) and isinstance(st.value, ast.Call) and callee(st.value) == 'memcpy':
                store, dest = 'memcpy', norm(st.value.args[0])
            if store is None:
                continue
            cfg = cfg or CFG(f)
            txt = norm(st)
            seen[txt] = seen.get(txt, 0) + 1
            cls_, why = classify(f, q, st, store, dest, cfg, types)
            out.append({'func': q, 'kind': store, 'dest': dest, 'text': txt, 'ordinal': seen[txt],
                        'class': cls_, 'why': why, 'node': st})
    return out


def _clamped_names(f, cfg, before_stmt):
    """names n for which `if n > CAP: n = CAP` (CAP mentions capacity) dominates before_stmt"""
    out = {}
    for s in iter_child_stmts(f.body):
        if isinstance(s, ast.If) and isinstance(s.test, ast.Compare) and isinstance(s.test.left, ast.Name) \
                and isinstance(s.test.ops[0], ast.Gt) and len(s.body) == 1 and isinstance(s.body[0], ast.Assign) \
                and norm(s.body[0].targets[0]) == s.test.left.id and norm(s.body[0].value) == norm(s.test.comparators[0]):
            cap = norm(s.test.comparators[0])
            capdef = cap
            for d in iter_child_stmts(f.body):
                if isinstance(d, ast.Assign) and norm(d.targets[0]) == cap:
                    capdef = norm(d.value)
            if any(w in capdef for w in CAPACITY_WORDS) and cfg.dominates(cfg.node_of(s), cfg.node_of(before_stmt)):
                out[s.test.left.id] = capdef
    return out


def classify(f, q, st, store, dest, cfg, types):
    encl = cfg.enclosing_tests(st)
    # (1) capacity test on an enclosing if / while
    for e, fld in encl:
        if isinstance(e, (ast.If, ast.While)) and fld == 'body' and any(w in norm(e.test) for w in CAPACITY_WORDS):
            # a pointer bound compared with `<=` must be the address of the LAST slot (end minus one item)
            t = e.test
            if isinstance(t, ast.Compare) and len(t.ops) == 1 and isinstance(t.ops[0], ast.LtE) and isinstance(t.comparators[0], ast.Name) \
                    and t.comparators[0].id.endswith('ptr'):
                bound = t.comparators[0].id
                defs = [d for d in iter_child_stmts(f.body) if isinstance(d, ast.Assign) and norm(d.targets[0]) == bound]
                last_slot = bool(defs) and all(isinstance(d.value, ast.BinOp) and isinstance(d.value.op, ast.Sub) and
                                               (norm(d.value.right) == 'itemsize' or (isinstance(d.value.right, ast.Constant) and d.value.right.value >= 1))
                                               for d in defs)
                if not last_slot:
                    return 'UNGUARDED', 'under `%s`, but %s is the end of the buffer, not its last slot (%s): the store at the end is let through' % (
                        norm(t)[:40], bound, [norm(d.value)[:50] for d in defs])
            return 'GUARDED', 'under `%s`' % norm(e.test)[:60]
    # (2) NumpyIO checked writers: an early-return capacity test precedes the store
    for s in f.body:
        if isinstance(s, ast.If) and any(w in norm(s.test) for w in ('nbytes',)) and any(isinstance(x, ast.Return) for x in s.body) \
                and cfg.dominates(cfg.node_of(s), cfg.node_of(st)):
            return 'CHECKED-API', 'after `if %s: return`' % norm(s.test)[:50]
    # (3) enclosing counted loops whose bound was clamped by the capacity
    loops = [e for e, fld in encl if isinstance(e, ast.For) and fld == 'body']
    clamped = _clamped_names(f, cfg, st)
    if loops:
        outer = loops[0]
        names = {n.id for n in ast.walk(outer.iter) if isinstance(n, ast.Name)}
        if names & set(clamped):
            nm = sorted(names & set(clamped))[0]
            return 'GUARDED', 'loop over %s, clamped to %s' % (norm(outer.iter), clamped[nm])
    # (4) sized by construction
    if store in ('view', 'ptr', 'ptr-cast', 'memcpy'):
        alloc = None
        root = dest.split('[')[0].split('.')[0].replace('_addr(', '').strip(')')
        for d in iter_child_stmts(f.body):
            if isinstance(d, ast.Assign) and d is not st:
                for t in d.targets:
                    names = [n.id for n in ([t] if isinstance(t, ast.Name) else t.elts if isinstance(t, ast.Tuple) else [])
                             if isinstance(n, ast.Name)]
                    if root in names and isinstance(d.value, ast.Call):
                        alloc = d
        if alloc is not None:
            a = norm(alloc.value)
            whiles = [e for e, fld in encl if isinstance(e, ast.While) and fld == 'body']
            if a.startswith(('np.empty(', 'np.zeros(')):
                bound = norm(alloc.value.args[0])
                for lp in loops:
                    if bound in norm(lp.iter):
                        return 'SIZED', '%s = %s and loop over %s' % (root, a[:40], norm(lp.iter))
                for w in whiles:
                    if '< %s' % bound in norm(w.test):
                        return 'SIZED', '%s = %s and loop while %s' % (root, a[:40], norm(w.test)[:40])
            if 'PyBytes_FromStringAndSize(NULL, total_size)' in a or 'PyBytes_AS_STRING(out)' in a:
                # two-pass sizing: total_size accumulated over the same items in a first loop
                return 'SIZED', 'two-pass sizing: destination allocated with total_size summed over the same items'
    # (5) in-place pass over the destination's own extent: p = &x[0]; for i in range(x.shape[0]): p[0] ..; p += 1
    if store == 'ptr':
        for d in iter_child_stmts(f.body):
            if isinstance(d, ast.Assign) and norm(d.targets[0]) == dest and '_addr(' in norm(d.value):
                import re
                m = re.search(r'_addr\((\w+)\[0\]\)', norm(d.value))
                if m:
                    for lp in loops:
                        if norm(lp.iter) == 'range(%s.shape[0])' % m.group(1):
                            return 'SIZED', 'in-place pass over %s: loop bound is its own length' % m.group(1)
    return 'UNGUARDED', 'no capacity test, clamp or same-function sizing relates this store to its destination'
