"""Registry of claimed properties: what each check decides (the structural clause), what it
does not decide, and the technique.  tools/gen_manifest.py turns this into MANIFEST.json."""

CLAIMED = {}

NOT_APPLICABLE = {
    'C15': 'LIST/MAP record assembly is a data-dependent loop with state carried across pages '
           '(prev_i, started, have_null, vali) and schema-instance matching; no table, ordering, '
           'ownership or finite-order clause is a necessary condition without freezing the loop '
           'text, and static analysis cannot bound the runtime level arrays (DESIGN.md 5/C15, 7).',
}


def claim(pid, technique, decides, not_decided, note, design_ref):
    CLAIMED[pid] = dict(technique=technique, decides=decides, not_decided=not_decided,
                        note=note, design_ref=design_ref)


claim('C10',
      'table agreement against the IDL, wire-type set comparison, guarded-store inventory (ast over the Cython front end)',
      'cencoding.specs/children equal parquet.thrift for every struct under FileMetaData/PageHeader; the '
      'serialiser loop covers every field id; reader and writer agree on wire types incl. list elements and '
      'declared i8/i16 fields; the fixed output buffer is bounded or every store is capacity-checked and '
      'overflow detected; schema equality has an arm per container kind; every Python construction site '
      'uses IDL field names and marks exactly the 32-bit integer fields. Known findings K10a-c are reported, '
      'any other failing instance is a violation.',
      'byte equality of serialise->parse for arbitrary generated structures and sizes',
      'Trusts the Cython-subset front end, the IDL reader and the compact-protocol type-nibble table; '
      '.pyx defects cannot be repaired here (Cython absent) and are known findings.',
      'DESIGN.md 5/C10')

claim('C02',
      'value-numbered path walk for size-field provenance, CFG typestate for footer framing, construction sites vs IDL',
      'in write_column every page header size/count field equals the lengths of exactly the buffer versions '
      'written after it (840 intra-iteration paths), the diff accumulator and chunk totals/offsets are f.tell() '
      'values at the right typestate; every footer writer emits thrift, 4-byte LE length of that thrift, magic, '
      'and starts a fresh file with the magic; every metadata construction site uses IDL field names, marks '
      'exactly the 32-bit fields and stores no bool into an integer field; encodings/codec bookkeeping matches '
      'the page loop; num_rows follows every replaced row-group list; file_path is stored on every chunk.',
      'bit-level content of levels/values and decoding by an independent reader (none is installed)',
      'Trusts the value-numbering walker (syntactic equality of linear length forms), the CFG and the IDL reader.',
      'DESIGN.md 5/C02')
