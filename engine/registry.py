"""Registry of claimed properties: what each check decides (the structural clause), what it
does not decide, and the technique.  tools/gen_manifest.py turns this into MANIFEST.json."""

CLAIMED = {}

NOT_APPLICABLE = {}


def claim(pid, technique, decides, not_decided, note, design_ref):
    CLAIMED[pid] = dict(technique=technique, decides=decides, not_decided=not_decided,
                        note=note, design_ref=design_ref)


claim('C10',
      'table agreement against the IDL, wire-type set comparison, guarded-store inventory (ast over the Cython front end)',
      'cencoding.specs/children equal parquet.thrift for every struct under FileMetaData/PageHeader; the '
      'serialiser loop covers every field id; reader and writer agree on wire types incl. list elements and '
      'declared i8/i16 fields; the fixed output buffer is bounded or every store is capacity-checked and '
      'overflow detected; schema equality has an arm per container kind; every Python construction site '
      'uses IDL field names and marks exactly the 32-bit integer fields. Known findings K10a-c are reported, '
      'any other failing instance is a violation.',
      'byte equality of serialise->parse for arbitrary generated structures and sizes',
      'Trusts the Cython-subset front end, the IDL reader and the compact-protocol type-nibble table; '
      '.pyx defects cannot be repaired here (Cython absent) and are known findings.',
      'DESIGN.md 5/C10')

claim('C02',
      'value-numbered path walk for size-field provenance, CFG typestate for footer framing, construction sites vs IDL',
      'in write_column every page header size/count field equals the lengths of exactly the buffer versions '
      'written after it (840 intra-iteration paths), the diff accumulator and chunk totals/offsets are f.tell() '
      'values at the right typestate; every footer writer emits thrift, 4-byte LE length of that thrift, magic, '
      'and starts a fresh file with the magic; every metadata construction site uses IDL field names, marks '
      'exactly the 32-bit fields and stores no bool into an integer field; encodings/codec bookkeeping matches '
      'the page loop; num_rows follows every replaced row-group list; file_path is stored on every chunk.',
      'bit-level content of levels/values and decoding by an independent reader (none is installed)',
      'Trusts the value-numbering walker (syntactic equality of linear length forms), the CFG and the IDL reader.',
      'DESIGN.md 5/C02')

claim('C05',
      'finite order-type decision table (AST of the interval tests interpreted over rank models) + structural whitelist/combinator rules',
      'for every operator of the grammar, every order type of the constant(s) against (vmin, vmax) and every '
      'None-ness of the bounds, filter_val/filter_in/filter_not_in exclude only when no value of the interval '
      'can satisfy the condition (exhaustive); filter_out_stats/filter_out_cats exclude only for the three '
      'whitelisted reasons, only for conditions naming the column/partition at hand, with isomorphic min/max '
      'blocks; filter_row_groups keeps a row group iff any group has no exclusion, after wrapping a flat list '
      'once; partition text is parsed int before float. Known finding K05 (not in) is reported per order model.',
      'exactness of the stored bounds (C04), NaN/null comparison semantics, typing of partition text values',
      'Trusts engine/absint.py and the dense-grid oracle; operands are shown (R5.1) to flow only into comparisons, '
      'which is what licenses the order-type abstraction.',
      'DESIGN.md 5/C05')

claim('C13',
      'accumulator kind discipline, operator-chain exhaustiveness, sibling call-site agreement, value-numbered cursor advance',
      'the row evaluator ANDs conditions into a group initialised all-true and ORs finished groups into a '
      'result initialised all-false, wraps a flat list once, has an arm with the right polarity and operand '
      'order for every operator; count(), to_pandas() and the per-row-group read build the first-pass frame and '
      'the mask from identical arguments; masks are sliced by cumulative row-group sizes over one pruned list '
      'and a caller mask is length-checked; the mask cursor of the page loop advances by the rows of each page '
      'and a skipped page moves no output. Known finding K13 (partition conditions skipped) is reported.',
      'mask index arithmetic on runtime arrays inside read_data_page_v2 and the null-scatter branches',
      'Trusts the symbolic walker and the grammar list; K13 is not repairable by a minimal patch.',
      'DESIGN.md 5/C13')

claim('C07',
      'who-may-seek effect ownership, restoring-handler typestate, def-use of part numbering, call-graph reachability of remove/rename, CFG ordering of compatibility checks',
      'only write_to_file and update_file_custom_metadata move an output handle; the single-file append positions '
      'itself at the old footer (length read from the tail) before any data write, everything it then writes is '
      'enclosed by a BaseException handler that restores the saved footer (seek, write, truncate, re-raise) and the '
      'handle metadata is committed only after all row groups were written; multi-file append opens only fresh '
      'part.(max+1+i) names with mode wb; rename/remove/seek are unreachable on the append route; the symmetric '
      'column comparison and the scheme/partition checks precede every write.',
      'value equality of rows read back; categorical relabelling on read when batches carry different categories',
      'Trusts engine/effects.py (effect vocabulary) and the resolved call graph.',
      'DESIGN.md 5/C07')

claim('C09',
      'CFG ordering of file-system effects vs the summary rewrite, def-use agreement of removed files and metadata, rename-plan shape',
      'every dataset mutator rewrites _metadata after its last file-system mutation on all normal exits and the '
      'public entry points ask for it; the files removed are the files of the row groups dropped from the metadata '
      'and num_rows follows; a renamed file\'s path is stored on every chunk of the right row group; renumbering is '
      'a two-pass rename through temporary names; no part file or directory is created for an empty group; new '
      'parts get fresh numbers. Known finding K09 (rename plan keyed by bare part number) is reported.',
      'content equality with a model over arbitrary histories',
      'Trusts engine/effects.py; K09 cannot be validated by the pinned suite (renaming tests fail in this environment).',
      'DESIGN.md 5/C09')

claim('C16',
      'CFG typestate of the in-place footer rewrite, field-store whitelist, reaching definitions for position agreement',
      'update_file_custom_metadata ends with an unconditional truncate() after the closing magic on every normal '
      'path, writes the new footer from the very offset it parsed the old one from, stores only into the key-value '
      'field and keeps the parallel key index in step; None is the only removal sentinel; key/value types are '
      'validated before any byte is written; the caller\'s dict always reaches the footer verbatim; the read side '
      'decodes key and value through the same helper and flag.',
      'merge semantics for arbitrary update sequences; losslessness of re-serialising a foreign footer (C10, K10a/b)',
      'The append writer is exempt from the truncate rule by a recorded reason (it only adds row groups).',
      'DESIGN.md 5/C16')

claim('C18',
      'raise-site inventory, destructive-region analysis with restoring-handler typestate, CFG dominance of validations',
      'every refusal kind listed by the property has a raise site; in the single-file append every statement that '
      'overwrites the old footer is enclosed by a handler for BaseException that restores the saved bytes and '
      're-raises; the multi-file append and the partition overwrite write all new parts (fresh names) before any '
      'remove/rename/summary write; shape-of-request refusals (columns, names, scheme, partitioning, dtype, unknown '
      'column) dominate the first write or read of their route.',
      'readability after failures raised inside pandas/numpy for particular values; write(append=False) replaces by contract',
      'Trusts the frozen list of refusal kinds (engine/rules/c18.py REFUSALS) and engine/effects.py.',
      'DESIGN.md 5/C18')

claim('C19',
      'CFG dominance for parts-first/summary-last, def-use of part numbering, handler scan, ownership of I/O callables',
      'on the multi-file append route all part-file effects precede the first effect on _metadata (write_multi is '
      'called with write_fmd=False/append=True and dominates the summary rewrite, _metadata before '
      '_common_metadata, nothing after it); every part file is opened wb under part.(i+max+1).parquet; no handler '
      'swallows an error of a write-side step; all I/O goes through the caller-supplied open_with/mkdirs; '
      'rename/remove/seek/truncate are unreachable.',
      'what a real file system does at a crash; atomicity of the summary rewrite itself',
      'Assumes the file-system callables mean what their names say.',
      'DESIGN.md 5/C19')

claim('C20',
      'origin-tracked store inventory over the call graph of the read API with a frozen classification, CFG single-publication of memos, freshness of derived handles',
      'the complete set of stores to objects not created in the same call, in the 109 functions reachable from '
      'the read-only API, is known and each is a per-call output, handle construction, an idempotent memo '
      'published once per path, or the schema-tree build; output arrays and file handles are per call and nothing '
      'per-call is cached on the handle; slicing gives the new handle its own metadata object and fresh copies of '
      'every schema element before handle construction mutates them; make_part_file stores only into its own '
      'copy of the file metadata (top-level fields) and the writers never store into the shared schema.',
      'freedom from races inside pandas/numpy/fsspec; atomicity of individual memo stores; copy.copy(handle) shares metadata by design',
      'Trusts engine/sharedstate.py and the classification table in engine/rules/c20.py (each entry has a one-line reason).',
      'DESIGN.md 5/C20')

claim('C06',
      'attribute need/avail sets per derivation route, value-numbered offset advance, who-reads rule for the footer row count, reaching definitions for in-place mutation of arguments',
      'a handle obtained by slicing, pickling or copying provides (state dict, _set_attrs on every path, or class '
      'default) every attribute that methods reachable from the read API load unconditionally; the output offset '
      'of to_pandas advances by exactly the rows that sized the view slices on every reading path and not on the '
      'skipping path; __len__/count/info/head/allocation size derive from rg.num_rows of the selected list and the '
      'footer-level num_rows is never read on the read side; list arguments are copied before being extended; the '
      'read API never closes a handle returned by self.open.',
      'equality of the frames themselves (column subsets, index reconstruction, categorical state across row groups)',
      'Trusts the resolved call graph for the set of read-side methods and the symbolic walker.',
      'DESIGN.md 5/C06')

claim('C14',
      'CFG/branch analysis of the verification path, sibling agreement of the two footer-gathering arms and of constructor call sites, reaching definitions for order provenance',
      'a verification request always selects the legacy arm, which compares every file\'s schema with the first and '
      'raises; both arms re-path every chunk (legacy on private copies) and recount rows over the final list; the '
      'extension order derives from the caller\'s list, never from the dict returned by fs.cat; every constructor arm '
      'that gathers many files forwards verify/open_with/root/fs identically, consolidates categories, stores fmd and '
      'builds the handle; category consolidation is a running maximum against the stored value.',
      'differing category dictionaries between files; base-path inference from path shapes',
      'Trusts the CFG and reaching definitions.',
      'DESIGN.md 5/C14')

claim('C17',
      'who-may-call and def-use single-source-of-truth for dtype prediction, enumerated allocator deviations, sibling row-count rules',
      'dataframe.empty is called only by _pre_allocate, called only by pre_allocate, whose dtype argument is the '
      'explicit override or the value returned by self._dtypes(categories) for the same categories argument that '
      'check_categories receives; self.dtypes is stored only by _dtypes and returned as stored; columns derives '
      'from it minus the partitions; every deviation of the allocator from the predicted dtype is enumerated (known '
      'finding K17); counts and default columns come from the same sources the metadata answers use; caller lists '
      'are not mutated.',
      'that pandas realises the predicted dtype; the schema x pandas-metadata x statistics logic inside _dtypes',
      'K17 is a maintainer decision (report vs allocation), recorded not repaired.',
      'DESIGN.md 5/C17')

claim('C01',
      'constant-folded table composition writer->reader, exhaustiveness of converted-type / encoding / object-encoding arms, value-numbered null tally',
      'for every dtype of the property the reader\'s dtype table composed with the writer\'s is the identity (nullable '
      'types through their numpy twin) and both sides use the same PLAIN width, wide enough for the dtype; every '
      'converted/logical type, encoding and object encoding the writer can emit has a decoding arm in both page '
      'readers / convert(); every datetime unit pair has a correct time factor; the in-place v2 read paths (which '
      'discard convert()\'s result) exclude non-in-place conversions; the chunk null count the reader\'s skip-levels '
      'shortcut relies on is the exact tally over all pages.',
      'equality of cell values, null placement, index reconstruction, pandas block layout, fixed-offset time zones for all frames x options',
      'Trusts the constant folder and the enum table parsed from ttypes.py.',
      'DESIGN.md 5/C01')

claim('C03',
      'dispatch exhaustiveness against the enum tables, control dependence of own-layout shortcuts on selfmade, CFG positional discipline of the v2 reader, reachability over bit-loop skeletons',
      'every decoding dispatch covers its enum or ends in a raise; the shortcuts that assume fastparquet\'s own layout '
      'are control dependent on selfmade, which derives only from created_by; optional header flags are defaulted '
      'only when absent; v2 value decoding starts after both level blocks on every path; the delta decoder is told '
      'the column width at every call site; decoder output stores are clamped; bit accumulators hold every width '
      '(known findings K11a/K11b reported per width).',
      'that supported inputs decode to the right values (dictionary fallback, page splits, null scatter, logical conversion)',
      'R3.2 (deprecated BIT_PACKED level encoding is never dispatched on) is a note: no witness file could be produced here.',
      'DESIGN.md 5/C03')

claim('C04',
      'value-numbered tally over all page-loop paths, sibling-branch agreement, None-ness test discipline, alpha-equivalence of decode blocks',
      'on every path through the page loop the chunk null tally grows by exactly that page\'s null count, counted on '
      'the unstripped page slice, reported identically in the v2 header and passed to both Statistics constructions; '
      'both statistics branches drop min/max when there is no non-null value or no order and strip the length prefix '
      'only for converted byte arrays; the four decode blocks of api.statistics are isomorphic and test presence with '
      '`is not None`; the stats setting is resolved per column for the documented forms; derived statistics are '
      'computed on a private structure.',
      'that min/max are the true extrema under the column type\'s order (e.g. categorical order) - value-level',
      'Trusts the symbolic walker.',
      'DESIGN.md 5/C04')

claim('C08',
      'def-use agreement of opened vs recorded paths, literal agreement of the path grammar across writer and four parsers, de-duplication key shape',
      'each part file is opened at root/path/part and recorded as path/part over the same definitions after its '
      'directory was created, never for an empty group; partition columns are removed from the stored columns and '
      'recorded with their dtype; the separators of the writer are those every reader-side parser splits on and '
      'every val_to_num of a path value receives its key\'s partition metadata; timestamp keys keep full precision; '
      'path values are de-duplicated per (key, value); partition text is parsed int before float.',
      'value-kind fidelity of arbitrary values through str()/val_to_num',
      'Literal matching of the grammar is deliberate: the grammar is the contract between sibling parsers.',
      'DESIGN.md 5/C08')

claim('C11',
      'reachability fixpoint over the extracted control skeleton of the bit loops (finite counter states per width), guarded-store inventory of the decoders, literal agreement of run-header polarity',
      'every decoder store into its output is clamped by the remaining capacity; for every width 1..32 (1..64 delta) no '
      'reachable state of read_bitpacked / delta_read_bitpacked / encode_bitpacked loses payload bits, shifts by >= '
      'the operand width or overflows a narrow counter (exhaustive; K11a-c reported per failing width); encoders and '
      'the hybrid decoder agree on header polarity and count scaling; delta callers pass longval exactly for 64-bit '
      'output; an RLE level run is header+value for both page versions; the hybrid decoder is bypassed only for own files.',
      'that each codec equals the specification function on its whole domain (value-level)',
      'Assumes the .pyx sources are what is compiled (Cython absent).',
      'DESIGN.md 5/C11')

claim('C12',
      'guarded-store inventory over the Cython front end, reachability over bit-loop control skeletons, who-must-call rule for check_32',
      'every raw store of cencoding.pyx/speedups.pyx (bounds checks off) is GUARDED, SIZED by construction, behind a '
      'checked NumpyIO writer or listed with its well-formedness assumption - the unguarded ones are known findings '
      'K12a-c; on every reachable state of the bit loops shift counts are below the operand width and narrow counters '
      'stay in range (K11a-c); every computed i32 page-header field of the writer goes through check_32.',
      'absence of undefined behaviour in the compiled artefact; raw loads on malformed input',
      'The property\'s own observation point (a sanitised execution) is another technique family; this decides the source-level discipline only.',
      'DESIGN.md 5/C12')

claim('C15',
      'def-use threading of the assembly cursor across pages, argument-position agreement with the assembly loop\'s signature, specification shape of the LIST/MAP predicates, branch-condition table of the assembly loop read from the Cython source',
      'the structural part of record assembly: the v1 page loop hands the loop the row cursor it returned for the previous '
      'page (a row may continue across a page boundary) and binds that cursor once; v2 pages assemble into the cursor '
      'window and advance it by the page\'s row count; nullability and maximum definition level come from the right '
      'schema levels, in the positions the loop declares; _is_list_like / _is_map_like test exactly the LIST / MAP shape of '
      'the specification; the loop takes its five decisions (new row, value, null element, null row, continuation of the '
      'previous page\'s row) on the conditions the algorithm prescribes - the last one does not (known finding K15a); map '
      'rows are dict(zip(keys, values)) or None; on v2 pages the definition levels of a repeated column are read whatever '
      'the null count, and every value arm open to repeated columns assembles records or refuses them (the PLAIN arm '
      'does neither: known finding K15b).',
      'the lists and dicts produced for arbitrary level arrays - the loop is data dependent and only its branch conditions '
      'are compared with the algorithm; dictionary dereference; deeper nesting',
      'Claimed for this clause only. The design round declared C15 not applicable; reading the loop for branch conditions '
      'turned out to be a genuine static handle (it found K15a, reproduced with a specification-built file).',
      'DESIGN.md 5/C15')
