"""Obligation bookkeeping, known-findings matching, evidence writing."""
import json
import os
import time

from .model import Repo, CallGraph, AnalysisError, repo_root
from .idl import IDL

HERE = os.path.dirname(os.path.dirname(os.path.abspath(__file__)))


class Ctx:
    def __init__(self, pid, tier):
        self.pid = pid
        self.tier = tier
        self.repo = Repo()
        self._cg = None
        self._idl = None
        self.obligations = []     # dicts: rule,key,ok,detail,loc
        self.notes = []
        self.stats = {}
        self.explanation = ''
        self.not_decided = ''
        self.trusted_base = ['CPython ast/tokenize', 'engine/pyxfront.py (Cython subset front end)',
                             'engine/model.py resolver and constant folder', 'engine/cfg.py']
        self.assumptions = []
        self.exhaustive = None
        self.selftest = None
        self.technique = ''

    @property
    def cg(self):
        if self._cg is None:
            self._cg = CallGraph(self.repo)
        return self._cg

    @property
    def idl(self):
        if self._idl is None:
            self._idl = IDL(os.path.join(self.repo.pkg, 'parquet.thrift'))
        return self._idl

    def ob(self, rule, key, ok, detail='', loc='', nontrivial=True):
        """record one obligation.  key is line-independent: rule:function:construct"""
        self.obligations.append({'rule': rule, 'key': '%s:%s' % (rule, key), 'ok': bool(ok),
                                 'detail': detail, 'loc': loc, 'nontrivial': nontrivial})
        return bool(ok)

    def note(self, text):
        self.notes.append(text)

    def floor(self, rule, what, got, need):
        self.stats['%s %s' % (rule, what)] = got
        if got < need:
            raise AnalysisError('%s: %s = %d is below the floor %d confirmed by hand; '
                                'the rule would pass vacuously' % (rule, what, got, need))

    def stat(self, k, v):
        self.stats[k] = v


def load_known():
    p = os.path.join(HERE, 'known_findings.json')
    if not os.path.exists(p):
        return {'findings': [], 'fixed': []}
    return json.load(open(p))


def finish(ctx, t0, write=True, as_json=False):
    known = load_known()
    known_keys = {}
    for f in known.get('findings', []):
        if ctx.pid in ([f.get('property')] + f.get('also', [])) or f.get('property') == ctx.pid:
            for k in f['keys']:
                known_keys[k] = f
    failed = [o for o in ctx.obligations if not o['ok']]
    viol, kf = [], {}
    for o in failed:
        f = known_keys.get(o['key'])
        if f is not None:
            kf.setdefault(f['id'], (f, []))[1].append(o)
        else:
            viol.append(o)
    for fid, (f, obs) in sorted(kf.items()):
        print('KNOWN-FINDING: property=%s %s %s [%d construct(s): %s]' % (
            ctx.pid, fid, f['what'], len(obs), '; '.join(sorted({o['key'] for o in obs}))[:300]))
    nob = len(ctx.obligations)
    ndis = nob - len(failed)
    distinct = len({o['key'] for o in ctx.obligations if o['nontrivial']})
    wall = time.time() - t0
    ev_dir = os.path.join(HERE, 'evidence')
    replay = os.path.join(ev_dir, '%s.violations.json' % ctx.pid)
    samples = []
    seen_rules = set()
    for o in ctx.obligations:
        if o['rule'] not in seen_rules or (not o['ok'] and len(samples) < 40):
            seen_rules.add(o['rule'])
            samples.append({'rule': o['rule'], 'obligation': o['key'], 'held': o['ok'],
                            'detail': o['detail'][:400], 'at': o['loc']})
    all_rules = sorted({o['rule'] for o in ctx.obligations})
    extra = [r for r in all_rules if r not in ctx.explanation]
    explanation = ctx.explanation
    if extra:
        explanation += (' Further rules exercised in this run - shared with neighbouring properties, general regression '
                        'rules (T, CS1-CS15) and rules added after the seeding rounds and the reports about the unchanged '
                        'tree; each is described in DESIGN.md sections 5-7 and appears under `samples` with one instance: '
                        + ', '.join(extra) + '.')
    evidence = {
        'property_id': ctx.pid,
        'tier': ctx.tier,
        'seed': int(os.environ.get('VERIF_SEED', '0') or 0),
        'level': 'other',
        'coverage': {
            'explanation': explanation,
            'not_decided': ctx.not_decided,
            'technique': ctx.technique,
            'obligations': nob,
            'discharged': ndis,
            'evaluations': max(nob, 1),
            'distinct_nontrivial': distinct,
            'rule': 'one obligation per rule instance found in /repo source (rule:function:construct); '
                    'non-trivial = the instance exists in the analysed source and the rule had '
                    'something to check; distinct by key',
            'samples': samples[:60],
            'rules': sorted({o['rule'] for o in ctx.obligations}),
            'instance_counts': ctx.stats,
            'known_findings_reported': sorted(kf),
            'notes': ctx.notes,
            'locals_mapped_back_to_reference_names': getattr(ctx.repo, 'canon_notes', []),
            'analysed': {
                'repo_root': repo_root(),
                'modules': sorted(ctx.repo.modules),
                'source_digests': ctx.repo.digests,
                'functions': sum(len(m.funcs) for m in ctx.repo.modules.values()),
                'other_python_files_parsed': ctx.repo.other_parsed,
            },
            'checker_cmd': '/venv/bin/python -m engine.check %s --tier %s' % (ctx.pid, ctx.tier),
            'trusted_base': ctx.trusted_base,
        },
        'assumptions': ctx.assumptions,
        'wall_s': round(wall, 3),
        'violations': len(viol),
    }
    if ctx.exhaustive is not None:
        evidence['coverage']['exhaustive'] = ctx.exhaustive
    if ctx.selftest is not None:
        evidence['coverage']['selftest'] = ctx.selftest
    if write:
        os.makedirs(ev_dir, exist_ok=True)
        with open(os.path.join(ev_dir, '%s.json' % ctx.pid), 'w') as f:
            json.dump(evidence, f, indent=1, default=str)
        if viol:
            with open(replay, 'w') as f:
                json.dump({'property': ctx.pid, 'violations': viol}, f, indent=1, default=str)
        elif os.path.exists(replay):
            os.remove(replay)
    if as_json:
        print('RESULT-JSON ' + json.dumps({'violations': [o['key'] for o in viol],
                                           'known': sorted(kf), 'obligations': nob}))
    print('%s tier=%s obligations=%d discharged=%d known_findings=%d violations=%d wall=%.2fs' % (
        ctx.pid, ctx.tier, nob, ndis, len(kf), len(viol), wall))
    if viol:
        shown = set()
        for o in viol:
            if o['key'] in shown or len(shown) >= 25:
                continue
            shown.add(o['key'])
            print('  violated %s at %s: %s' % (o['key'], o['loc'], o['detail'][:300]))
        print('VIOLATION property=%s replay=%s' % (ctx.pid, replay))
        return 1
    if ctx.selftest is not None and ctx.selftest.get('missed'):
        print('ANALYSIS-ERROR property=%s self-test: rule did not fire on mutant(s) %s' % (
            ctx.pid, ctx.selftest['missed']))
        return 2
    if ctx.selftest is not None and ctx.selftest.get('false_alarm_on_twins'):
        print('ANALYSIS-ERROR property=%s self-test: rule fired on behaviour-preserving twin(s) %s' % (
            ctx.pid, ctx.selftest['false_alarm_on_twins']))
        return 2
    return 0
