"""Rules about the multi-file append route, shared by C07, C09, C18 and C19.

Route: writer.write(append=True, non-simple) -> ParquetFile.write_row_groups ->
writer.write_multi(append=True, write_fmd=False) -> [partition_on_columns] -> make_part_file
... -> ParquetFile._write_common_metadata -> writer.write_common_metadata x2.
"""
import ast

from ..model import (AnalysisError, callee, norm, src, walk_no_nested, iter_child_stmts, kwarg,
                     const_value, dotted, return_values)
from ..cfg import CFG
from .. import effects as fx

ROUTE_FUNCS = [('writer', 'write'), ('api', 'ParquetFile.write_row_groups'), ('writer', 'write_multi'),
               ('writer', 'partition_on_columns'), ('writer', 'make_part_file'), ('writer', 'make_row_group'),
               ('writer', 'write_column'), ('writer', 'write_thrift'), ('api', 'ParquetFile._write_common_metadata'),
               ('writer', 'write_common_metadata'), ('writer', 'consolidate_categories'),
               ('writer', 'find_max_part'), ('api', 'part_ids'), ('writer', 'iter_dataframe')]


def _calls(func, name):
    return [c for c in walk_no_nested(func) if isinstance(c, ast.Call) and callee(c) == name]


def _stmt_of(func, node):
    """the statement of func (any depth) containing node"""
    for st in iter_child_stmts(func.body):
        if isinstance(st, (ast.If, ast.For, ast.While, ast.Try, ast.With, ast.FunctionDef)):
            hdr = []
            if isinstance(st, (ast.If, ast.While)):
                hdr = [st.test]
            elif isinstance(st, ast.For):
                hdr = [st.iter]
            elif isinstance(st, ast.With):
                hdr = [i.context_expr for i in st.items]
            if any(node is x for h in hdr for x in ast.walk(h)):
                return st
            continue
        if any(node is x for x in ast.walk(st)):
            return st
    return None


def parts_first_rule(ctx, rule):
    api, wr = ctx.repo['api'], ctx.repo['writer']
    f = api.func('ParquetFile.write_row_groups')
    cfg = CFG(f)
    wm = _calls(f, 'write_multi')
    ok = len(wm) == 1
    ctx.ob(rule, 'api.write_row_groups:one-write_multi-call', ok, '', api.loc(f))
    if ok:
        c = wm[0]
        lit = {k.arg: const_value(k.value, '<expr>') for k in c.keywords}
        ctx.ob(rule, 'api.write_row_groups:write_multi(write_fmd=False)', lit.get('write_fmd') is False,
               'the part-writing step must not write the summary itself: write_fmd=%r' % (lit.get('write_fmd'),), api.loc(c))
        ctx.ob(rule, 'api.write_row_groups:write_multi(append=True)', lit.get('append') is True,
               'append=%r (fresh part numbers are only chosen on the append arm)' % (lit.get('append'),), api.loc(c))
        wcm = _calls(f, 'self._write_common_metadata')
        n_wm = cfg.node_of(_stmt_of(f, c))
        ok2 = len(wcm) >= 1 and all(cfg.dominates(n_wm, cfg.node_of(_stmt_of(f, w))) for w in wcm)
        ctx.ob(rule, 'api.write_row_groups:parts-written-before-summary', ok2,
               'every _write_common_metadata is dominated by the write_multi call', api.loc(f))
        # nothing that touches part files after the summary
        for w in wcm:
            after = cfg.stmts_after(cfg.node_of(_stmt_of(f, w)))
            late = []
            for n in after:
                st = cfg.nodes[n].stmt
                if st is None or isinstance(st, (ast.If, ast.For, ast.While, ast.Try, ast.With)):
                    continue
                for cc in ast.walk(st):
                    if isinstance(cc, ast.Call) and callee(cc) in ('write_multi', 'write_simple', 'self._sort_part_names') \
                            or (isinstance(cc, ast.Call) and fx.classify(cc) in ('OPEN', 'REMOVE', 'RENAME', 'MKDIR')):
                        late.append(norm(cc)[:50])
            ctx.ob(rule, 'api.write_row_groups:summary-is-the-last-file-system-step', not late,
                   'after the summary rewrite: %s' % (late or 'only self._set_attrs()'), api.loc(w))
        sp = _calls(f, 'self._sort_part_names')
        ctx.ob(rule, 'api.write_row_groups:_sort_part_names-does-not-write-summary-itself',
               all(const_value(s.args[0], None) is False for s in sp if s.args), '', api.loc(f))
    # write_multi: summary after the loop, under write_fmd
    g = wr.func('write_multi')
    cfg = CFG(g)
    loops = [s for s in g.body if isinstance(s, ast.For) and 'enumerate(data)' in norm(s.iter)]
    if len(loops) != 1:
        raise AnalysisError('%s: row-group loop of write_multi not found' % rule)
    loop = loops[0]
    wcm = _calls(g, 'write_common_metadata')
    ctx.floor(rule, 'summary writes in write_multi', len(wcm), 2)
    for w in wcm:
        st = _stmt_of(g, w)
        tests = [norm(e.test) for e, fld in cfg.enclosing_tests(st) if isinstance(e, ast.If) and fld == 'body']
        in_loop = any(e is loop for e, fld in cfg.enclosing_tests(st))
        ctx.ob(rule, 'writer.write_multi:summary-write-guarded-by-write_fmd-and-after-the-loop:%s' % norm(w.args[0])[:40],
               'write_fmd' in tests and not in_loop and cfg.dominates(cfg.node_of(loop), cfg.node_of(st)),
               'tests=%s in_loop=%s' % (tests, in_loop), wr.loc(w))
    order = [norm(w.args[0]) for w in sorted(wcm, key=lambda c: (c.lineno, c.col_offset))]
    ctx.ob(rule, 'writer.write_multi:_metadata-before-_common_metadata',
           len(order) == 2 and "'_metadata'" in order[0] and "'_common_metadata'" in order[1], str(order), wr.loc(g))
    h = api.func('ParquetFile._write_common_metadata')
    wc = sorted(_calls(h, 'write_common_metadata'), key=lambda c: (c.lineno, c.col_offset))
    ok = len(wc) == 2 and norm(wc[0].args[0]) == 'self.fn' and norm(wc[1].args[0]) == 'fn' and \
        norm(kwarg(wc[0], 'no_row_groups')) == 'False'
    ctx.ob(rule, 'api._write_common_metadata:_metadata-then-_common_metadata', ok,
           '; '.join(norm(c) for c in wc), api.loc(h))
    # writer.write passes the literals that keep rename/remove off the route
    w = wr.func('write')
    c = _calls(w, 'pf.write_row_groups')
    ok = len(c) == 1
    if ok:
        lit = {k.arg: const_value(k.value, '<expr>') for k in c[0].keywords}
        ctx.ob(rule, 'writer.write:append-passes-sort_key=None', lit.get('sort_key', 0) is None, str(lit.get('sort_key')), wr.loc(c[0]))
        ctx.ob(rule, 'writer.write:append-passes-sort_pnames=False', lit.get('sort_pnames') is False, str(lit.get('sort_pnames')), wr.loc(c[0]))
        ctx.ob(rule, 'writer.write:append-passes-write_fmd=True', lit.get('write_fmd') is True, str(lit.get('write_fmd')), wr.loc(c[0]))
        for nm in ('open_with', 'mkdirs'):
            ctx.ob(rule, 'writer.write:append-threads-%s' % nm, norm(kwarg(c[0], nm)) == nm, '', wr.loc(c[0]))
    else:
        ctx.ob(rule, 'writer.write:append-goes-through-write_row_groups', False, '', wr.loc(w))


def fresh_part_rule(ctx, rule):
    wr, api = ctx.repo['writer'], ctx.repo['api']
    g = wr.func('write_multi')
    cfg = CFG(g)
    # i_offset definitions
    defs = [s for s in iter_child_stmts(g.body) if isinstance(s, ast.Assign) and norm(s.targets[0]) == 'i_offset']
    by_branch = {}
    for d in defs:
        tests = [(norm(e.test), fld) for e, fld in cfg.enclosing_tests(d) if isinstance(e, ast.If)]
        by_branch[norm(d.value)] = tests
    ok = len(defs) == 2 and by_branch.get('0') == [('not append', 'body')] and \
        by_branch.get('find_max_part(fmd.row_groups)') == [('not append', 'orelse')]
    ctx.ob(rule, 'writer.write_multi:i_offset-is-find_max_part-when-appending', ok,
           'definitions: %s' % by_branch, wr.loc(g))
    parts = [s for s in iter_child_stmts(g.body) if isinstance(s, ast.Assign) and norm(s.targets[0]) == 'part']
    # (what goes into the name, whichever way the text is put together: %-format or f-string)
    from ..canon import fmt_parts
    ok = len(parts) == 1 and fmt_parts(parts[0].value) == ('part.{}.parquet', ['i + i_offset'])
    loops = [s for s in g.body if isinstance(s, ast.For) and 'enumerate(data)' in norm(s.iter)]
    ok = ok and len(loops) == 1 and norm(loops[0].iter) == 'enumerate(data)' and norm(loops[0].target).startswith('(i,')
    ctx.ob(rule, 'writer.write_multi:part-name-is-running-index-plus-offset', ok,
           norm(parts[0]) if parts else 'no part name', wr.loc(g))
    fm = wr.func('find_max_part')
    rets = return_values(fm)
    texts = sorted(norm(r) for r in rets)
    src_ok = any(norm(s) == 'pids = part_ids(row_groups)' for s in fm.body)
    def max_plus_one(e):
        if isinstance(e, ast.BinOp) and isinstance(e.op, ast.Add):
            for a, b in ((e.left, e.right), (e.right, e.left)):
                if isinstance(b, ast.Constant) and b.value == 1 and isinstance(a, ast.Call) and callee(a) == 'max' \
                        and a.args and 'pids' in norm(a.args[0]):
                    return True
        return False
    src_ok = src_ok or any('part_ids(row_groups)' in norm(s) for s in fm.body)
    ok = src_ok and any(max_plus_one(r) for r in rets) and all(
        max_plus_one(r) or norm(r) == '0' for r in rets)
    ctx.ob(rule, 'writer.find_max_part:next-number-is-max-existing-plus-one', ok,
           'returns %s (a count or the maximum itself can collide with an existing part file)' % texts, wr.loc(fm))
    pi = api.func('part_ids')
    s = src(pi)
    # (the number is group 'i' of the match, whether the (match, path) pair is indexed or unpacked)
    import re as _re
    ok = bool(_re.search(r"int\(\w+(\[0\])?\['i'\]\)", s)) and 'PART_ID.match(path)' in s and 'rg.columns[0].file_path for rg in row_groups' in s
    ctx.ob(rule, 'api.part_ids:ids-parsed-from-every-referenced-path', ok,
           'the id set must come from all referenced file paths', api.loc(pi))
    pid = ctx.repo['api'].assigns.get('PART_ID')
    ctx.ob(rule, 'api.PART_ID:pattern', bool(pid) and 'part.(?P<i>[\\\\d]+).parquet$' in norm(pid[0]),
           norm(pid[0]) if pid else 'missing', 'fastparquet/api.py:1')
    # OPEN sites on the route: mode 'wb', path derived from `part`
    sites = 0
    for q in ('write_multi', 'partition_on_columns'):
        f = wr.func(q)
        for k, c in fx.direct_effects(f):
            if k != 'OPEN':
                continue
            sites += 1
            mode = fx.mode_of(c)
            ctx.ob(rule, 'writer.%s:part-file-opened-wb:%s' % (q, norm(c.args[0]) if c.args else '?'), mode == 'wb',
                   'mode %r (an existing data file must never be opened for update/append)' % (mode,), wr.loc(c))
            pth = norm(c.args[0]) if c.args else ''
            d = [s for s in iter_child_stmts(f.body) if isinstance(s, ast.Assign) and norm(s.targets[0]) == pth]
            want = {'partname': 'join_path(dn, part)', 'fullname': 'join_path(root_path, path, partname)'}
            ctx.ob(rule, 'writer.%s:part-path-built-from-the-fresh-part-name:%s' % (q, pth),
                   len(d) == 1 and norm(d[0].value) == want.get(pth),
                   '%s = %s' % (pth, norm(d[0].value) if d else '?'), wr.loc(c))
    ctx.floor(rule, 'part-file OPEN sites', sites, 2)
    c = _calls(g, 'partition_on_columns')
    ok = len(c) == 1 and [norm(a) for a in c[0].args[:4]] == ['row_group', 'partition_on', 'dn', 'part']
    ctx.ob(rule, 'writer.write_multi:passes-the-fresh-part-name-to-partition_on_columns', ok,
           norm(c[0])[:100] if c else '', wr.loc(g))


def _leaky_commit(repo):
    """does write_multi store into the metadata object before all parts are written?"""
    from .simple_append import multi_commit_stores
    try:
        _, _, inner, after = multi_commit_stores(repo['writer'])
    except AnalysisError:
        return True
    return bool(inner) or not after


def error_discipline_rule(ctx, rule):
    repo = ctx.repo
    n = 0
    listed = []
    for mod, q in ROUTE_FUNCS + [('api', 'ParquetFile.__init__'), ('api', 'ParquetFile._parse_header'),
                                 ('api', 'ParquetFile._set_attrs'), ('util', 'get_fs')]:
        m = repo[mod]
        f = m.func(q)
        for t in [s for s in iter_child_stmts(f.body) if isinstance(s, ast.Try)]:
            for h in t.handlers:
                n += 1
                names = []
                if h.type is None:
                    names = ['<bare>']
                elif isinstance(h.type, ast.Tuple):
                    names = [norm(e) for e in h.type.elts]
                else:
                    names = [norm(h.type)]
                broad = any(x in ('<bare>', 'Exception', 'BaseException', 'OSError', 'IOError', 'EnvironmentError')
                            for x in names)
                reraises = bool(h.body) and isinstance(h.body[-1], ast.Raise)
                body_effects = []
                for st in t.body:
                    for c in ast.walk(st):
                        if isinstance(c, ast.Call):
                            k = fx.classify(c)
                            if k in ('WRITE', 'MKDIR', 'REMOVE', 'RENAME', 'TRUNCATE') or (
                                    k == 'OPEN' and fx.writable(fx.mode_of(c))) or callee(c) in (
                                    'make_part_file', 'make_row_group', 'write_column', 'write_common_metadata',
                                    'partition_on_columns', 'write_multi', 'write_simple'):
                                body_effects.append(norm(c)[:40])
                swallow = broad and not reraises and body_effects
                listed.append('%s.%s except %s%s' % (mod, q, names, ' (re-raises)' if reraises else ''))
                ctx.ob(rule, '%s.%s:no-swallowed-write-error:except %s' % (mod, q, ','.join(names)), not swallow,
                       'handler for %s %s and guards write-side effects %s' % (
                           names, 're-raises' if reraises else 'does NOT re-raise', body_effects or '(none)'),
                       m.loc(h))
    # exceptional paths must not perform write-side steps, and `finally` must not swallow
    nfin = 0
    for mod, q in ROUTE_FUNCS:
        m = repo[mod]
        f = m.func(q)
        for t in [s for s in iter_child_stmts(f.body) if isinstance(s, ast.Try)]:
            regions = [('finally', t.finalbody)] + [('except', h.body) for h in t.handlers]
            for kind, body in regions:
                if not body:
                    continue
                nfin += 1
                for st in iter_child_stmts(body):
                    if kind == 'finally' and isinstance(st, (ast.Return, ast.Break, ast.Continue)):
                        ctx.ob(rule, '%s.%s:finally-does-not-swallow-the-exception' % (mod, q), False,
                               '`%s` inside a finally block discards the in-flight exception: a failed write-side step '
                               'would be reported as success' % norm(st), m.loc(st))
                    for c in ast.walk(st) if not isinstance(st, (ast.If, ast.For, ast.While, ast.Try, ast.With)) else []:
                        if isinstance(c, ast.Call) and (callee(c) in (
                                'self._write_common_metadata', 'write_common_metadata', 'write_multi', 'make_part_file',
                                'partition_on_columns') or fx.classify(c) in ('MKDIR', 'REMOVE', 'RENAME') or (
                                fx.classify(c) == 'OPEN' and fx.writable(fx.mode_of(c)))):
                            if callee(c) in ('self._write_common_metadata', 'write_common_metadata') and not _leaky_commit(repo):
                                # the metadata object takes new row groups only after all parts were written (checked by
                                # the commit rules): what is rewritten here after a failure is the old summary
                                ctx.ob(rule, '%s.%s:summary-rewritten-on-the-exceptional-path-is-the-old-one' % (mod, q), True,
                                       norm(c)[:50], m.loc(c), nontrivial=False)
                                continue
                            ctx.ob(rule, '%s.%s:no-write-side-step-on-the-exceptional-path:%s' % (mod, q, callee(c)), False,
                                   '%s runs inside a %s block, i.e. also after a part-file step has failed; the summary '
                                   'would then be rewritten for a partially written append' % (norm(c)[:50], kind), m.loc(c))
    ctx.ob(rule, 'append-route:exceptional-regions-scanned', True, '%d except/finally regions' % nfin, '', nontrivial=False)
    ctx.stat('%s handlers on the append route' % rule, n)
    ctx.note('%s handlers examined: %s' % (rule, '; '.join(listed)))
    # off-route sites that do wrap REMOVE are listed for the record
    for mod, q in (('api', 'ParquetFile.remove_row_groups'), ('util', 'default_remove')):
        f = repo[mod].func(q)
        for t in [s for s in iter_child_stmts(f.body) if isinstance(s, ast.Try)]:
            ctx.note('%s off-route: %s.%s wraps %s in try/except %s' % (
                rule, mod, q, norm(t.body[-1])[:50], [norm(h.type) if h.type else 'bare' for h in t.handlers]))


def io_ownership_rule(ctx, rule):
    repo = ctx.repo
    for mod, q in [('writer', 'write_multi'), ('writer', 'partition_on_columns'), ('writer', 'make_part_file'),
                   ('writer', 'write_common_metadata'), ('api', 'ParquetFile.write_row_groups'),
                   ('api', 'ParquetFile._write_common_metadata'), ('writer', 'make_row_group'),
                   ('writer', 'write_column')]:
        m = repo[mod]
        f = m.func(q)
        params = {a.arg for a in f.args.args + f.args.kwonlyargs}
        for c in walk_no_nested(f):
            if not isinstance(c, ast.Call):
                continue
            k = fx.classify(c)
            cn = callee(c)
            if k in ('OPEN', 'MKDIR', 'REMOVE', 'RENAME'):
                ok = cn in params and cn not in fx.BUILTIN_IO
                ctx.ob(rule, '%s.%s:io-through-caller-supplied-callable:%s' % (mod, q, cn), ok,
                       '%s is %s' % (cn, 'a parameter of the function' if ok else 'NOT threaded from the caller'), m.loc(c))
            elif cn and (cn.startswith('os.') and cn not in ('os.path.join', 'os.environ.get')) or cn in ('open',):
                ctx.ob(rule, '%s.%s:no-direct-os-io:%s' % (mod, q, cn), False, 'direct %s on the route' % cn, m.loc(c))
    # threading of the callables
    wr, api = repo['writer'], repo['api']
    g = wr.func('write_multi')
    c = _calls(g, 'partition_on_columns')
    if c:
        a = [norm(x) for x in c[0].args]
        ctx.ob(rule, 'writer.write_multi:threads-open_with-and-mkdirs-to-partition_on_columns',
               'open_with' in a and 'mkdirs' in a, str(a), wr.loc(c[0]))
    for w in _calls(g, 'write_common_metadata'):
        ctx.ob(rule, 'writer.write_multi:threads-open_with-to-summary:%s' % norm(w.args[0])[:30],
               len(w.args) >= 3 and norm(w.args[2]) == 'open_with', norm(w)[:80], wr.loc(w))
    f = api.func('ParquetFile.write_row_groups')
    for w in _calls(f, 'write_multi'):
        ctx.ob(rule, 'api.write_row_groups:threads-open_with-and-mkdirs',
               norm(kwarg(w, 'open_with')) == 'open_with' and norm(kwarg(w, 'mkdirs')) == 'mkdirs', '', api.loc(w))
    for w in _calls(f, 'self._write_common_metadata'):
        ctx.ob(rule, 'api.write_row_groups:threads-open_with-to-summary', [norm(a) for a in w.args] == ['open_with'], '', api.loc(w))
    dflt = [s for s in g.body if isinstance(s, ast.If) and norm(s.test) == 'mkdirs is None']
    ctx.ob(rule, 'writer.write_multi:default-mkdirs-only-when-none-given',
           len(dflt) == 1 and [norm(x) for x in dflt[0].body] == ['mkdirs = default_mkdirs'], '', wr.loc(g))


def no_remove_rename_rule(ctx, rule):
    """REMOVE/RENAME are unreachable from the append route"""
    repo, cg = ctx.repo, ctx.cg
    idx = fx.EffectIndex(repo, cg)
    for root in (('writer', 'write_multi'), ('api', 'ParquetFile._write_common_metadata')):
        eff, seen = idx.trans(root)
        bad = [(k, '%s.%s' % fk) for k in ('REMOVE', 'RENAME') for fk, c in eff.get(k, [])]
        ctx.ob(rule, '%s.%s:no-remove-or-rename-reachable' % root, not bad,
               'functions analysed: %d; remove/rename effects: %s' % (len(seen), bad or 'none'), '')
        seeks = [('%s.%s' % fk, norm(c)[:40]) for k in ('SEEK', 'TRUNCATE') for fk, c in eff.get(k, [])
                 if fk[0] != 'cencoding']
        ctx.ob(rule, '%s.%s:no-seek-or-truncate-on-output-reachable' % root, not seeks,
               str(seeks or 'none'), '')
    f = repo['api'].func('ParquetFile.write_row_groups')
    cfg = CFG(f)
    for c in _calls(f, 'self._sort_part_names'):
        tests = [norm(e.test) for e, fld in cfg.enclosing_tests(_stmt_of(f, c)) if isinstance(e, ast.If) and fld == 'body']
        ctx.ob(rule, 'api.write_row_groups:renaming-only-under-sort_pnames', 'sort_pnames' in tests, str(tests), repo['api'].loc(c))


def symmetric_compare(test):
    """is the column-compatibility test symmetric in its two operands?"""
    t = norm(test)
    if isinstance(test, ast.Compare) and len(test.ops) == 1 and isinstance(test.ops[0], (ast.NotEq, ast.Eq)):
        return True
    for n in ast.walk(test):
        if isinstance(n, ast.BinOp) and isinstance(n.op, ast.BitXor):
            return True
        if isinstance(n, ast.BinOp) and isinstance(n.op, ast.Sub) and 'set(' in norm(n):
            return False
    return None


def compat_checks_rule(ctx, rule):
    repo = ctx.repo
    api, wr = repo['api'], repo['writer']
    f = api.func('ParquetFile.write_row_groups')
    cfg = CFG(f)
    raises = [s for s in iter_child_stmts(f.body) if isinstance(s, ast.Raise)]
    writers = [_stmt_of(f, c) for c in _calls(f, 'write_simple') + _calls(f, 'write_multi')]
    ctx.floor(rule, 'writer calls in write_row_groups', len(writers), 2)
    col_raise = [r for r in raises if 'olumn names' in src(r)]
    ok = len(col_raise) == 1
    ctx.ob(rule, 'api.write_row_groups:column-mismatch-is-refused', ok, 'a raise mentioning the column names', api.loc(f))
    if ok:
        r = col_raise[0]
        tests = [e for e, fld in cfg.enclosing_tests(r) if isinstance(e, ast.If) and fld == 'body']
        inner = tests[-1]
        # the test may go through a local (diff_cols = ...; if diff_cols:)
        texpr = inner.test
        if isinstance(texpr, ast.Name):
            d = [s for s in iter_child_stmts(f.body) if isinstance(s, ast.Assign) and norm(s.targets[0]) == texpr.id]
            if d:
                texpr = d[-1].value
        sym = symmetric_compare(texpr)
        ctx.ob(rule, 'api.write_row_groups:column-comparison-is-symmetric', sym is True,
               'refusal test `%s`: columns only in the new data and columns only in the file must both be refused' % norm(texpr),
               api.loc(inner))
        both = 'data.columns' in norm(texpr) or 'data.columns' in src(inner)
        ops = [s for s in iter_child_stmts(f.body) if isinstance(s, ast.Assign) and norm(s.targets[0]) == 'self_cols']
        ctx.ob(rule, 'api.write_row_groups:existing-columns-include-partitions',
               len(ops) == 1 and norm(ops[0].value) == 'sorted(self.columns + partition_on)', norm(ops[0]) if ops else '', api.loc(f))
        n_r = cfg.node_of(inner)
        outer = [norm(e.test) for e, fld in cfg.enclosing_tests(inner) if isinstance(e, ast.If)]
        ctx.ob(rule, 'api.write_row_groups:column-check-precedes-any-write',
               all(cfg.exists_path(n_r, cfg.node_of(w)) and not cfg.exists_path(cfg.node_of(w), n_r) for w in writers)
               and outer in ([], ['isinstance(data, pd.DataFrame)']),
               'the comparison comes before write_simple/write_multi and is conditional only on the data being a '
               'DataFrame (an iterable of frames cannot be inspected up front): enclosing tests %s' % outer, api.loc(inner))
    w = wr.func('write')
    cfg = CFG(w)
    call = _calls(w, 'pf.write_row_groups')
    if call:
        st = _stmt_of(w, call[0])
        rs = [s for s in iter_child_stmts(w.body) if isinstance(s, ast.Raise)]
        kinds = {'scheme-simple': 'File scheme requested is simple', 'scheme-multi': 'Requested file scheme',
                 'partitioning': 'partitioning columns must'}
        for k, frag in kinds.items():
            rr = [r for r in rs if frag in src(r)]
            ok = len(rr) == 1
            if ok:
                tests = [e for e, fld in cfg.enclosing_tests(rr[0]) if isinstance(e, ast.If) and fld == 'body']
                ok = cfg.exists_path(cfg.node_of(tests[-1]), cfg.node_of(st)) and \
                    not cfg.exists_path(cfg.node_of(st), cfg.node_of(tests[-1]))
            ctx.ob(rule, 'writer.write:append-%s-mismatch-refused-before-writing' % k, ok, frag, wr.loc(w))
        pt = [s for s in iter_child_stmts(w.body) if isinstance(s, ast.If) and 'partition_on' in norm(s.test) and 'pf.cats' in norm(s.test)]
        ctx.ob(rule, 'writer.write:partitioning-comparison-is-ordered-equality',
               len(pt) == 1 and norm(pt[0].test) == 'tuple(partition_on) != tuple(pf.cats)', norm(pt[0].test) if pt else '', wr.loc(w))


def open_close_pairing_rule(ctx, rule):
    """every file opened for writing on the route is context-managed, so close() (which flushes and can
    fail) runs before the function returns and its failure propagates"""
    wr = ctx.repo['writer']
    n = 0
    for q in ('write_multi', 'partition_on_columns', 'write_common_metadata', 'write_simple'):
        f = wr.func(q)
        withs = [s for s in iter_child_stmts(f.body) if isinstance(s, ast.With)]
        managed_exprs = [it.context_expr for w in withs for it in w.items]
        for k, c in fx.direct_effects(f):
            if k != 'OPEN' or not fx.writable(fx.mode_of(c)):
                continue
            n += 1
            ok = any(c is e for e in managed_exprs)
            if not ok:
                # of = open_with(fn, mode); with of as f:
                asg = [s for s in iter_child_stmts(f.body) if isinstance(s, ast.Assign) and s.value is c and isinstance(s.targets[0], ast.Name)]
                ok = bool(asg) and any(isinstance(e, ast.Name) and e.id == asg[0].targets[0].id for e in managed_exprs)
            ctx.ob(rule, 'writer.%s:file-opened-for-writing-is-context-managed:%s' % (q, norm(c.args[0]) if c.args else '?'), ok,
                   '`%s` must be the subject of a `with`: an unmanaged handle is closed by the garbage collector, where a '
                   'failing flush/close is swallowed and the append still reports success' % norm(c)[:60], wr.loc(c))
    ctx.floor(rule, 'writable OPEN sites', n, 4)
    mp = wr.func('make_part_file')
    w = [s for s in mp.body if isinstance(s, ast.With) and norm(s.items[0].context_expr) == 'f']
    ctx.ob(rule, 'writer.make_part_file:handle-closed-before-returning', len(w) == 1,
           'make_part_file closes the handle it was given (`with f as f:`) before the row group is recorded', wr.loc(mp))


def single_pass_data_rule(ctx, rule):
    """`data` may be a one-shot iterable of frames: it is iterated once, by the writer that consumes it"""
    api, wr = ctx.repo['api'], ctx.repo['writer']
    f = api.func('ParquetFile.write_row_groups')
    its = []
    # (under `isinstance(data, pd.DataFrame)` the argument is a frame: looking at its columns consumes nothing)
    frame_arms = [x for x in ast.walk(f) if isinstance(x, ast.If) and norm(x.test) == 'isinstance(data, pd.DataFrame)']
    in_frame_arm = {id(y) for x in frame_arms for b_ in x.body for y in ast.walk(b_)}
    for n in ast.walk(f):
        if id(n) in in_frame_arm:
            continue
        if isinstance(n, (ast.For, ast.comprehension)) and 'data' in {x.id for x in ast.walk(n.iter) if isinstance(x, ast.Name)} \
                and not norm(n.iter).startswith('data.columns') and 'sorted(data.columns)' not in norm(n.iter):
            its.append(norm(n.iter))
        if isinstance(n, ast.Call) and callee(n) in ('list', 'tuple', 'iter', 'next', 'len', 'sum', 'any', 'all') and n.args and norm(n.args[0]) == 'data':
            its.append(norm(n))
    ctx.ob(rule, 'api.write_row_groups:data-not-consumed-before-the-writers', not its,
           'iterations over `data` before it is handed to write_simple/write_multi: %s (a generator of frames would be '
           'exhausted and nothing written, yet the summary rewritten)' % (its or 'none'), api.loc(f))
    for q in ('write_multi', 'write_simple'):
        g = wr.func(q)
        loops = [norm(n.iter) for n in ast.walk(g) if isinstance(n, ast.For) and 'data' in {x.id for x in ast.walk(n.iter) if isinstance(x, ast.Name)}]
        # (with or without the running index)
        ctx.ob(rule, 'writer.%s:data-iterated-exactly-once' % q, len(loops) == 1 and loops[0] in ('enumerate(data)', 'data'), str(loops), wr.loc(g))


def index_normalisation_rule(ctx, rule):
    """on the routes that add to an existing dataset (append arm of write, overwrite) the frame's row index is
    turned into columns exactly when the *dataset* records index columns: the guard of reset_row_idx there
    depends on the opened handle only, and precedes the hand-over to write_row_groups"""
    wr = ctx.repo['writer']
    n = 0
    for q in ('write', 'overwrite'):
        f = wr.func(q)
        cfg = CFG(f)
        hand = [_stmt_of(f, c) for c in _calls(f, 'pf.write_row_groups')]
        resets = []
        for c in _calls(f, 'reset_row_idx'):
            st = _stmt_of(f, c)
            tests = [(e, fld) for e, fld in cfg.enclosing_tests(st) if isinstance(e, ast.If)]
            on_append_route = any(cfg.exists_path(cfg.node_of(st), cfg.node_of(h)) for h in hand)
            if on_append_route:
                resets.append((st, tests))
        ctx.ob(rule, 'writer.%s:index-normalised-before-the-append' % q, len(resets) == 1,
               '%d reset_row_idx site(s) lead to pf.write_row_groups' % len(resets), wr.loc(f))
        for st, tests in resets:
            n += 1
            inner = tests[-1][0] if tests else None
            names = {x.id for x in ast.walk(inner.test) if isinstance(x, ast.Name)} if inner is not None else set()
            ok = inner is not None and names == {'pf'} and norm(inner.test) == 'pf._get_index()' and tests[-1][1] == 'body'
            ctx.ob(rule, 'writer.%s:index-normalisation-decided-by-the-dataset-alone' % q, ok,
                   'guard `%s`: a dataset with index columns needs them from every appended frame (also from one with a '
                   'default RangeIndex); a guard that looks at the new frame changes the column set and the append is refused '
                   'or misaligned' % (norm(inner.test) if inner is not None else '(unconditional)'), wr.loc(st))
    ctx.floor(rule, 'index normalisation sites on append routes', n, 2)


MODE_PARAMS = ('append', 'file_scheme', 'write_fmd', 'sort_pnames')


def mode_params_rule(ctx, rule):
    """the caller's mode switches (append or replace, layout, whether/when the summary is written, renumbering) are
    never rebound inside the write path: an append that silently turns into a fresh write re-opens existing part
    files with 'wb'; and the stored representation of a column follows the dataset's schema element, not the dtype of
    the frame at hand (an appended int64 frame into a DOUBLE column must be cast to double)"""
    wr, api = ctx.repo['writer'], ctx.repo['api']
    n = 0
    for m, q in ((wr, 'write'), (wr, 'write_multi'), (wr, 'write_simple'), (wr, 'overwrite'), (api, 'ParquetFile.write_row_groups')):
        f = m.func(q)
        params = {a.arg for a in f.args.args + f.args.kwonlyargs}
        for st in walk_no_nested(f):
            tg = []
            if isinstance(st, ast.Assign):
                tg = st.targets
            elif isinstance(st, (ast.AugAssign, ast.AnnAssign)):
                tg = [st.target]
            for t in tg:
                for x in ast.walk(t):
                    if isinstance(x, ast.Name) and x.id in MODE_PARAMS and x.id in params:
                        n += 1
                        ctx.ob(rule, '%s.%s:mode-parameter-%s-is-not-rebound' % (m.name, q, x.id), False,
                               '`%s`' % norm(st)[:80], m.loc(st))
    ctx.ob(rule, 'write-path:mode-parameters-never-rebound', True, '%d rebinding(s) of %s found' % (n, list(MODE_PARAMS)), '')
    f = wr.func('convert')
    # a float frame cast to an integer column: NaN / fractions are refused, not cast
    cfgc = CFG(f)
    casts = [st for st in iter_child_stmts(f.body) if isinstance(st, ast.Assign) and 'astype(revmap[type]' in norm(st.value)
             and any(norm(e.test) == 'dtype.name in typemap' for e, fld in cfgc.enclosing_tests(st) if isinstance(e, ast.If))]
    # (the values that are cast: `data.values`, or a local holding them - scaled for a decimal column)
    V = norm(casts[0].value.func.value) if casts and isinstance(casts[0].value, ast.Call) and isinstance(casts[0].value.func, ast.Attribute) else 'data.values'
    okc = False
    for st in walk_no_nested(f):
        # accepted forms: a pre-check (finite and integral) or - stronger - comparing the cast result with the values
        if isinstance(st, ast.If) and "dtype.kind == 'f'" in norm(st.test) and any(isinstance(r, ast.Raise) for r in ast.walk(st)):
            body = norm(ast.Module(body=st.body, type_ignores=[]))
            tail = body.split(("astype('float64') != %s" % V))[1][:40] if ("astype('float64') != %s" % V) in body else ''
            # (a subscript after the comparison narrows it - except to "not the infinities" where a range test that takes
            # int() of the extremes follows: int(inf) raises)
            narrowed = '[' in tail[:3] and not (tail[1:].startswith(('[~np.isinf(%s)]' % V)) and ("int(%s.max())" % V) in norm(f))
            if ('isfinite' in body and 'trunc' in body) or (("astype('float64') != %s" % V) in body and not narrowed):
                okc = True
    ctx.ob(rule, 'writer.convert:lossy-float-to-integer-cast-refused', okc,
           'astype(int) turns NaN into the smallest integer and cuts fractions off; reached when a float frame is appended to an integer column', wr.loc(f))
    # wider integers cast to a narrower integer column keep their low bits only: the cast result is compared back
    okn, why_n = False, 'no refusal under a test for integer input and integer storage'
    for st in walk_no_nested(f):
        t0 = norm(st.test) if isinstance(st, ast.If) else ''
        conj = [norm(v) for v in (st.test.values if isinstance(st, ast.If) and isinstance(st.test, ast.BoolOp) and isinstance(st.test.op, ast.And)
                                  else [st.test] if isinstance(st, ast.If) else [])]
        arm = ast.Module(body=st.body, type_ignores=[]) if isinstance(st, ast.If) else None
        if not (isinstance(st, ast.If) and ("dtype.kind in 'iu'" in conj or "dtype.kind in 'iuf'" in conj) and "out.dtype.kind in 'iu'" in conj
                and any(isinstance(r, ast.Raise) for r in ast.walk(arm))):
            continue
        inner = [x for x in ast.walk(arm) if isinstance(x, ast.If) and any(isinstance(r, ast.Raise) for r in ast.walk(x))]
        tests = [norm(x.test) for x in inner] + [t0]
        defs_n = {norm(a_.targets[0]): norm(a_.value) for a_ in ast.walk(arm) if isinstance(a_, ast.Assign) and len(a_.targets) == 1}
        # (a) the cast result is compared back with the values (only sound for a narrower storage type: guarded by itemsize)
        form_a = any((('out != %s' % V) in t or ('%s != out' % V) in t) and '.any()' in t for t in tests)
        # (b) the values are compared with the range of the column's own integer type
        info = [k for k, v in defs_n.items() if v.startswith('np.iinfo(')]
        form_b = False
        for k in info:
            tgt = defs_n[k][len('np.iinfo('):-1]
            tgt_src = defs_n.get(tgt, tgt)
            rng = any('%s.min' % k in t and '%s.max' % k in t and ('%s.min()' % V) in t and ('%s.max()' % V) in t for t in tests)
            form_b = form_b or (rng and tgt_src in ('logical_dtype(se)', 'converted_types.typemap(se)'))
        if form_b or (form_a and 'itemsize' in t0):
            okn = True
        elif form_a:
            why_n = 'the cast is compared back, but not only for a narrower storage type: equal widths differ in sign'
        elif info:
            why_n = 'range taken from %s, not from the column\'s own type' % [defs_n[k] for k in info]
    ctx.ob(rule, 'writer.convert:narrowing-integer-cast-refused-when-it-changes-a-value', okn,
           'astype to a narrower integer type keeps the low bits (2**40 + 5 -> 5), and the column\'s own type may be narrower than or '
           'differ in sign from its storage type (300 into INT_8 -> 44, -1 into UINT_32 -> 4294967295); reached when integers of '
           'another type are appended: %s' % why_n, wr.loc(f))
    subs = [x for x in walk_no_nested(f) if isinstance(x, ast.Subscript) and norm(x.value) == 'revmap']
    tdef = [st for st in f.body if isinstance(st, ast.Assign) and norm(st.targets[0]) == 'type']
    ok_def = len(tdef) == 1 and norm(tdef[0].value) == 'se.type'
    ctx.floor(rule, 'cast targets looked up in revmap', len(subs), 2)
    for x in subs:
        ctx.ob(rule, 'writer.convert:cast-target-follows-the-schema-element:%s' % norm(x)[:30], ok_def and norm(x.slice) in ('type', 'se.type'),
               '`%s` with type = %s: the chunk is declared with the schema element\'s physical type; casting to anything else '
               'writes bytes of another width into it' % (norm(x), norm(tdef[0].value) if tdef else '?'), wr.loc(x))


def _blocks_of(stmts):
    yield stmts
    for st in stmts:
        if isinstance(st, (ast.FunctionDef, ast.AsyncFunctionDef, ast.ClassDef)):
            continue
        for fld in ('body', 'orelse', 'finalbody'):
            sub = getattr(st, fld, None)
            if isinstance(sub, list) and sub:
                yield from _blocks_of(sub)
        for h in getattr(st, 'handlers', []) or []:
            yield from _blocks_of(h.body)


def kind_checks_rule(ctx, rule):
    """write_row_groups (the common entry of every append), before any writer is called: (a) a column the dataset declares
    categorical gets categorical data - a chunk without a dictionary page cannot be read back as that column; (b) the
    values of a partition column parse as the partition's recorded type - directory names are read back under that
    type, and one name that does not parse makes the whole dataset fall back to another layout"""
    api = ctx.repo['api']
    f = api.func('ParquetFile.write_row_groups')
    cfg = CFG(f)
    writers = [_stmt_of(f, c) for c in _calls(f, 'write_simple') + _calls(f, 'write_multi')]
    raises = [r for r in walk_no_nested(f) if isinstance(r, ast.Raise)]

    def before_writers(r):
        st = r
        return all(not cfg.exists_path(cfg.node_of(w), cfg.node_of(st)) and cfg.exists_path(cfg.node_of(st), cfg.node_of(w)) is not None for w in writers)
    cat = []
    for r in raises:
        tests = [norm(e.test) for e, fld in cfg.enclosing_tests(r) if isinstance(e, ast.If)]
        loops = [norm(e.iter) for e, fld in cfg.enclosing_tests(r) if isinstance(e, ast.For)]
        if any('CategoricalDtype' in t and t.strip().find('not isinstance') >= 0 for t in tests) and any('self.categories' in l for l in loops):
            cat.append(r)
    ctx.ob(rule, 'api.write_row_groups:non-categorical-data-for-a-categorical-column-refused-before-writing',
           len(cat) == 1 and all(not cfg.exists_path(cfg.node_of(w), cfg.node_of(cat[0])) for w in writers),
           'appending plain values to a dictionary-declared column leaves a chunk the reader cannot load as categorical', api.loc(f))
    part = []
    for r in raises:
        hs = [h for t in ast.walk(f) if isinstance(t, ast.Try) for h in t.handlers if any(r is y for y in ast.walk(h))]
        if not hs:
            continue
        trys = [t for t in ast.walk(f) if isinstance(t, ast.Try) and any(h in t.handlers for h in hs)]
        if any(isinstance(c, ast.Call) and callee(c) == 'val_to_num' and any(k.arg == 'meta' for k in c.keywords) and
               any(isinstance(a, ast.Call) and callee(a) == 'path_string' for a in c.args) for t in trys for c in ast.walk(ast.Module(body=t.body, type_ignores=[]))):
            part.append(r)
    ctx.ob(rule, 'api.write_row_groups:partition-values-parse-as-the-recorded-type-or-the-append-is-refused',
           len(part) == 1 and all(not cfg.exists_path(cfg.node_of(w), cfg.node_of(part[0])) for w in writers),
           'a directory name that does not parse under the partition\'s recorded type makes the dataset fall back to drill '
           'parsing on the next open (the partition column disappears)', api.loc(f))


def single_file_route_rule(ctx, rule):
    """An existing dataset is appended to through the single-file writer exactly when it IS a single file: scheme
    'simple', or an empty one whose handle is not a summary file (name ending in `_metadata`); everything else goes
    through the multi-file writer (and `overwrite` refuses exactly the single-file case).  The test may be spelled in
    any equivalent way (`in (..)`, a property, nested); it is compared as a formula over three facts."""
    import re as _re
    from .. import pathcond as pc
    api, wr = ctx.repo['api'], ctx.repo['writer']
    S, E, M = ('atom', 'S', frozenset()), ('atom', 'E', frozenset()), ('atom', 'M', frozenset())
    want = pc._or([S, pc._and([E, pc._neg(M)])])

    def facts(x, recv):
        k = x[0]
        if k == 'atom':
            t = x[1]
            if t in ("'simple' == %s.file_scheme" % recv, "%s.file_scheme == 'simple'" % recv):
                return S
            if t in ("'empty' == %s.file_scheme" % recv, "%s.file_scheme == 'empty'" % recv):
                return E
            if t in ("'_metadata' == %s.fn[-9:]" % recv, "%s.fn[-9:] == '_metadata'" % recv, "%s.fn.endswith('_metadata')" % recv):
                return M
            return ('atom', t, frozenset())
        if k == 'not':
            return pc._neg(facts(x[1], recv))
        if k in ('and', 'or'):
            return (pc._and if k == 'and' else pc._or)([facts(y, recv) for y in x[1]])
        return x
    f = api.func('ParquetFile.write_row_groups')
    r = pc.reach(f)
    calls = [st for st in iter_child_stmts(f.body) if isinstance(st, ast.Expr) and isinstance(st.value, ast.Call) and callee(st.value) in ('write_simple', 'write_multi')]
    ctx.floor(rule, 'writer calls in write_row_groups', len(calls), 2)
    # the part of the reach condition that speaks about the scheme (earlier guard clauses of the checks above it drop out:
    # they are the same for both calls)
    by = {callee(st.value): pc._strip(r[id(st)]) for st in calls}
    simple_c, multi_c = facts(by.get('write_simple', pc.F), 'self'), facts(by.get('write_multi', pc.F), 'self')
    common = pc.atoms(simple_c) & pc.atoms(multi_c) - {'S', 'E', 'M'}
    env_ok = True
    import itertools
    names = sorted(pc.atoms(simple_c) | pc.atoms(multi_c) | {'S', 'E', 'M'})
    ok_s = ok_m = len(names) <= 14
    if ok_s:
        for vals in itertools.product((False, True), repeat=len(names)):
            e_ = dict(zip(names, vals))
            if e_['S'] and e_['E']:
                continue          # (a scheme is one thing)
            a, b = pc._eval(simple_c, e_), pc._eval(multi_c, e_)
            if not (a or b):
                continue          # (a refusal above the route decision: neither writer is reached)
            w = pc._eval(want, e_)
            if a != w:
                ok_s = False
            if b != (not w):
                ok_m = False
    ctx.ob(rule, 'api.write_row_groups:single-file-writer-exactly-for-a-single-file', ok_s,
           'write_simple is reached under %s; wanted: simple, or empty and not a summary file' % pc.dumps(simple_c)[:200], api.loc(f))
    ctx.ob(rule, 'api.write_row_groups:multi-file-writer-for-everything-else', ok_m,
           'write_multi is reached under %s' % pc.dumps(multi_c)[:200], api.loc(f))
    g = wr.func('overwrite')
    refus = [x for x in iter_child_stmts(g.body) if isinstance(x, ast.If) and any(isinstance(y, ast.Raise) for y in x.body)
             and 'simple' in norm(x.test)]
    ok = len(refus) == 1
    d = ''
    if ok:
        c = facts(pc._strip(pc.formula(refus[0].test)), 'pf')
        d = pc.dumps(c)[:200]
        nm = sorted(pc.atoms(c) | {'S', 'E', 'M'})
        ok = len(nm) <= 14 and all(pc._eval(c, dict(zip(nm, v))) == pc._eval(want, dict(zip(nm, v)))
                                   for v in itertools.product((False, True), repeat=len(nm)) if not (dict(zip(nm, v))['S'] and dict(zip(nm, v))['E']))
    ctx.ob(rule, 'writer.overwrite:refuses-exactly-the-single-file-case', ok, d, wr.loc(g))


MEMO_READS = ('categories', 'key_value_metadata', 'pandas_metadata', 'dtypes', '_dtypes', 'check_categories')


def forget_then_rebuild_rule(ctx, rule):
    """After the row groups of a handle changed (append / removal) what was derived from the old ones is voided
    (`_base_dtype = _kvm = _pdm = _categories = None`) and the handle rebuilt (`_set_attrs()`).  Between the two nothing
    may read a memoised property (that would fill the cache again from the old state) and no writer may still run:
    the reset belongs after the last write, directly before the rebuild."""
    api = ctx.repo['api']
    for q in ('ParquetFile.write_row_groups', 'ParquetFile.remove_row_groups'):
        f = api.func(q)
        cfg = CFG(f)
        resets = [st for st in iter_child_stmts(f.body) if isinstance(st, ast.Assign) and any(norm(t) == 'self._categories' for t in st.targets)
                  and isinstance(st.value, ast.Constant) and st.value.value is None]
        rebuilds = [st for st in iter_child_stmts(f.body) if isinstance(st, ast.Expr) and isinstance(st.value, ast.Call) and callee(st.value) == 'self._set_attrs']
        ctx.ob(rule, 'api.%s:derived-state-voided-and-handle-rebuilt' % q.split('.')[-1], bool(resets) and bool(rebuilds),
               '%d reset(s), %d rebuild(s)' % (len(resets), len(rebuilds)), api.loc(f))
        if not resets or not rebuilds:
            continue
        stop = {cfg.node_of(x) for x in rebuilds}
        for rs in resets:
            between = cfg.reach(cfg.succ[cfg.node_of(rs)], avoid=stop)
            bad = []
            for n in between:
                st = cfg.nodes[n].stmt
                if st is None:
                    continue
                from ..cfg import header_exprs
                for e in header_exprs(st):
                    for y in ast.walk(e):
                        if isinstance(y, ast.Attribute) and isinstance(y.value, ast.Name) and y.value.id == 'self' and y.attr in MEMO_READS and isinstance(y.ctx, ast.Load):
                            bad.append('reads self.%s' % y.attr)
                        if isinstance(y, ast.Call) and callee(y) in ('write_simple', 'write_multi'):
                            bad.append('calls %s' % callee(y))
            reaches = any(cfg.exists_path(cfg.node_of(rs), s_) for s_ in stop)
            ctx.ob(rule, 'api.%s:nothing-between-the-reset-and-the-rebuild' % q.split('.')[-1], reaches and not bad,
                   'after `%s` and before `_set_attrs()`: %s' % (norm(rs)[:50], sorted(set(bad)) or ('the rebuild is not reached' if not reaches else 'nothing')), api.loc(rs))
