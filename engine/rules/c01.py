"""C01 - write -> read round trip: the writer's and the reader's type/encoding tables agree."""
import ast
import re

from ..model import (AnalysisError, callee, norm, src, walk_no_nested, iter_child_stmts, module_table, Enum, Sym,
                     fold, Unfoldable, dotted)
from ..cfg import CFG

QUANTIFIER_DTYPES = ['bool', 'int8', 'int16', 'int32', 'int64', 'uint8', 'uint16', 'uint32', 'uint64',
                     'float32', 'float64', 'Int8', 'Int16', 'Int32', 'Int64', 'UInt8', 'UInt16', 'UInt32',
                     'UInt64', 'boolean']


def _np_name(sym):
    """Sym('np.int32') / Sym('dtype:int32') / Sym('dtype:<M8[ms]') -> canonical dtype name"""
    if not isinstance(sym, Sym):
        return None
    t = sym.text
    if t.startswith('dtype:'):
        return t[6:]
    if t.startswith('np.'):
        return t[3:]
    if t == 'bool':
        return 'bool'
    return t


def _bits(name):
    m = re.search(r'(\d+)$', name or '')
    return int(m.group(1)) if m else (1 if name in ('bool',) else None)


def run(ctx):
    ctx.technique = 'constant-folded table composition writer->reader, exhaustiveness of converted-type / encoding / object-encoding arms'
    ctx.explanation = (
        'Decides: (R1.1) for every dtype of the property\'s quantifier the reader\'s table composed with the '
        'writer\'s table is the identity (nullable types through their numpy twin), and the PLAIN width used '
        'by writer and reader is the same numpy type, at least as wide as the dtype; (R1.2) every converted / '
        'logical type the writer can put in a schema has a decoding arm in converted_types.convert and a '
        'dtype answer; (R1.3) every encoding the writer emits is accepted by both page readers, which accept '
        'the same set; (R1.4) every object encoding that can be inferred or requested has a find_type arm and '
        'a convert arm; (R1.5) every (unit, numpy unit) pair of the datetime branch has a time factor; '
        '(R1.6) the in-place v2 read paths, which discard the result of convert(), exclude dtypes whose '
        'conversion is not in place.')
    ctx.not_decided = ('equality of cell values, null placement, index reconstruction and pandas block layout for all '
                       'frames x options (e.g. nullable-int + several v2 pages, categorical + LZ4 + v2, fixed-offset '
                       'time zones): value-level behaviour not visible to table rules')
    repo = ctx.repo
    typemap = module_table(repo, 'writer', 'typemap')
    simple = module_table(repo, 'converted_types', 'simple')
    complex_ = module_table(repo, 'converted_types', 'complex')
    nullable = module_table(repo, 'converted_types', 'nullable')
    pnull = module_table(repo, 'converted_types', 'pandas_nullable')
    decode_tm = module_table(repo, 'encoding', 'DECODE_TYPEMAP')
    revmap = module_table(repo, 'writer', 'revmap')
    pdopt = module_table(repo, 'writer', 'pdoptional_to_numpy_typemap')
    time_factors = module_table(repo, 'writer', 'time_factors')
    ctx.floor('R1.1', 'writer.typemap entries', len(typemap), 20)
    ctx.floor('R1.1', 'converted_types.simple entries', len(simple), 8)
    ctx.floor('R1.1', 'converted_types.complex entries', len(complex_), 12)
    wloc = 'fastparquet/writer.py:32'
    r11(ctx)

    # R1.2
    wr = repo['writer']
    ft = wr.func('find_type')
    emitted = set()
    for v in typemap.values():
        if v[1] is not None:
            emitted.add(v[1].name)
    for n in ast.walk(ft):
        d = dotted(n) if isinstance(n, ast.Attribute) else None
        if d and d.startswith('parquet_thrift.ConvertedType.') and d.count('.') == 2:
            emitted.add(d.split('.')[-1])
    ct_mod = repo['converted_types']
    cv = ct_mod.func('convert')
    arms = set()
    for n in ast.walk(cv):
        if isinstance(n, ast.Compare) and isinstance(n.left, ast.Name) and n.left.id == 'ctype':
            arms |= set(_ctype_members(ct_mod, n))
    ctx.floor('R1.2', 'converted types the writer can emit', len(emitted), 10)
    ctx.floor('R1.2', 'arms of converted_types.convert', len(arms), 18)
    for c in sorted(emitted):
        ctx.ob('R1.2', 'converted_types.convert:has-arm-for-emitted:%s' % c, c in arms,
               'the writer can emit converted type %s; without an arm the reader returns the raw physical values' % c, ct_mod.loc(cv))
        if not c.startswith(('UTF8', 'JSON', 'BSON')):
            ctx.ob('R1.2', 'converted_types.complex:has-dtype-for-emitted:%s' % c,
                   Enum('ConvertedType', c, 0) in complex_, 'typemap() must predict the dtype of %s' % c, 'fastparquet/converted_types.py:1')
    s = src(cv)
    ctx.ob('R1.2', 'converted_types.convert:logical-TIMESTAMP-handled-before-converted-types',
           'se.logicalType is not None and se.logicalType.TIMESTAMP is not None' in s and '_logical_to_time_dtype(se.logicalType.TIMESTAMP)' in s,
           'nanosecond timestamps carry only a logical type', ct_mod.loc(cv))
    lbr = [n for n in ast.walk(cv) if isinstance(n, ast.If) and 'logicalType.TIMESTAMP is not None' in norm(n.test)]
    okv = False
    dv = 'logical TIMESTAMP branch not found'
    if len(lbr) == 1:
        asg = [st for st in lbr[0].body if isinstance(st, ast.Assign) and callee(st.value) == '_logical_to_time_dtype']
        ret = [st for st in lbr[0].body if isinstance(st, ast.Return)]
        if len(asg) == 1 and len(ret) == 1 and isinstance(ret[0].value, ast.Call) and callee(ret[0].value).endswith('.view'):
            a = ret[0].value.args
            okv = len(a) == 1 and isinstance(a[0], ast.Name) and a[0].id == norm(asg[0].targets[0])
        dv = norm(ret[0]) if ret else 'no return'
    ctx.ob('R1.2', 'converted_types.convert:logical-TIMESTAMP-integers-labelled-with-the-unit-recorded-in-the-file', okv,
           '`%s`: the stored integers count the file\'s unit; labelling them with any other resolution (e.g. the output '
           'array\'s) rescales every value' % dv, ct_mod.loc(lbr[0]) if lbr else ct_mod.loc(cv))
    lt = ct_mod.func('_logical_to_time_dtype')
    units = set(re.findall(r"'(NANOS|MICROS|MILLIS)'", src(lt)))
    wunits = set(re.findall(r"(NANOS|MICROS|MILLIS)=", src(ft)))
    ctx.ob('R1.2', 'converted_types._logical_to_time_dtype:covers-units-the-writer-emits', wunits <= units and len(wunits) == 3,
           'writer emits %s, reader knows %s' % (sorted(wunits), sorted(units)), ct_mod.loc(lt))
    r12_units(ctx, 'R1.2')
    r110(ctx)
    r19_floored(ctx)
    r114(ctx)
    r119_views(ctx)
    r126(ctx)
    r127(ctx)
    r121(ctx)
    r122(ctx)
    r124(ctx)
    r125(ctx)
    from . import c02 as _c02c
    _c02c.r21(ctx)
    from . import c02 as _c02
    _c02.r29(ctx, 'R1.20')
    from . import c07
    c07.r77(ctx, 'R1.18')
    from . import c17
    c17.r175(ctx, 'R1.11')

    # R1.3
    enc_tbl = wr.assigns.get('encode')
    e_w = {k.value for k in enc_tbl[0].keys} if enc_tbl and isinstance(enc_tbl[0], ast.Dict) else set()
    core = repo['core']
    def accepted(func, var):
        out = set()
        for n in ast.walk(func):
            if isinstance(n, ast.Compare) and var in norm(n.left) and norm(n.left).endswith('.encoding'):
                for c in n.comparators:
                    for x in ([c] if not isinstance(c, (ast.List, ast.Tuple)) else c.elts):
                        d = dotted(x)
                        if d and '.Encoding.' in d:
                            out.add(d.split('.')[-1])
        return out
    r1 = accepted(core.func('read_data_page'), 'daph')
    r2 = accepted(core.func('read_data_page_v2'), 'data_header2')
    ctx.floor('R1.3', 'encodings accepted by the v1 reader', len(r1), 4)
    ctx.floor('R1.3', 'encodings accepted by the v2 reader', len(r2), 4)
    for e in sorted(e_w):
        ctx.ob('R1.3', 'core:both-page-readers-accept-emitted-encoding:%s' % e, e in r1 and e in r2,
               'v1 accepts %s; v2 accepts %s' % (sorted(r1), sorted(r2)), 'fastparquet/core.py:1')
    ctx.ob('R1.3', 'core:v1-and-v2-readers-accept-the-same-encodings', r1 == r2, 'v1 %s | v2 %s' % (sorted(r1), sorted(r2)), 'fastparquet/core.py:1')
    ctx.ob('R1.3', 'writer.encode:emits-PLAIN-and-RLE_DICTIONARY', e_w == {'PLAIN', 'RLE_DICTIONARY'}, str(sorted(e_w)), wloc)
    v2 = core.func('read_data_page_v2')
    firsts = [s for s in v2.body if isinstance(s, ast.If)]
    first = firsts[0] if firsts else None
    ctx.ob('R1.3', 'core.read_data_page_v2:unknown-encoding-refused-up-front',
           first is not None and 'not in' in norm(first.test) and isinstance(first.body[0], ast.Raise), '', core.loc(v2))

    # R1.4
    ie = wr.func('infer_object_encoding')
    encs = None
    for n in ast.walk(ie):
        if isinstance(n, ast.Assign) and norm(n.targets[0]) == 'encs' and isinstance(n.value, ast.Dict):
            encs = {v.value for v in n.value.values if isinstance(v, ast.Constant)}
    if encs is None:
        raise AnalysisError('R1.4: encs table of infer_object_encoding not found')
    handled = set()
    arms4 = {}
    for n in ast.walk(ft):
        if isinstance(n, ast.If) and 'object_encoding' in norm(n.test):
            lits = [c.value for c in ast.walk(n.test) if isinstance(c, ast.Constant) and (isinstance(c.value, str) or c.value is None)]
            for l in lits:
                if l != 'infer':
                    handled.add(l)
                    cts = [dotted(x).split('.')[-1] for x in ast.walk(ast.Module(body=n.body, type_ignores=[]))
                           if isinstance(x, ast.Attribute) and (dotted(x) or '').startswith('parquet_thrift.ConvertedType.')]
                    arms4[l] = cts[0] if cts else None
    for e in sorted(encs | {'utf8'}):
        ctx.ob('R1.4', 'writer.find_type:arm-for-inferable-object-encoding:%s' % e, e in handled,
               'infer_object_encoding can return %r' % e, wr.loc(ft))
    cvw = wr.func('convert')
    obj_arm = [s for s in iter_child_stmts(cvw.body) if isinstance(s, ast.If) and norm(s.test) == "dtype == 'O'"]
    oh = set()
    if obj_arm:
        for n in ast.walk(ast.Module(body=obj_arm[0].body, type_ignores=[])):
            if isinstance(n, ast.Compare) and norm(n.left) == 'converted_type':
                c = n.comparators[0]
                oh.add(None if isinstance(c, ast.Constant) and c.value is None else (dotted(c) or '').split('.')[-1])
    for e, ctname in sorted(arms4.items(), key=lambda kv: str(kv[0])):
        ctx.ob('R1.4', 'writer.convert:object-branch-handles-converted-type-of:%s' % e, ctname in oh,
               'object_encoding %r sets converted type %s; convert() handles %s (otherwise `out` is unbound)' % (
                   e, ctname, sorted(map(str, oh))), wr.loc(cvw))
    msg = [s for s in ast.walk(ft) if isinstance(s, ast.Raise) and 'Object encoding' in src(s)]
    ctx.ob('R1.4', 'writer.find_type:unknown-object-encoding-refused', len(msg) == 1, '', wr.loc(ft))

    # R1.5
    need = {('NANOS', 'ns'), ('TIMESTAMP_MICROS', 'us'), ('TIMESTAMP_MILLIS', 'ms'), ('TIMESTAMP_MILLIS', 's')}
    have = set()
    for k in time_factors:
        a, b = k
        have.add((a.name if isinstance(a, Enum) else a, b))
    s = src(ft)
    branch_ok = "'ns' in dtype.str" in s and "'us' in dtype.str" in s
    for k in sorted(need):
        ctx.ob('R1.5', 'writer.time_factors:has-factor-for:%s/%s' % k, k in have,
               'find_type maps datetime64[%s] to %s' % (k[1], k[0]), wloc)
    ctx.ob('R1.5', 'writer.find_type:datetime-unit-selection', branch_ok, 'ns -> logical NANOS, us -> TIMESTAMP_MICROS, else TIMESTAMP_MILLIS', wr.loc(ft))
    for k, v in time_factors.items():
        a, b = k
        nm = a.name if isinstance(a, Enum) else a
        scale = {'s': 1, 'ms': 1000, 'us': 10**6, 'ns': 10**9}
        tgt = {'NANOS': 10**9, 'TIMESTAMP_MICROS': 10**6, 'TIMESTAMP_MILLIS': 1000}.get(nm)
        ok = tgt is not None and isinstance(v, int) and scale[b] * v == tgt if b in scale and tgt and scale[b] <= tgt else \
            (tgt is not None and b in scale and isinstance(v, int) and v == scale[b] // tgt)
        ctx.ob('R1.5', 'writer.time_factors:value-is-the-unit-ratio:%s/%s' % (nm, b), bool(ok),
               'factor %r converts %s ticks into %s ticks' % (v, b, nm), wloc)
        if tgt is not None and b in scale and scale[b] > tgt:
            # the table is only ever *multiplied* with (writer.convert: `values * factor`): an entry from a finer unit
            # to a coarser one needs a division
            cvf = wr.func('convert')
            divides = any(isinstance(x, ast.BinOp) and isinstance(x.op, (ast.FloorDiv, ast.Div)) and norm(x.right) == 'factor'
                          for x in ast.walk(cvf))
            ctx.ob('R1.5', 'writer.time_factors:finer-to-coarser-entry-is-applied-as-a-division:%s/%s' % (nm, b), divides,
                   'entry (%s, %s) = %r is multiplied into the counts; %s ticks into %s ticks needs a division (reached by appending '
                   'datetime64[%s] rows to a column stored as %s)' % (nm, b, v, b, nm, b, nm), wloc)

    # R1.6
    r16(ctx, core)
    # the reader skips the definition levels of its own files when the chunk's null_count is 0, so an exact
    # null tally is a necessary condition of the round trip (shared with C04)
    from . import c04, c02, c03
    c04.r41(ctx, repo['writer'])
    c02.r27(ctx, 'R1.7')
    c03.r39(ctx, 'R1.8')
    from . import c11
    c11.r1110(ctx, 'R1.15')
    c03.r313(ctx, repo['core'], 'R1.12')
    c03.r311(ctx, repo['core'], 'R1.13')
    c03.r322(ctx, repo['core'], 'R1.23')
    c03.r315(ctx, repo['core'], 'R1.16')
    c03.r316(ctx, repo['core'], repo['compression'], 'R1.17')
    from . import callsigs as _cs
    from . import findings3 as _f3
    _f3.read_conversions(ctx, 'R1.28')
    _f3.write_conversions(ctx, 'R1.29')
    _cs.general_rules(ctx, 'R1', ['writer.write', 'writer.write_simple', 'writer.write_multi', 'writer.make_row_group', 'writer.make_part_file', 'writer.partition_on_columns', 'writer.make_metadata', 'writer.write_column', 'core', 'api.ParquetFile.to_pandas', 'api.ParquetFile.read_row_group_file', 'converted_types', 'encoding', 'writer.convert', 'writer.find_type', 'api.ParquetFile.pre_allocate', 'api.ParquetFile._dtypes', 'api._pre_allocate', 'dataframe'])


def r16(ctx, core):
    f = core.func('read_data_page_v2')
    d = [s for s in iter_child_stmts(f.body) if isinstance(s, ast.Assign) and norm(s.targets[0]) == 'into0']
    if len(d) != 1:
        raise AnalysisError('R1.6: definition of into0 not found')
    conj = [norm(x) for x in _conjuncts(d[0].value)]
    discarded = [s for s in iter_child_stmts(f.body) if isinstance(s, ast.Expr) and callee(s.value) == 'convert']
    ctx.floor('R1.6', 'convert() calls whose result is discarded', len(discarded), 2)
    cfg = CFG(f)
    for s in discarded:
        tests = [norm(e.test) for e, fld in cfg.enclosing_tests(s) if isinstance(e, ast.If) and fld == 'body']
        guarded_by_into = any('into0' in t or t.startswith('into ') or 'into and' in t or t == 'into' for t in tests) or \
            any('converts_inplace(se)' in t for t in tests)
        ctx.ob('R1.6', 'core.read_data_page_v2:discarded-convert-only-on-in-place-paths:%s' % norm(s.value)[:50],
               guarded_by_into, 'enclosing tests %s' % tests, core.loc(s))
    ctx.ob('R1.6', 'core.read_data_page_v2:in-place-path-requires-in-place-conversion',
           any('converts_inplace(se)' in c for c in conj), str(conj), core.loc(d[0]))
    ctx.ob('R1.6', 'core.read_data_page_v2:in-place-path-excludes-datetime-and-timedelta-outputs',
           any(re.fullmatch(r"assign\.dtype\.kind not in 'Mm'", c) or c == "assign.dtype.kind not in 'mM'" for c in conj),
           'converts_inplace() is true for time types but their conversion returns a re-typed view/new array whose result '
           'the in-place paths discard: conjuncts %s' % conj, core.loc(d[0]))
    for need in ("assign.dtype.kind != 'O'", 'row_filter is None', 'data_header2.num_nulls == 0', 'max_rep == 0'):
        ctx.ob('R1.6', 'core.read_data_page_v2:in-place-path-requires:%s' % need, need in conj, str(conj), core.loc(d[0]))
    ci = ctx.repo['converted_types'].func('converts_inplace')
    ifs = [s for s in ci.body if isinstance(s, ast.If)]
    ctx.ob('R1.6', 'converted_types.converts_inplace:booleans-never-in-place',
           bool(ifs) and 'se.type == parquet_thrift.Type.BOOLEAN' in norm(ifs[0].test) and norm(ifs[0].body[0]) == 'return False',
           '', 'fastparquet/converted_types.py:1')


def _conjuncts(e):
    if isinstance(e, ast.BoolOp) and isinstance(e.op, ast.And):
        out = []
        for v in e.values:
            out.extend(_conjuncts(v))
        return out
    return [e]


def r11(ctx):
    """R1.1 table composition (also used by C02: the schema annotation must describe the stored values)"""
    repo = ctx.repo
    typemap = module_table(repo, 'writer', 'typemap')
    simple = module_table(repo, 'converted_types', 'simple')
    complex_ = module_table(repo, 'converted_types', 'complex')
    nullable = module_table(repo, 'converted_types', 'nullable')
    pnull = module_table(repo, 'converted_types', 'pandas_nullable')
    decode_tm = module_table(repo, 'encoding', 'DECODE_TYPEMAP')
    revmap = module_table(repo, 'writer', 'revmap')
    pdopt = module_table(repo, 'writer', 'pdoptional_to_numpy_typemap')
    wloc = 'fastparquet/writer.py:32'
    # R1.1
    for d in QUANTIFIER_DTYPES:
        ent = typemap.get(d)
        ctx.ob('R1.1', 'writer.typemap:has-entry:%s' % d, ent is not None, '', wloc)
        if ent is None:
            continue
        pt, ct, width = ent
        back = complex_.get(ct) if ct is not None else simple.get(pt)
        bname = _np_name(back)
        twin = {'boolean': 'bool'}.get(d, d.lower())
        ctx.ob('R1.1', 'tables:reader-dtype-of-writer-dtype:%s' % d, bname == twin,
               '%s is written as (%s, %s); the reader maps that to %s (want %s)' % (d, pt, ct, bname, twin), wloc)
        if d[0].isupper() or d == 'boolean':
            ext = pnull.get(d)
            via = nullable.get(Sym('dtype:' + twin))
            ctx.ob('R1.1', 'tables:nullable-twin-maps-back:%s' % d, ext is not None and ext == via,
                   'pandas_nullable[%r] = %r, nullable[dtype(%s)] = %r' % (d, ext, twin, via), 'fastparquet/converted_types.py:1')
            npdt = pdopt.get(ext)
            ctx.ob('R1.1', 'tables:writer-strips-nullable-to-its-numpy-twin:%s' % d,
                   _np_name(npdt) == twin, 'pdoptional_to_numpy_typemap[%r] = %r' % (ext, npdt), wloc)
        if pt in revmap or pt in decode_tm:
            a, b = _np_name(revmap.get(pt)), _np_name(decode_tm.get(pt))
            ctx.ob('R1.1', 'tables:plain-width-agrees-writer-reader:%s' % d, a == b and a is not None,
                   'writer converts to %s, reader decodes PLAIN as %s' % (a, b), wloc)
            ctx.ob('R1.1', 'tables:plain-width-holds-the-dtype:%s' % d, (_bits(a) or 0) >= (_bits(twin) or 0),
                   '%s stored in %s' % (d, a), wloc)
        ctx.ob('R1.1', 'writer.typemap:declared-bit-width:%s' % d, width == (_bits(twin) or width),
               'width %s' % width, wloc)
    for d in sorted(set(typemap) - set(QUANTIFIER_DTYPES)):
        pt, ct, width = typemap[d]
        ctx.note('R1.1 note: %s (outside the property\'s dtype list) is written as %s and read back as %s' % (
            d, pt, _np_name(simple.get(pt))))



UNIT_OF_BRANCH = {'ns': 'NANOS', 'us': 'MICROS', None: 'MILLIS'}
CONVERTED_OF_UNIT = {'NANOS': None, 'MICROS': 'TIMESTAMP_MICROS', 'MILLIS': 'TIMESTAMP_MILLIS'}


def r12_units(ctx, rule):
    """find_type: in every arm of the datetime branch the logical-type unit, the converted type and the
    resolution the arm is selected for agree (a reader that prefers the logical type and one that only knows
    converted types must scale the same stored integers the same way)"""
    wr = ctx.repo['writer']
    ft = wr.func('find_type')
    arms = 0

    def blocks(stmts):
        yield stmts
        for st in stmts:
            for fld in ('body', 'orelse', 'finalbody'):
                sub = getattr(st, fld, None)
                if isinstance(sub, list) and sub and not isinstance(st, (ast.FunctionDef, ast.ClassDef)):
                    yield from blocks(sub)

    # map block -> selecting test (for `if "ns" in dtype.str` chains)
    sel = {}
    for n in ast.walk(ft):
        if isinstance(n, ast.If):
            m = re.match(r"'(\w+)' in dtype\.str$", norm(n.test))
            if m:
                sel[id(n.body)] = m.group(1)
                if n.orelse and not (len(n.orelse) == 1 and isinstance(n.orelse[0], ast.If)):
                    sel[id(n.orelse)] = None
    for blk in blocks(ft.body):
        lts = [st for st in blk if isinstance(st, ast.Assign) and norm(st.targets[0]) == 'logical_type'
               and not (isinstance(st.value, ast.Constant) and st.value.value is None)]
        for lt in lts:
            units = set(re.findall(r"(NANOS|MICROS|MILLIS)=", src(lt)))
            kinds = set(re.findall(r"\b(TIMESTAMP|TIME)=", src(lt)))
            if len(units) != 1:
                ctx.ob(rule, 'writer.find_type:logical-type-arm-names-one-unit', False, norm(lt)[:80], wr.loc(lt))
                continue
            unit = units.pop()
            arms += 1
            conv = None
            found = False
            for st in blk:
                if isinstance(st, ast.Assign):
                    tg, vl = st.targets[0], st.value
                    if isinstance(tg, ast.Name) and tg.id == 'converted_type':
                        found, conv = True, vl
                    elif isinstance(tg, ast.Tuple) and isinstance(vl, ast.Tuple):
                        for a, b in zip(tg.elts, vl.elts):
                            if isinstance(a, ast.Name) and a.id == 'converted_type':
                                found, conv = True, b
            cname = None
            if found and not (isinstance(conv, ast.Constant) and conv.value is None):
                cname = (dotted(conv) or norm(conv)).split('.')[-1]
            want = CONVERTED_OF_UNIT[unit]
            if 'TIME' in kinds and 'TIMESTAMP' not in kinds and want:
                want = want.replace('TIMESTAMP', 'TIME')
            ctx.ob(rule, 'writer.find_type:logical-unit-%s-agrees-with-converted-type' % unit, found and cname == want,
                   'arm stores logical unit %s with converted type %s (expected %s): readers that use the logical type and '
                   'readers that use the converted type must scale the same integers alike' % (unit, cname, want), wr.loc(lt))
            if id(blk) in sel:
                ctx.ob(rule, 'writer.find_type:logical-unit-%s-agrees-with-selected-resolution' % unit,
                       UNIT_OF_BRANCH.get(sel[id(blk)]) == unit,
                       'arm selected for resolution %r stores unit %s; the integers written keep the column\'s own resolution'
                       % (sel[id(blk)] or 'coarser than us', unit), wr.loc(lt))
    ctx.floor(rule, 'find_type arms with a logical time unit', arms, 3)


def r110(ctx, rule='R1.10'):
    """core.read_col, pages that carry definition levels: every non-object output gets its missing-value marker at
    the null positions of every page (category codes get -1: code arrays of index levels are not pre-filled)"""
    core = ctx.repo['core']
    f = core.func('read_col')
    cfg = CFG(f)
    marks = [st for st in iter_child_stmts(f.body) if isinstance(st, ast.Assign) and isinstance(st.targets[0], ast.Subscript)
             and isinstance(st.value, ast.Name) and 'max_defi' in norm(st.targets[0].slice) and '!=' in norm(st.targets[0].slice)]
    ctx.ob(rule, 'core.read_col:null-marker-store-present', len(marks) == 1, str([norm(m) for m in marks]), core.loc(f))
    if len(marks) != 1:
        return
    mk = marks[0]
    tests = [(e, fld) for e, fld in cfg.enclosing_tests(mk) if isinstance(e, ast.If)]
    inner = tests[-1][0]
    t = inner.test
    ok = isinstance(t, ast.Compare) and len(t.ops) == 1 and isinstance(t.ops[0], ast.NotEq) and norm(t.left).endswith('.dtype.kind') \
        and isinstance(t.comparators[0], ast.Constant) and t.comparators[0].value == 'O'
    ctx.ob(rule, 'core.read_col:null-marker-written-for-every-non-object-output', ok,
           'guard `%s`: any further condition (e.g. on use_cat) leaves the null positions of that output unwritten; only '
           'data-column categoricals are pre-filled with -1' % norm(t), core.loc(inner))
    marker = mk.value.id
    defs = [st for st in iter_child_stmts(f.body) if isinstance(st, ast.Assign) and norm(st.targets[0]) == marker]
    cat = []
    for d in defs:
        enc = [(norm(e.test), fld) for e, fld in cfg.enclosing_tests(d) if isinstance(e, ast.If)]
        if enc and enc[0] == ('use_cat', 'body'):
            cat.append(d)
    ok = len(cat) == 1 and isinstance(cat[0].value, (ast.UnaryOp, ast.Constant)) and norm(cat[0].value) == '-1'
    ctx.ob(rule, 'core.read_col:category-codes-use-null-code--1', ok,
           '%s under `if use_cat`: %s' % (marker, [norm(c) for c in cat] or 'no definition'), core.loc(cat[0]) if cat else core.loc(f))
    kinds = {}
    for d in defs:
        if d in cat:
            continue
        enc = [norm(e.test) for e, fld in cfg.enclosing_tests(d) if isinstance(e, ast.If) and fld == 'body']
        encn = [e.test for e, fld in cfg.enclosing_tests(d) if isinstance(e, ast.If) and fld == 'body']
        kinds[norm(d.value)] = ''.join(sorted(c.value for c in ast.walk(encn[-1]) if isinstance(c, ast.Constant) and isinstance(c.value, str))) \
            if encn and '.dtype.kind' in norm(encn[-1]) else None
    want = {'pd.NA': 'biu', 'np.nan': 'f', "assign.dtype.type('NaT')": 'Mm'}
    for v, g in want.items():
        ctx.ob(rule, 'core.read_col:marker-%s-for-its-dtype-kinds' % v, kinds.get(v) == g,
               'selected for dtype kinds %r (expected %r)' % (kinds.get(v), g), core.loc(f))


def r19_floored(ctx, rule='R1.9'):
    """a quotient taken with floor division must be paired with the floored remainder (`%` / np.mod / np.remainder):
    fmod / truncating remainders disagree with `//` for negative operands (timestamps before the epoch)"""
    n = 0
    for mname in ('writer', 'converted_types', 'encoding', 'core', 'util', 'dataframe', 'api'):
        m = ctx.repo[mname]
        for q, f in m.funcs.items():
            divs = {norm(x.right) for x in walk_no_nested(f) if isinstance(x, ast.BinOp) and isinstance(x.op, ast.FloorDiv)}
            mods = [x for x in walk_no_nested(f) if isinstance(x, ast.BinOp) and isinstance(x.op, ast.Mod) and not isinstance(x.left, ast.Constant)]
            n += len([x for x in mods if norm(x.right) in divs])
            for c in walk_no_nested(f):
                if isinstance(c, ast.Call) and (callee(c) or '').split('.')[-1] in ('fmod', 'trunc_divide') and len(c.args) == 2:
                    ctx.ob(rule, '%s.%s:remainder-is-floored-like-its-quotient:%s' % (mname, q, norm(c)[:40]),
                           norm(c.args[1]) not in divs, '`%s` next to `// %s`' % (norm(c), norm(c.args[1])), m.loc(c))
    wr = ctx.repo['writer']
    # tick counts are integers: scaling them down is a floor division (true division goes through float64, which
    # cannot hold counts beyond 2**53 exactly)
    for q in ('time_shift', 'convert'):
        g = wr.func(q)
        for x in walk_no_nested(g):
            if isinstance(x, ast.BinOp) and isinstance(x.op, ast.Div) and ("view('int64')" in norm(x.left) or norm(x.right) == 'factor'):
                ctx.ob(rule, 'writer.%s:tick-counts-scaled-with-integer-division:%s' % (q, norm(x)[:40]), False,
                       '`%s`: int64 counts divided through float64 lose the low bits of long durations' % norm(x), wr.loc(x))
    ts = wr.func('time_shift')
    ctx.ob(rule, 'writer.time_shift:scales-by-floor-division', any(isinstance(x, ast.BinOp) and isinstance(x.op, ast.FloorDiv) and norm(x.right) == 'factor'
                                                                     for x in walk_no_nested(ts)), '', wr.loc(ts))
    f = wr.func('convert')
    pairs = [x for x in walk_no_nested(f) if isinstance(x, ast.BinOp) and isinstance(x.op, ast.Mod) and norm(x.right) == 'ns_per_day']
    quos = [x for x in walk_no_nested(f) if isinstance(x, ast.BinOp) and isinstance(x.op, ast.FloorDiv) and norm(x.right) == 'ns_per_day']
    ctx.ob(rule, 'writer.convert:int96-day-and-nanoseconds-are-a-floored-quotient/remainder-pair',
           len(pairs) == 1 and len(quos) >= 1 and norm(pairs[0].left) == norm(quos[0].left),
           'day = x // ns_per_day, ns = x %% ns_per_day over the same x: %s / %s' % ([norm(x) for x in quos][:2], [norm(x) for x in pairs][:2]), wr.loc(f))


def _ctype_members(ct_mod, cmp):
    """converted types a test `ctype == X` / `ctype in (X, Y)` / `ctype in <module-level collection>` selects"""
    if not (isinstance(cmp, ast.Compare) and len(cmp.ops) == 1 and isinstance(cmp.ops[0], (ast.Eq, ast.In))):
        return []
    c = cmp.comparators[0]
    if isinstance(c, ast.Name):
        vals = [v for v in ct_mod.assigns.get(c.id, []) if isinstance(v, (ast.Set, ast.Tuple, ast.List))]
        c = vals[-1] if vals else c
    elts = c.elts if isinstance(c, (ast.Set, ast.Tuple, ast.List)) else [c]
    out = []
    for e in elts:
        d = dotted(e) if isinstance(e, ast.Attribute) else None
        if d and '.ConvertedType.' in d:
            out.append(d.split('.')[-1])
    return out


INT_ANNOTATIONS = ('UINT_8', 'UINT_16', 'UINT_32', 'UINT_64', 'INT_8', 'INT_16', 'INT_32', 'INT_64')


def r126(ctx, rule='R1.26'):
    """converted_types.convert, integer annotations: whatever leaves an arm that handles UINT_n / INT_n has the dtype the
    `complex` table promises for that annotation - every return of the arm casts (astype / view) to it.  Returning the
    stored array as it is, is right only for the annotation whose dtype *is* the storage dtype; "same width" is not
    "same type" (UINT_32 is stored in int32)."""
    ct_mod = ctx.repo['converted_types']
    cv = ct_mod.func('convert')
    complex_ = module_table(ctx.repo, 'converted_types', 'complex')
    want = {k.name: v.text.split(':', 1)[1] for k, v in complex_.items() if hasattr(k, 'name') and hasattr(v, 'text') and v.text.startswith('dtype:')}
    n = 0
    for st in ast.walk(cv):
        if not isinstance(st, ast.If):
            continue
        cmps = [x for x in ast.walk(st.test) if isinstance(x, ast.Compare) and isinstance(x.left, ast.Name) and x.left.id == 'ctype']
        members = [m_ for x in cmps for m_ in _ctype_members(ct_mod, x) if m_ in INT_ANNOTATIONS]
        if not members:
            continue
        defs = {norm(a.targets[0]): a.value for a in ast.walk(ast.Module(body=st.body, type_ignores=[])) if isinstance(a, ast.Assign) and len(a.targets) == 1}
        rets = [r for b_ in st.body for r in ast.walk(b_) if isinstance(r, ast.Return)]
        for mem in members:
            n += 1
            bad = []
            for r in rets:
                v = r.value
                ok = False
                if isinstance(v, ast.Call) and isinstance(v.func, ast.Attribute) and v.func.attr in ('astype', 'view') and v.args:
                    a0 = v.args[0]
                    if isinstance(a0, ast.Name) and norm(a0) in defs:
                        a0 = defs[norm(a0)]
                    t = norm(a0)
                    if t in ('complex[ctype]', 'typemap(se)', 'simple.get(se.type)'):
                        ok = t == 'complex[ctype]'
                    else:
                        t = t.replace('np.', '').replace("'", '').replace('dtype(', '').rstrip(')')
                        ok = t == want.get(mem)
                if not ok:
                    bad.append(norm(r)[:50])
            ctx.ob(rule, 'converted_types.convert:%s-leaves-with-the-annotated-dtype' % mem, bool(rets) and not bad,
                   'annotation %s promises dtype %s (converted_types.complex); the arm returns %s' % (mem, want.get(mem), bad or 'nothing'),
                   ct_mod.loc(st))
    ctx.floor(rule, 'integer annotation arms of converted_types.convert', n, 8)


def r127(ctx, rule='R1.27'):
    """the dict of output views holds the columns and, next to them, the internal label entries `<column>-catdef`.  Code
    that treats the two kinds differently must tell them apart by more than the suffix of the key - a user's column may
    be called `x-catdef` (known finding K01c: api.to_pandas does not slice such a column per row group,
    core.read_row_group_arrays leaves it out of the columns to read)"""
    n = 0
    for mn, q in (('api', 'ParquetFile.to_pandas'), ('core', 'read_row_group_arrays')):
        m = ctx.repo[mn]
        f = m.func(q)
        for c in ast.walk(f):
            if isinstance(c, ast.Call) and isinstance(c.func, ast.Attribute) and c.func.attr == 'endswith' and c.args \
                    and isinstance(c.args[0], ast.Constant) and c.args[0].value == '-catdef':
                n += 1
                # an accompanying test of the value's kind (isinstance ...) in the same expression would do
                par = [x for x in ast.walk(f) if isinstance(x, (ast.BoolOp, ast.IfExp)) and any(y is c for y in ast.walk(x))]
                typed = any('isinstance(' in norm(x) for x in par)
                ctx.ob(rule, '%s.%s:label-entries-told-from-columns-by-more-than-a-name-suffix' % (mn, q), typed,
                       '`%s` decides alone whether an entry of the views is a column' % norm(c), m.loc(c))
    ctx.floor(rule, 'suffix tests on view keys', n, 2)


def r114(ctx, rule='R1.14'):
    """writer.convert, datetimes: (a) the INT96 arm splits *nanoseconds* into day and nanosecond-of-day, so its
    operand must be the column brought to nanosecond resolution - the raw int64 view counts the column's own unit;
    (b) an arm that scales the raw counts by a factor restores the NaT sentinel afterwards (NaT takes part in the
    multiplication whenever nulls were not split off)"""
    wr = ctx.repo['writer']
    f = wr.func('convert')
    cfg = CFG(f)
    arm = [st for st in iter_child_stmts(f.body) if isinstance(st, ast.If) and 'INT96' in norm(st.test) and "dtype.kind == 'M'" in norm(st.test)]
    ctx.ob(rule, 'writer.convert:INT96-datetime-arm-present', len(arm) == 1, '', wr.loc(f))
    if len(arm) == 1:
        body = arm[0].body
        quos = [x for st in body for x in ast.walk(st) if isinstance(x, ast.BinOp) and isinstance(x.op, (ast.FloorDiv, ast.Mod)) and norm(x.right) == 'ns_per_day']
        ctx.floor(rule, 'day / nanosecond split operations', len(quos), 1)
        defs = {norm(st.targets[0]): st.value for st in body if isinstance(st, ast.Assign) and len(st.targets) == 1}
        for x in quos:
            e = x.left
            seen = 0
            while isinstance(e, ast.Name) and norm(e) in defs and seen < 4:
                e = defs[norm(e)]
                seen += 1
            t = norm(e)
            in_ns = ("astype('M8[ns]')" in t or "astype('datetime64[ns]')" in t) and t.endswith(".view('int64')")
            guarded_ns = any("'ns'" in norm(e2.test) and 'dtype' in norm(e2.test) for e2, fld in cfg.enclosing_tests(arm[0].body[0]) if isinstance(e2, ast.If)) \
                or "'ns'" in norm(arm[0].test)
            ctx.ob(rule, 'writer.convert:INT96-split-operand-is-in-nanoseconds:%s' % type(x.op).__name__, in_ns or guarded_ns,
                   '`%s` with operand `%s`: ns_per_day is a count of nanoseconds, the raw int64 view of a datetime64[s|ms|us] '
                   'column is not' % (norm(x)[:60], t[:80]), wr.loc(x))
    # (b) scaling arms
    n = 0
    for st in iter_child_stmts(f.body):
        if isinstance(st, ast.Assign) and isinstance(st.value, ast.BinOp) and isinstance(st.value.op, ast.Mult) \
                and (norm(st.value.right) == 'factor' or norm(st.value.left).endswith(".view('int64')")):
            n += 1
            out = norm(st.targets[0])
            operand = norm(st.value.left)
            blk = None
            for b in _all_blocks(f.body):
                if any(x is st for x in b):
                    blk = b
            after = blk[[i for i, x in enumerate(blk) if x is st][0] + 1:] if blk else []
            restored = False
            for a in after:
                for x in ast.walk(a):
                    if isinstance(x, ast.Assign) and isinstance(x.targets[0], ast.Subscript) and norm(x.targets[0].value) == out \
                            and norm(x.value) == 'nat' and 'nat' in norm(x.targets[0].slice) and operand.split('.')[0] in norm(x.targets[0].slice):
                        restored = True
            ctx.ob(rule, 'writer.convert:NaT-restored-after-scaling:%s' % norm(st)[:40], restored,
                   '`%s`: NaT (int64 min) times a factor other than 1 wraps (to 0 for 1000); the sentinel must be put back '
                   'where the input held it' % norm(st), wr.loc(st))
    ctx.floor(rule, 'datetime scaling sites in writer.convert', n, 1)


def _all_blocks(stmts):
    yield stmts
    for st in stmts:
        if isinstance(st, (ast.FunctionDef, ast.AsyncFunctionDef, ast.ClassDef)):
            continue
        for fld in ('body', 'orelse', 'finalbody'):
            sub = getattr(st, fld, None)
            if isinstance(sub, list) and sub:
                yield from _all_blocks(sub)
        for h in getattr(st, 'handlers', []) or []:
            yield from _all_blocks(h.body)


def r119_views(ctx, rule='R1.19'):
    """dataframe.empty: every array registered in `views` (the buffers the readers fill) is the storage of the frame
    itself.  For the row index this needs an index constructor that does not copy: either copy=False is passed, or
    the registered array is re-derived from the constructed index (`d = index._data...`)"""
    m = ctx.repo['dataframe']
    f = m.func('empty')
    n = 0
    for blk in _all_blocks(f.body):
        for i, st in enumerate(blk):
            if not (isinstance(st, ast.Assign) and norm(st.targets[0]) == 'index' and isinstance(st.value, ast.Call)):
                continue
            c = st.value
            inner = c
            # DatetimeIndex(d, tz=...).tz_convert(...): the constructor is the innermost call
            while isinstance(inner.func, ast.Attribute) and isinstance(inner.func.value, ast.Call):
                inner = inner.func.value
            name = callee(inner) or ''
            if name.split('.')[-1] not in ('Index', 'DatetimeIndex') or not inner.args or not isinstance(inner.args[0], ast.Name):
                continue
            arr = inner.args[0].id
            # is that array registered as a view afterwards?
            later = [x for b2 in _all_blocks(f.body) for x in b2 if isinstance(x, ast.Assign) and norm(x.targets[0]).startswith('views[') and norm(x.value) == arr]
            if not later:
                continue
            n += 1
            cp = [k for k in inner.keywords if k.arg == 'copy']
            nocopy = bool(cp) and isinstance(cp[0].value, ast.Constant) and cp[0].value.value is False
            rederived = any(isinstance(x, ast.Assign) and norm(x.targets[0]) == arr and 'index.' in norm(x.value) for x in blk[i + 1:])
            # a sibling assignment in the enclosing block (after an if/else that built the index) also counts
            if not rederived:
                for b2 in _all_blocks(f.body):
                    for j, x in enumerate(b2):
                        if any(y is st for y in ast.walk(x)):
                            rederived = rederived or any(isinstance(z, ast.Assign) and norm(z.targets[0]) == arr and 'index.' in norm(z.value) for z in b2[j + 1:])
            ctx.ob(rule, 'dataframe.empty:registered-index-buffer-is-the-index-storage:%s' % norm(inner)[:40], nocopy or rederived,
                   '`%s` then `views[...] = %s`: the constructor may copy its input (it does, by default, in current pandas); '
                   'what the readers write into %s then never reaches the index' % (norm(st)[:70], arr, arr), m.loc(st))
    ctx.floor(rule, 'index constructions whose input is registered as a view', n, 2)
    # a registered view keeps the row dimension: dropping "every dimension of length one" also drops the row dimension
    # of a one-row allocation, and the readers then cannot index the view
    k = 0
    for c in ast.walk(f):
        if isinstance(c, ast.Call) and isinstance(c.func, ast.Attribute) and c.func.attr == 'squeeze':
            k += 1
            ctx.ob(rule, 'dataframe.empty:squeeze-names-the-dimension-it-drops:%s' % norm(c.func.value)[:30],
                   bool(c.args) or any(kw.arg == 'axis' for kw in c.keywords),
                   '`%s` removes every axis of length one; for an allocation of exactly one row that includes the row axis '
                   '(0-dimensional view, IndexError when a one-row row group is read)' % norm(c)[:50], m.loc(c))
    ctx.note('%s: squeeze calls in dataframe.empty: %d' % (rule, k))


def r121(ctx, rule='R1.21'):
    """(a) util.reset_row_idx: a MultiIndex level becomes a column through DataFrame.assign, which replaces an existing
    column of that name - the level names are checked against the columns first (a plain index goes through
    reset_index, which refuses by itself); (b) writer.convert, TIME_MICROS: every resolution other than ns is brought to
    microseconds, not stored raw; (c) writer.write_multi: no part file is opened for a chunk without rows"""
    ut = ctx.repo['util']
    f = ut.func('reset_row_idx')
    loops = [x for x in walk_no_nested(f) if isinstance(x, ast.For) and 'data.index.names' in norm(x.iter)]
    ok = False
    if len(loops) == 1:
        body = loops[0].body
        chk = [i for i, st in enumerate(body) if isinstance(st, ast.If) and 'data.columns' in norm(st.test) and any(isinstance(r, ast.Raise) for r in st.body)]
        asg = [i for i, st in enumerate(body) if 'data.assign(' in norm(st)]
        ok = bool(chk) and bool(asg) and chk[0] < asg[0]
    ctx.ob(rule, 'util.reset_row_idx:index-level-never-replaces-a-column', ok,
           'assign(**{name: ...}) silently overwrites a column called like the level', ut.loc(f))
    wr = ctx.repo['writer']
    g = wr.func('convert')
    arm = [st for st in walk_no_nested(g) if isinstance(st, ast.If) and 'TIME_MICROS' in norm(st.test)]
    ok = False
    d = 'TIME_MICROS arm not found'
    if arm:
        inner = [st for st in arm[0].body if isinstance(st, ast.If)]
        if inner:
            other = inner[0].orelse
            d = '; '.join(norm(x) for x in other)[:120]
            ok = any("astype('m8[us]')" in norm(x) or "astype('timedelta64[us]')" in norm(x) for x in other)
    ctx.ob(rule, 'writer.convert:timedelta-of-any-resolution-scaled-to-microseconds', ok,
           'non-ns arm: %s - raw counts of a s / ms column are not microseconds' % d, wr.loc(arm[0]) if arm else wr.loc(g))
    h = wr.func('write_multi')
    cfg = CFG(h)
    opens = [c for c in walk_no_nested(h) if isinstance(c, ast.Call) and callee(c) == 'open_with' and len(c.args) >= 2 and norm(c.args[1]) == "'wb'"]
    ctx.floor(rule, 'part files opened by write_multi', len(opens), 1)
    for c in opens:
        st = None
        for nd in cfg.nodes:
            if nd.stmt is not None and any(y is c for y in ast.walk(nd.stmt)) and isinstance(nd.stmt, ast.With):
                st = nd.stmt
        blk = None
        for b in _all_blocks(h.body):
            if st is not None and any(x is st for x in b):
                blk = b
        pre = blk[:[i for i, x in enumerate(blk) if x is st][0]] if blk else []
        ok = any(isinstance(x, ast.If) and 'len(row_group)' in norm(x.test) and any(isinstance(y, ast.Continue) for y in x.body) for x in pre)
        ctx.ob(rule, 'writer.write_multi:no-part-file-for-an-empty-chunk', ok,
               'make_part_file returns None for an empty frame; opening the part first leaves a 0-byte file and fails on rg.columns', wr.loc(c))


def r122(ctx, rule='R1.22'):
    """iter_dataframe: an explicit list of row group offsets must cover the frame exactly once (start at 0, strictly
    increasing); anything else is refused instead of dropping or repeating rows"""
    wr = ctx.repo['writer']
    f = wr.func('iter_dataframe')
    raises = [r for r in walk_no_nested(f) if isinstance(r, ast.Raise)]
    cfg = CFG(f)
    ok = False
    for r in raises:
        tests = ' '.join(norm(e.test) for e, fld in cfg.enclosing_tests(r) if isinstance(e, ast.If))
        if '[0]' in tests and 'sorted(' in tests:
            ok = True
    ctx.ob(rule, 'writer.iter_dataframe:offsets-must-start-at-zero-and-increase', ok,
           'rows before the first offset are not in any chunk; offsets out of order put rows into two chunks', wr.loc(f))


def r124(ctx, rule='R1.24'):
    """an object column cast to an integer type (the encoding was guessed from a sample) is compared with its values
    afterwards: int() of a float drops the fraction silently"""
    wr = ctx.repo['writer']
    n = 0
    for q in ('write_column', 'convert'):
        f = wr.func(q)
        # accepted forms: the cast compared with the values as floats, or - stronger, also refusing text that int() /
        # bool() would parse - with the original objects themselves
        checks = [x for x in walk_no_nested(f) if isinstance(x, ast.If) and '!=' in norm(x.test) and any(isinstance(r, ast.Raise) for r in x.body)
                  and ("astype('float64')" in norm(x.test) or 'values.values != data.values' in norm(x.test) or 'data.values != out' in norm(x.test))]
        n += len(checks)
        ctx.ob(rule, 'writer.%s:integer-cast-of-object-values-verified' % q, len(checks) >= 1,
               'object values cast with astype(int*) without comparing back: 3.5 becomes 3', wr.loc(f))
        for x in checks:
            partial = [y for y in ast.walk(x.test) if isinstance(y, ast.Subscript) or (isinstance(y, ast.Attribute) and y.attr in ('iloc', 'head', 'tail'))]
            # (leaving the infinities out of the comparison is harmless where a range test follows that converts the
            # extremes with int(): int(inf) raises)
            if partial and all(isinstance(y, ast.Subscript) and norm(y.slice) in ('~np.isinf(data.values)', '~np.isinf(values)') for y in partial) \
                    and any(isinstance(z, ast.Call) and norm(z.func) == 'int' and 'data.values.max()' in norm(z) for z in ast.walk(f)):
                partial = []
            ctx.ob(rule, 'writer.%s:every-value-of-the-cast-is-compared' % q, not partial,
                   '`%s` looks at part of the values only; the guess that picked the integer encoding is not made on append nor '
                   'for later row groups' % norm(x.test)[:100], wr.loc(x))


def r125(ctx, rule='R1.25'):
    """converted_types.converts_inplace promises that convert() hands back (a view of) the array it was given - the v2
    reader then discards convert()'s result.  Its logical-type arm holds for TIMESTAMP only (viewed as datetime64); any
    other logical type (DECIMAL ...) is converted into a new array.  And _dtypes never hands the pandas-metadata type
    string to np.dtype (zone-aware spellings are not numpy dtypes)"""
    ct = ctx.repo['converted_types']
    f = ct.func('converts_inplace')
    arms = [x for x in f.body if isinstance(x, ast.If) and 'logicalType' in norm(x.test)]
    ok = len(arms) == 1 and 'TIMESTAMP' in norm(arms[0].test) and [norm(s) for s in arms[0].body] == ['return True']
    if not ok and len(arms) == 1 and [norm(s) for s in arms[0].body] == ['return True']:
        # a wider promise (any logical type) is harmless as long as the only consumer, the v2 reader, also insists on the
        # same kind of stored and output values before it copies in place (then no converting annotation gets there:
        # decimals come out as floats, narrower integers differ in width, times are excluded by kind)
        rd = ctx.repo['core'].func('read_data_page_v2')
        ok = any(isinstance(st, ast.If) and 'see' in norm(st.test) and '.kind' in norm(st.test)
                 and any(isinstance(x, ast.Assign) and norm(x) == 'see = False' for x in st.body) for st in walk_no_nested(rd))
    ctx.ob(rule, 'converted_types.converts_inplace:logical-type-arm-is-for-timestamps-only', ok,
           '`if %s: return True`' % (norm(arms[0].test) if arms else '?'), ct.loc(arms[0]) if arms else ct.loc(f))
    ctx.ob(rule, 'converted_types.converts_inplace:everything-else-is-not-in-place', norm(f.body[-1]) == 'return False', norm(f.body[-1]), ct.loc(f))
    cv = ct.func('convert')
    lt = [x for x in ast.walk(cv) if isinstance(x, ast.If) and 'logicalType.TIMESTAMP is not None' in norm(x.test)]
    ctx.ob(rule, 'converted_types.convert:logical-timestamp-arm-returns-a-view', len(lt) == 1 and any(isinstance(r, ast.Return) and '.view(' in norm(r) for r in lt[0].body), '', ct.loc(cv))
    api = ctx.repo['api']
    g = api.func('ParquetFile._dtypes')
    bad = [c for c in walk_no_nested(g) if isinstance(c, ast.Call) and callee(c) == 'np.dtype' and c.args and norm(c.args[0]) in ('nt', 'tt', "md[col]['numpy_type']")]
    ctx.ob(rule, 'api._dtypes:metadata-type-string-not-parsed-by-numpy', not bad,
           '`%s`: "datetime64[s, UTC]" is not a numpy dtype; the unit of zone-aware columns would silently fall back to the schema\'s' % (norm(bad[0]) if bad else ''),
           api.loc(bad[0]) if bad else api.loc(g))
