"""C02 - written files are structurally valid Parquet.

R2.1 length provenance in writer.write_column (page and chunk size fields are computed
     from exactly the bytes written, by value-numbered path walking);
R2.2 footer framing typestate at every footer-writing site;
R2.3 i32 markers / field names at every construction site vs the IDL;
R2.4 encodings / codec bookkeeping.
"""
import ast

from ..model import (AnalysisError, callee, norm, src, walk_no_nested, kwarg, dotted,
                     const_value, iter_child_stmts)
from ..cfg import CFG
from ..symwalk import Walker, State, Lin, Obj
from . import thrift_sites, meta_rules


def run(ctx):
    ctx.technique = ('value-numbered path walk for size-field provenance, CFG typestate for footer '
                     'framing, table agreement of construction sites against the IDL')
    ctx.explanation = (
        'Decides: (R2.1) in write_column, on every intra-iteration path, compressed_page_size / '
        'uncompressed_page_size / the diff increment / num_values / definition_levels_byte_length equal '
        'the lengths of exactly the buffers written after the header (same variable versions), and the '
        'chunk offsets and totals are f.tell() values taken at the right typestate; (R2.2) every footer '
        'writer emits [magic] ... thrift, 4-byte little-endian length of exactly that thrift, magic; '
        '(R2.3) every metadata construction site uses IDL field names and marks exactly the 32-bit '
        'integer fields, and no Python bool is stored into an integer field; (R2.4) encodings, '
        'encoding_stats and codec recorded for a chunk are those the page loop used.')
    ctx.not_decided = ('bit-level content of levels and values, and decoding by an independent '
                       'implementation (no other Parquet reader exists in the sandbox)')
    ctx.trusted_base += ['engine/symwalk.py (value numbering)', 'engine/idl.py']
    r21(ctx)
    r22(ctx)
    thrift_sites.check_sites(ctx, 'R2.3')
    r24(ctx)
    n = meta_rules.rowcount_rule(ctx, 'R2.5', only_modules={'writer', 'api', 'util'})
    ctx.floor('R2.5', 'row_groups/num_rows sites in writer', n, 4)
    n = meta_rules.filepath_rule(ctx, 'R2.6')
    meta_rules.filepath_text_rule(ctx, 'R2.6')
    ctx.floor('R2.6', 'file_path stores', n, 5)
    # shared rules: the null count of a chunk (C04), the in-place footer rewrite (C16) and the schema
    # annotation of every dtype (C01) are all part of "the metadata describes exactly the bytes present"
    from . import c04, c16, c01
    c04.r41(ctx, ctx.repo['writer'])
    c16.r161(ctx, ctx.repo['writer'])
    c01.r11(ctx)
    c01.r12_units(ctx, 'R2.8')
    r29(ctx)
    r211(ctx)
    from . import simple_append as _sa
    _sa.restore_rule(ctx, 'R2.13')
    r212(ctx)
    r214(ctx)
    _sa.commit_after_loop_rule(ctx, 'R2.15')
    _sa.commit_after_loop_multi_rule(ctx, 'R2.15')   # a footer lists only row groups whose pages were all written
    from . import append_route as _ar
    _ar.fresh_part_rule(ctx, 'R2.16')   # no part file that a summary already describes is written over
    from . import c07 as _c07
    _c07.r712(ctx, 'R2.10')
    r27(ctx)
    from . import callsigs as _cs
    from . import c11 as _c11
    _c11.r113(ctx, ctx.repo['cencoding'])
    _cs.general_rules(ctx, 'R2', ['writer', 'api.ParquetFile.remove_row_groups', 'api.ParquetFile.write_row_groups', 'api.ParquetFile._sort_part_names', 'api.ParquetFile._write_common_metadata', 'util.metadata_from_many'])


# ---------------------------------------------------------------------------
class PageWalker(Walker):
    identity_calls = ('check_32', 'int')
    ctor_prefixes = ('parquet_thrift.',)

    def __init__(self, fvar='f'):
        super().__init__()
        self.fvar = fvar

    def call(self, st, e, c):
        if c == 'compress_data' and e.args:
            v = self.ev(st, e.args[0])
            for a in e.args[1:]:
                self.ev(st, a)
            return st.fresh('compressed', orig=v)
        if c == '%s.write' % self.fvar and len(e.args) == 1:
            v = self.ev(st, e.args[0])
            st.events.append(('write', v, e))
            return st.fresh('nbytes')
        if c == 'write_thrift' and len(e.args) == 2 and isinstance(e.args[0], ast.Name) \
                and e.args[0].id == self.fvar:
            v = self.ev(st, e.args[1])
            st.events.append(('header', v, e))
            return st.fresh('nbytes')
        if c == '%s.tell' % self.fvar:
            v = st.fresh('tell')
            st.events.append(('tell', v, e))
            return Lin({('tell', v.ver): 1})
        if c in ('%s.seek' % self.fvar, '%s.truncate' % self.fvar):
            st.events.append((c.split('.')[1], None, e))
            return st.fresh('pos')
        return None


def _find_page_loop(func):
    for st in func.body:
        if isinstance(st, ast.For):
            txt = src(st)
            if 'write_thrift' in txt and 'PageHeader' in txt:
                return st
    raise AnalysisError('R2.1: page loop of write_column not found')


def _orig_len(v):
    o = v
    while isinstance(o, Obj) and o.orig is not None:
        o = o.orig
    return Lin({('len', repr(o)): 1})


def r21(ctx):
    m = ctx.repo['writer']
    f = m.func('write_column')
    loop = _find_page_loop(f)
    fvar = f.args.args[0].arg
    w = PageWalker(fvar)
    w.max_paths = 400000
    # symbolic loop targets
    st0 = State()
    if isinstance(loop.target, ast.Tuple):
        for t in loop.target.elts:
            st0.env[t.id] = Lin({('iter', t.id): 1})
    st0.env['diff'] = Lin({('acc', 'diff'): 1})
    regions = {}      # page type -> count of (path, region) checked
    checked = set()
    npaths = 0
    for fin in w.walk(loop.body, st0):
        if fin.status == 'raise':
            continue
        npaths += 1
        ev = fin.events
        # split events into regions: header followed by writes
        i = 0
        n = len(ev)
        while i < n:
            if ev[i][0] != 'header':
                if ev[i][0] == 'write':
                    ctx.ob('R2.1', 'writer.write_column:every-write-follows-a-page-header', False,
                           'f.write(%s) is not preceded by a page header on this path' % norm(ev[i][2]),
                           m.loc(ev[i][2]))
                i += 1
                continue
            hdr = ev[i][1]
            hnode = ev[i][2]
            j = i + 1
            writes = []
            augs = []
            while j < n and ev[j][0] != 'header':
                if ev[j][0] == 'write':
                    writes.append(ev[j][1])
                j += 1
            # diff increments belonging to this page: those between the previous header and this one
            k = i - 1
            while k >= 0 and ev[k][0] != 'header':
                if ev[k][0] == 'aug' and ev[k][1] == 'diff':
                    augs.append(ev[k])
                k -= 1
            i = j
            if not (isinstance(hdr, Obj) and hdr.ctor == 'PageHeader' and hdr.fields):
                ctx.ob('R2.1', 'writer.write_column:page-header-is-a-PageHeader-construction', False,
                       'write_thrift(f, %s): cannot see the PageHeader fields' % norm(hnode.args[1]), m.loc(hnode))
                continue
            fields = hdr.fields
            sub = [v for k2, v in fields.items() if k2 in ('data_page_header', 'data_page_header_v2',
                                                           'dictionary_page_header')]
            kind = [k2 for k2 in fields if k2 in ('data_page_header', 'data_page_header_v2',
                                                  'dictionary_page_header')]
            kind = kind[0] if kind else 'unknown'
            regions[kind] = regions.get(kind, 0) + 1
            comp_written = Lin()
            uncomp_written = Lin()
            for v in writes:
                comp_written = comp_written + Lin({('len', repr(v)): 1})
                uncomp_written = uncomp_written + _orig_len(v)
            sig = (kind, repr(fields.get('compressed_page_size')), repr(comp_written),
                   repr(fields.get('uncompressed_page_size')), repr(uncomp_written))
            ok_c = fields.get('compressed_page_size') == comp_written
            ok_u = fields.get('uncompressed_page_size') == uncomp_written
            variant = 'compressed' if uncomp_written != comp_written else 'uncompressed'
            key = 'writer.write_column:%s/%s' % (kind, variant)
            ctx.ob('R2.1', key + ':compressed_page_size==bytes-written', ok_c,
                   'header says %r, payload written after it is %r' % (fields.get('compressed_page_size'), comp_written),
                   m.loc(hnode), nontrivial=sig not in checked)
            ctx.ob('R2.1', key + ':uncompressed_page_size==pre-compression-bytes', ok_u,
                   'header says %r, uncompressed form of the payload is %r' % (
                       fields.get('uncompressed_page_size'), uncomp_written), m.loc(hnode),
                   nontrivial=sig not in checked)
            inc = Lin()
            for a in augs:
                lv = w.as_lin(a[3])
                inc = inc + (lv if a[2] == 'Add' else -lv) if lv is not None else Lin({('opaque', 1): 1})
            ctx.ob('R2.1', key + ':diff-increment==uncompressed-compressed', inc == uncomp_written - comp_written,
                   'diff changes by %r, page contributes %r' % (inc, uncomp_written - comp_written), m.loc(hnode),
                   nontrivial=sig not in checked)
            checked.add(sig)
            # value counts
            if sub and isinstance(sub[0], Obj) and sub[0].fields:
                sf = sub[0].fields
                rows = Lin({('iter', 'row_end'): 1, ('iter', 'row_start'): -1})
                if kind in ('data_page_header', 'data_page_header_v2'):
                    ctx.ob('R2.1', key + ':num_values==row_end-row_start', sf.get('num_values') == rows,
                           'num_values is %r' % (sf.get('num_values'),), m.loc(hnode), nontrivial=False)
                if kind == 'data_page_header_v2':
                    ctx.ob('R2.1', key + ':num_rows==row_end-row_start', sf.get('num_rows') == rows,
                           'num_rows is %r' % (sf.get('num_rows'),), m.loc(hnode), nontrivial=False)
                    first = writes[0] if writes else None
                    dl = sf.get('definition_levels_byte_length')
                    ok = first is not None and dl == Lin({('len', repr(first)): 1})
                    ctx.ob('R2.1', key + ':definition_levels_byte_length==len(first-buffer-written)', ok,
                           'definition_levels_byte_length is %r, first buffer written is %r' % (dl, first),
                           m.loc(hnode), nontrivial=False)
                    ctx.ob('R2.1', key + ':repetition_levels_byte_length==0-and-none-written',
                           sf.get('repetition_levels_byte_length') == Lin(const=0) and len(writes) == 2,
                           'v2 page writes %d buffers' % len(writes), m.loc(hnode), nontrivial=False)
            # dictionary page: data_page_offset = f.tell() directly after the payload
            if kind == 'dictionary_page_header':
                post = [e for e in ev[j - 1:j]]
                tail = ev[ev.index(next(x for x in ev if x[2] is hnode)) + 1:j]
                kinds = [e[0] for e in tail]
                ok = kinds[:2] == ['write', 'tell']
                dpo = fin.env.get('data_page_offset')
                ok = ok and isinstance(dpo, Lin) and len(dpo.terms) == 1 and \
                    list(dpo.terms)[0] == ('tell', tail[1][1].ver)
                ctx.ob('R2.1', 'writer.write_column:dictionary-page:data_page_offset==tell-after-dictionary-payload',
                       ok, 'events after the dictionary header: %s; data_page_offset=%r' % (kinds, dpo),
                       m.loc(hnode), nontrivial=False)
                dpoff = fin.env.get('dict_page_offset')
                ccs = st0.env.get('column_chunk_start', Obj('free:column_chunk_start', 0))
                ctx.ob('R2.1', 'writer.write_column:dictionary-page:dict_page_offset==column_chunk_start',
                       repr(dpoff) == repr(Obj('free:column_chunk_start', 0)),
                       'dict_page_offset is %r' % (dpoff,), m.loc(hnode), nontrivial=False)
    ctx.stat('R2.1 paths through the page loop', npaths)
    ctx.stat('R2.1 page regions per kind', dict(regions))
    for kind in ('dictionary_page_header', 'data_page_header', 'data_page_header_v2'):
        ctx.floor('R2.1', 'regions ' + kind, regions.get(kind, 0), 1)
    # the slice that is encoded is the slice that is counted
    sl = [n for n in iter_child_stmts(loop.body) if isinstance(n, ast.Assign) and 'iloc[row_start:row_end]' in norm(n)]
    ctx.ob('R2.1', 'writer.write_column:page-data==data0.iloc[row_start:row_end]', len(sl) == 1,
           'the page data must be the rows counted in num_values', m.loc(loop))
    tgt = norm(loop.target), norm(loop.iter)
    ctx.ob('R2.1', 'writer.write_column:row-ranges-tile-the-column',
           tgt == ('(row_start, row_end)', 'zip(row_offsets[:-1], row_offsets[1:])'),
           'loop is for %s in %s' % tgt, m.loc(loop))
    ro = [n for n in f.body if isinstance(n, ast.Assign) and norm(n.targets[0]) == 'row_offsets']
    ctx.ob('R2.1', 'writer.write_column:row_offsets-cover-0..len(data0)',
           len(ro) == 1 and norm(ro[0].value) == 'list(range(0, len(data0), rows_per_page)) + [len(data0)]',
           norm(ro[0]) if ro else 'missing', m.loc(ro[0]) if ro else m.loc(f))

    # chunk-level bookkeeping: walk the function with the loop treated as havoc
    cfg = CFG(f)
    ccs = [n for n in f.body if isinstance(n, ast.Assign) and norm(n.targets[0]) == 'column_chunk_start']
    ok = len(ccs) == 1 and norm(ccs[0].value) == '%s.tell()' % fvar
    ctx.ob('R2.1', 'writer.write_column:column_chunk_start==f.tell()-before-any-write', ok and all(
        cfg.dominates(cfg.node_of(ccs[0]), cfg.node_of(s)) for s in iter_child_stmts(f.body)
        if s in cfg.stmt_node and s is not ccs[0] and _touches_file(s, fvar)),
        'column_chunk_start must be taken before the first byte of the chunk is written',
        m.loc(ccs[0]) if ccs else m.loc(f))
    post = f.body[f.body.index(loop) + 1:]
    pw = PageWalker(fvar)
    st = State()
    st.env['column_chunk_start'] = Lin({('tell', 'start'): 1})
    st.env['diff'] = Lin({('acc', 'diff'): 1})
    finals = [s for s in pw.walk(post, st) if s.status in ('run', 'return')]
    nchunk = 0
    for fin in finals:
        cmd = None
        for k, v in fin.env.items():
            if isinstance(v, Obj) and v.ctor == 'ColumnMetaData':
                cmd = v
        if cmd is None:
            continue
        nchunk += 1
        tells = [e for e in fin.events if e[0] == 'tell']
        end = Lin({('tell', tells[0][1].ver): 1}) if tells else None
        tc = cmd.fields.get('total_compressed_size')
        tu = cmd.fields.get('total_uncompressed_size')
        start = Lin({('tell', 'start'): 1})
        okc = end is not None and tc == end - start
        ctx.ob('R2.1', 'writer.write_column:total_compressed_size==tell_end-column_chunk_start', okc,
               'total_compressed_size is %r' % (tc,), m.loc(f), nontrivial=nchunk == 1)
        oku = end is not None and tu == end - start + Lin({('acc', 'diff'): 1})
        ctx.ob('R2.1', 'writer.write_column:total_uncompressed_size==compressed+diff', oku,
               'total_uncompressed_size is %r' % (tu,), m.loc(f), nontrivial=nchunk == 1)
        for fld, var in (('data_page_offset', 'data_page_offset'), ('dictionary_page_offset', 'dict_page_offset')):
            v = cmd.fields.get(fld)
            ctx.ob('R2.1', 'writer.write_column:%s-field-is-variable-%s' % (fld, var),
                   repr(v) == repr(Obj('free:' + var, 0)), '%s=%r' % (fld, v), m.loc(f), nontrivial=nchunk == 1)
        nv = cmd.fields.get('num_values')
        ctx.ob('R2.1', 'writer.write_column:chunk-num_values==len(data0)',
               repr(nv) == repr(Obj('free:tot_rows', 0)) and any(
                   isinstance(n, ast.Assign) and norm(n) == 'tot_rows = len(data0)' for n in f.body),
               'num_values=%r' % (nv,), m.loc(f), nontrivial=nchunk == 1)
    ctx.floor('R2.1', 'ColumnMetaData constructions reached', nchunk, 1)
    init = {norm(n.targets[0]): norm(n.value) for n in f.body[:f.body.index(loop)]
            if isinstance(n, ast.Assign) and len(n.targets) == 1}
    ctx.ob('R2.1', 'writer.write_column:initial-offsets', init.get('data_page_offset') == 'column_chunk_start'
           and init.get('dict_page_offset') == 'None' and init.get('diff') == '0',
           'data_page_offset=%s dict_page_offset=%s diff=%s' % (
               init.get('data_page_offset'), init.get('dict_page_offset'), init.get('diff')), m.loc(f))
    # ColumnChunk.file_offset
    cc = [c for c in ast.walk(f) if isinstance(c, ast.Call) and callee(c) == 'parquet_thrift.ColumnChunk']
    ctx.ob('R2.1', 'writer.write_column:ColumnChunk.file_offset==column_chunk_start',
           len(cc) == 1 and norm(kwarg(cc[0], 'file_offset')) == 'column_chunk_start', '', m.loc(f))
    # row group totals
    mr = m.func('make_row_group')
    rgc = [c for c in ast.walk(mr) if isinstance(c, ast.Call) and callee(c) == 'ThriftObject.from_fields'
           and c.args and const_value(c.args[0]) == 'RowGroup']
    ok = len(rgc) == 1 and norm(kwarg(rgc[0], 'num_rows')) == 'rows' and norm(kwarg(rgc[0], 'columns')) == 'cols' \
        and norm(kwarg(rgc[0], 'total_byte_size')) == 'sum([c.meta_data.total_uncompressed_size for c in cols])'
    ctx.ob('R2.1', 'writer.make_row_group:RowGroup-totals-from-its-own-chunks', ok,
           norm(rgc[0]) if rgc else 'RowGroup construction not found', m.loc(mr))
    ctx.ob('R2.1', 'writer.make_row_group:rows==len(data)',
           any(isinstance(n, ast.Assign) and norm(n) == 'rows = len(data)' for n in mr.body), '', m.loc(mr))


def _touches_file(stmt, fvar):
    if isinstance(stmt, (ast.If, ast.For, ast.While, ast.Try, ast.With)):
        return False
    for c in ast.walk(stmt):
        if isinstance(c, ast.Call):
            cn = callee(c) or ''
            if cn in ('%s.write' % fvar,) or (cn == 'write_thrift' and c.args and norm(c.args[0]) == fvar):
                return True
    return False


# ---------------------------------------------------------------------------
PACK_FORMATS = {'<I', '<i', '<L', '<l'}


def footer_sites(repo):
    """(module, qualname, funcdef, assign stmt `n = write_thrift(f, X)`) for every footer"""
    out = []
    m = repo['writer']
    for q, f in m.funcs.items():
        for st in walk_no_nested(f):
            if isinstance(st, ast.Assign) and isinstance(st.value, ast.Call) and \
                    callee(st.value) == 'write_thrift' and len(st.value.args) == 2 and \
                    len(st.targets) == 1 and isinstance(st.targets[0], ast.Name):
                out.append((m, q, f, st))
    return out


def _is_magic(node, m):
    if isinstance(node, ast.Constant) and node.value == b'PAR1':
        return True
    if isinstance(node, ast.Name) and node.id == 'MARKER':
        vals = m.assigns.get('MARKER', [])
        return len(vals) == 1 and isinstance(vals[0], ast.Constant) and vals[0].value == b'PAR1'
    return False


def _file_effect(stmt, fvar, m):
    """classify a simple statement's effect on file variable fvar"""
    if isinstance(stmt, (ast.If, ast.For, ast.While, ast.Try, ast.With, ast.FunctionDef)):
        return None
    effs = []
    for c in ast.walk(stmt):
        if not isinstance(c, ast.Call):
            continue
        cn = callee(c) or ''
        if cn == fvar + '.write' and c.args:
            a = c.args[0]
            if _is_magic(a, m):
                effs.append(('magic', None))
            elif isinstance(a, ast.Call) and callee(a) == 'struct.pack' and len(a.args) == 2:
                fmt = const_value(a.args[0])
                if isinstance(fmt, bytes):
                    fmt = fmt.decode()
                effs.append(('length', (fmt, norm(a.args[1]))))
            else:
                effs.append(('write', norm(a)))
        elif cn == fvar + '.truncate':
            effs.append(('truncate', None))
        elif cn == fvar + '.seek':
            effs.append(('seek', norm(c)))
        elif cn in (fvar + '.read', fvar + '.tell', fvar + '.close', fvar + '.flush'):
            pass
        elif any(isinstance(a, ast.Name) and a.id == fvar for a in c.args) or \
                any(isinstance(k.value, ast.Name) and k.value.id == fvar for k in c.keywords):
            effs.append(('delegated', cn))
    return effs or None


def r22(ctx):
    sites = footer_sites(ctx.repo)
    # a footer whose thrift is written without taking the size from that write (bare call) cannot be framed correctly
    loose = []
    wrm = ctx.repo['writer']
    for q, f in wrm.funcs.items():
        bare = [st for st in walk_no_nested(f) if isinstance(st, ast.Expr) and isinstance(st.value, ast.Call)
                and callee(st.value) == 'write_thrift' and len(st.value.args) == 2 and 'fmd' in norm(st.value.args[1])]
        magic = [c for c in walk_no_nested(f) if isinstance(c, ast.Call) and (callee(c) or '').endswith('.write') and c.args and _is_magic(c.args[0], wrm)]
        if bare and magic:
            loose.append(q)
            ctx.ob('R2.2', 'writer.%s:footer-length-is-the-size-returned-by-the-thrift-write' % q, False,
                   '`%s` discards the number of bytes written; the 4-byte length that follows must be exactly that number '
                   '(a file position also counts whatever precedes the footer)' % norm(bare[0]), wrm.loc(bare[0]))
    ctx.floor('R2.2', 'functions that write a footer', len({q for _, q, _, _ in sites} | set(loose)), 4)
    per_func = {}
    for m, q, f, st in sites:
        per_func.setdefault(q, []).append(st)
    for m, q, f, st in sites:
        fvar = norm(st.value.args[0])
        nvar = st.targets[0].id
        cfg = CFG(f)
        ordinal = per_func[q].index(st) + 1
        key = 'writer.%s:footer#%d' % (q, ordinal)
        start = cfg.node_of(st)
        # explore normal successors; state = number of framing steps seen
        bad = []
        seen = set()
        todo = [(s, 0) for s in cfg.succ[start]]
        complete = False
        while todo:
            n, state = todo.pop()
            if (n, state) in seen:
                continue
            seen.add((n, state))
            node = cfg.nodes[n]
            if node.kind == 'handler':
                continue
            if n == cfg.exit:
                if state < 2:
                    bad.append('a normal exit is reached with the footer incomplete (step %d of 2)' % state)
                continue
            if n == cfg.raise_exit:
                continue
            effs = _file_effect(node.stmt, fvar, m) if node.stmt is not None else None
            nstate = state
            for kind, info in effs or []:
                if nstate == 0:
                    if kind == 'length':
                        fmt, arg = info
                        if fmt not in PACK_FORMATS:
                            bad.append('footer length packed with format %r (need 4-byte little-endian)' % fmt)
                        if arg != nvar:
                            bad.append('footer length packs %s, not the size %s returned by write_thrift' % (arg, nvar))
                        nstate = 1
                    else:
                        bad.append('%s on the file between the footer thrift and its length' % kind)
                elif nstate == 1:
                    if kind == 'magic':
                        nstate = 2
                        complete = True
                    else:
                        bad.append('%s on the file between the footer length and the magic' % kind)
                elif nstate == 2:
                    if kind in ('write', 'length', 'magic', 'delegated'):
                        bad.append('%s on the file after the closing magic' % kind)
            for s in cfg.succ[n]:
                todo.append((s, nstate))
        ctx.ob('R2.2', key + ':thrift-then-length-then-magic', not bad and complete,
               '; '.join(sorted(set(bad))) or ('ok' if complete else 'closing magic never written'), m.loc(st))
        # what is serialised must be what was measured: n = write_thrift(f, X) writes X once
    # leading magic: the first write on a fresh file is the magic
    for q, sts in per_func.items():
        m = ctx.repo['writer']
        f = m.funcs[q]
        fvar = norm(sts[0].value.args[0])
        cfg = CFG(f)
        eff_nodes = {}
        for n in cfg.nodes:
            if n.stmt is not None and n.kind != 'handler':
                e = _file_effect(n.stmt, fvar, m)
                if e:
                    eff_nodes[n.id] = e
        writes = {n for n, e in eff_nodes.items() if any(k in ('write', 'length', 'magic', 'delegated') for k, _ in e)}
        # nodes inside exception handlers are restoration code, not part of the protocol
        handler_nodes = set()
        for n in cfg.nodes:
            if n.kind == 'handler':
                handler_nodes |= cfg.reach({n.id})
        first = {n for n in writes - handler_nodes if n in cfg.reach({cfg.entry}, avoid=writes - {n})}
        seeks = {n for n, e in eff_nodes.items() if any(k == 'seek' for k, _ in e)}
        for n in sorted(first):
            kinds = [k for k, _ in eff_nodes[n]]
            if kinds[0] == 'magic':
                ok, why = True, 'first write is the magic'
            else:
                # in-place idiom: every path to this first write passes a seek on the handle
                ok = bool(seeks) and cfg.set_dominates(seeks, n) or \
                    n not in cfg.reach({cfg.entry}, avoid=seeks | (writes - {n}))
                why = 'first write %s is only reachable after a seek (append / in-place rewrite)' % kinds[0]
            ctx.ob('R2.2', 'writer.%s:first-write-is-magic-or-positioned:%s' % (q, norm(cfg.nodes[n].stmt)[:60]),
                   ok, why, m.loc(cfg.nodes[n].stmt))
    # write_thrift writes exactly obj.to_bytes() and returns the count
    wt = ctx.repo['writer'].func('write_thrift')
    rets = [n for n in walk_no_nested(wt) if isinstance(n, ast.Return)]
    ctx.ob('R2.2', 'writer.write_thrift:returns-f.write(obj.to_bytes())',
           len(rets) == 1 and norm(rets[0].value) == 'f.write(obj.to_bytes())',
           'the footer length is the return value of this write', ctx.repo['writer'].loc(wt))


# ---------------------------------------------------------------------------
def r24(ctx):
    m = ctx.repo['writer']
    f = m.func('write_column')
    loop = _find_page_loop(f)
    # the encoding variable: initial value and reassignments
    assigns = [(n, norm(n.value)) for n in iter_child_stmts(f.body)
               if isinstance(n, ast.Assign) and norm(n.targets[0]) == 'encoding']
    vals = sorted({v for _, v in assigns})
    ctx.ob('R2.4', 'writer.write_column:encoding-values', vals == ["'PLAIN'", "'RLE_DICTIONARY'"],
           'encoding takes the values %s' % vals, m.loc(f))
    enc_tbl = {k.value: norm(v) for k, v in zip(*_dict_items(m.assigns['encode'][0]))} if 'encode' in m.assigns else {}
    ctx.ob('R2.4', 'writer.encode:has-arm-for-every-encoding-value',
           set(enc_tbl) == {'PLAIN', 'RLE_DICTIONARY'} and enc_tbl.get('PLAIN') == 'encode_plain'
           and enc_tbl.get('RLE_DICTIONARY') == 'encode_dict', str(enc_tbl), m.loc(f))
    # the RLE_DICTIONARY assignment and cats=True happen together (dictionary page written)
    post = f.body[f.body.index(loop) + 1:]
    cat_if = [n for n in post if isinstance(n, ast.If) and norm(n.test) == 'cats' and 'encodings' in src(n)]
    ok = False
    detail = 'if cats: ... else: ... block not found'
    if cat_if:
        b, o = src(ast.Module(body=cat_if[0].body, type_ignores=[])), src(ast.Module(body=cat_if[0].orelse, type_ignores=[]))
        want_b = ['encodings = [parquet_thrift.Encoding.PLAIN, parquet_thrift.Encoding.RLE_DICTIONARY]']
        ok = all(x in b for x in want_b) and 'encodings = [parquet_thrift.Encoding.PLAIN]' in o \
            and 'PageType.DICTIONARY_PAGE' in b and 'Encoding.RLE_DICTIONARY' in b \
            and 'PageType.DICTIONARY_PAGE' not in o and 'RLE_DICTIONARY' not in o \
            and b.count('count=len(row_offsets) - 1') == 1 and o.count('count=len(row_offsets) - 1') == 1
        detail = 'cats arm lists PLAIN+RLE_DICTIONARY with one dictionary page and len(row_offsets)-1 data pages; other arm PLAIN only'
    ctx.ob('R2.4', 'writer.write_column:encodings-and-encoding_stats-match-page-loop', ok, detail,
           m.loc(cat_if[0]) if cat_if else m.loc(f))
    # cats is set exactly where the dictionary page is written and encoding switched
    setc = [n for n in iter_child_stmts(loop.body) if isinstance(n, ast.Assign) and norm(n) == 'cats = True']
    sete = [n for n, v in assigns if v == "'RLE_DICTIONARY'"]
    pm = {}
    for parent in ast.walk(loop):
        for fld in ('body', 'orelse'):
            sub = getattr(parent, fld, None)
            if isinstance(sub, list):
                for ch in sub:
                    if isinstance(ch, ast.AST):
                        pm[ch] = parent
    same_block = bool(setc and sete) and pm.get(setc[0]) is pm.get(sete[0]) and \
        'DICTIONARY_PAGE' in src(pm.get(setc[0]))
    ctx.ob('R2.4', 'writer.write_column:cats-flag-set-with-dictionary-page', same_block,
           'cats=True / encoding=RLE_DICTIONARY must sit in the block that writes the dictionary page',
           m.loc(setc[0]) if setc else m.loc(loop))
    # data page header encoding derives from the same variable that selects the encoder
    encs = [norm(kwarg(c, 'encoding')) for c in ast.walk(loop) if isinstance(c, ast.Call)
            and callee(c) in ('parquet_thrift.DataPageHeader', 'parquet_thrift.DataPageHeaderV2')]
    ctx.ob('R2.4', 'writer.write_column:page-header-encoding-is-the-encoder-used',
           len(encs) == 2 and all(e == 'getattr(parquet_thrift.Encoding, encoding)' for e in encs)
           and src(loop).count('encode[encoding](data, selement)') == 2,
           'headers: %s' % encs, m.loc(loop))
    # codec recorded from the same compression value the pages were compressed with
    cmdc = [c for c in ast.walk(f) if isinstance(c, ast.Call) and callee(c) == 'ThriftObject.from_fields'
            and c.args and const_value(c.args[0]) == 'ColumnMetaData']
    codec = norm(kwarg(cmdc[0], 'codec')) if cmdc else ''
    algo = [norm(n) for n in iter_child_stmts(post) if isinstance(n, ast.Assign) and norm(n.targets[0]) == 'algorithm']
    # the default codec of a dict without 'type' must be the one compress_data applies to the pages
    cd = ctx.repo['compression'].func('compress_data')
    dflt = [norm(c.args[1]) for c in ast.walk(cd) if isinstance(c, ast.Call) and norm(c.func) == 'compression.get' and len(c.args) == 2
            and isinstance(c.args[0], ast.Constant) and c.args[0].value == 'type']
    ok = codec == 'getattr(parquet_thrift.CompressionCodec, algorithm.upper()) if algorithm else 0' and len(dflt) == 1 and \
        sorted(algo) == ["algorithm = compression", "algorithm = compression.get('type', %s)" % dflt[0]]
    ctx.ob('R2.4', 'writer.write_column:codec-from-same-compression-argument', ok,
           'codec=%s; algorithm from %s' % (codec, algo), m.loc(f))
    comp_calls = [norm(c) for c in ast.walk(loop) if isinstance(c, ast.Call) and callee(c) == 'compress_data']
    ctx.ob('R2.4', 'writer.write_column:pages-compressed-with-the-compression-argument',
           len(comp_calls) == 3 and all(c == 'compress_data(bdata, compression)' for c in comp_calls),
           str(comp_calls), m.loc(loop))
    # v2 flag must agree with whether compress_data was applied
    v2 = [n for n in iter_child_stmts(loop.body) if isinstance(n, ast.If) and norm(n.test) == 'is_compressed']
    flag = [norm(kwarg(c, 'is_compressed')) for c in ast.walk(loop) if isinstance(c, ast.Call)
            and callee(c) == 'parquet_thrift.DataPageHeaderV2']
    ctx.ob('R2.4', 'writer.write_column:v2-is_compressed-flag-guards-compression',
           len(v2) == 1 and 'compress_data' in src(v2[0].body[0]) and flag == ['is_compressed'],
           'the flag written in the v2 header is the condition under which the payload is compressed', m.loc(loop))


def _dict_items(node):
    if not isinstance(node, ast.Dict):
        return [], []
    return node.keys, node.values


def r27(ctx, rule='R2.7'):
    """scope discipline of the page loop: inside it the whole column `data0` may only be sliced into the
    page (`data0.iloc[row_start:row_end]`) or inspected for its dtype; everything that is encoded,
    counted or measured must derive from the page slice"""
    m = ctx.repo['writer']
    f = m.func('write_column')
    loop = _find_page_loop(f)
    col = f.args.args[1].arg
    pm = {}
    for n in ast.walk(loop):
        for c in ast.iter_child_nodes(n):
            pm[c] = n
    n_loads = 0
    bad = []
    for n in ast.walk(loop):
        if isinstance(n, ast.Name) and n.id == col and isinstance(n.ctx, ast.Load):
            n_loads += 1
            p = pm.get(n)
            ok = False
            if isinstance(p, ast.Attribute) and p.attr == 'dtype':
                ok = True
            elif isinstance(p, ast.Attribute) and p.attr == 'iloc':
                pp = pm.get(p)
                ok = isinstance(pp, ast.Subscript) and norm(pp.slice) == 'row_start:row_end'
            if not ok:
                st = p
                while st is not None and not isinstance(st, ast.stmt):
                    st = pm.get(st)
                bad.append(norm(st)[:70] if st is not None else norm(p))
    ctx.floor(rule, 'uses of the whole column inside the page loop', n_loads, 2)
    ctx.ob(rule, 'writer.write_column:page-loop-uses-the-whole-column-only-to-slice-or-inspect-its-dtype', not bad,
           'inside the per-page loop `%s` is used other than as %s.iloc[row_start:row_end] / %s.dtype: %s (each page must '
           'hold exactly its own rows)' % (col, col, col, bad or 'nowhere'), m.loc(loop))


def r29(ctx, rule='R2.9'):
    """write_column: the codec option may be a name or a dict {'type': ..., 'args': ...}.  String methods on it
    (`compression.upper()`) are only reachable when it is known not to be a dict, and the dictionary page is compressed
    under the same condition as the data pages of the chunk"""
    wr = ctx.repo['writer']
    f = wr.func('write_column')
    n = 0
    for c in walk_no_nested(f):
        if isinstance(c, ast.Call) and isinstance(c.func, ast.Attribute) and c.func.attr in ('upper', 'lower') and norm(c.func.value) == 'compression':
            n += 1
            # an enclosing BoolOp must test isinstance(compression, dict) before it (or-short-circuit), or an enclosing if
            ok = False
            for b in walk_no_nested(f):
                if isinstance(b, ast.BoolOp) and any(y is c for y in ast.walk(b)):
                    txt = [norm(v) for v in b.values]
                    idx = [i for i, v in enumerate(b.values) if any(y is c for y in ast.walk(v))][0]
                    if isinstance(b.op, ast.Or) and any('isinstance(compression, dict)' == t for t in txt[:idx]):
                        ok = True
                    if isinstance(b.op, ast.And) and any(t in ('not isinstance(compression, dict)', 'isinstance(compression, str)') for t in txt[:idx]):
                        ok = True
            ctx.ob(rule, 'writer.write_column:string-method-on-the-codec-only-when-it-is-not-a-dict:%s' % norm(c)[:30], ok,
                   '`%s` is reached with a dict codec ({"type": ..., "args": ...})' % norm(c), wr.loc(c))
    comp = [c for c in walk_no_nested(f) if isinstance(c, ast.Call) and callee(c) == 'compress_data']
    cfg = CFG(f)
    guards = []
    for c in comp:
        st = None
        for nd in cfg.nodes:
            if nd.stmt is not None and any(y is c for y in ast.walk(nd.stmt)) and not isinstance(nd.stmt, (ast.If, ast.For, ast.While, ast.Try, ast.With)):
                st = nd.stmt
        t = [norm(e.test) for e, fld in cfg.enclosing_tests(st) if isinstance(e, ast.If) and fld == 'body' and 'compress' in norm(e.test)]
        guards.append(t[-1] if t else '')
    ctx.floor(rule, 'compress_data call sites in write_column', len(comp), 3)
    ctx.ob(rule, 'writer.write_column:dictionary-and-data-pages-compressed-under-the-same-condition',
           len(set(g for g in guards if g not in ('is_compressed',))) == 1,
           'guards of the compress_data calls: %s' % guards, wr.loc(f))


def r211(ctx, rule='R2.11'):
    """writer.encode_dict: the bit-packed run header announces ceil(n/8) groups of 8 indices; the payload that follows
    must hold that many (the last group padded), or the run declares bytes that are not there (known finding K02a)"""
    wr = ctx.repo['writer']
    f = wr.func('encode_dict')
    ret = [r for r in walk_no_nested(f) if isinstance(r, ast.Return)]
    padded = any('pad' in norm(r.value) or 'ljust' in norm(r.value) or 'np.pad' in norm(r.value) for r in ret) or \
        any(isinstance(c, ast.Call) and callee(c) in ('np.pad',) for c in walk_no_nested(f))
    ctx.ob(rule, 'writer.encode_dict:bit-packed-run-payload-covers-the-groups-it-announces', padded,
           'header: (len(data) + 7) // 8 groups; payload: data.values.tobytes() - %s' % ([norm(r)[:80] for r in ret]), wr.loc(f))


def r212(ctx, rule='R2.12'):
    """find_type: TimestampType.isAdjustedToUTC says whether the stored instants are UTC-normalised, which is the case
    exactly when the column has a time zone - any zone (values of zone-aware columns are stored as UTC)"""
    wr = ctx.repo['writer']
    f = wr.func('find_type')
    tz = [st for st in walk_no_nested(f) if isinstance(st, ast.Assign) and norm(st.targets[0]) == 'tz']
    ok = len(tz) == 1 and norm(tz[0].value) == "getattr(dtype, 'tz', None) is not None"
    ctx.ob(rule, 'writer.find_type:adjusted-to-UTC-iff-the-column-has-a-zone', ok,
           '`%s`: a test on the zone\'s *name* marks named non-UTC zones as not adjusted although their values are stored as UTC' % (norm(tz[0]) if tz else '?'),
           wr.loc(tz[0]) if tz else wr.loc(f))
    uses = [k for c in ast.walk(f) if isinstance(c, ast.Call) for k in c.keywords if k.arg == 'isAdjustedToUTC']
    ctx.ob(rule, 'writer.find_type:every-timestamp-type-carries-that-flag', len(uses) == 3 and all(norm(k.value) == 'tz' for k in uses), str([norm(k.value) for k in uses]), wr.loc(f))


# --- R2.14: the codec option, shape by shape -------------------------------------------------------------------------
class _Unknown(Exception):
    pass


class _Crash(Exception):
    """the expression raises for this option value (a string method on a dict or None)"""


_CODEC_SHAPES = [None, '', 'UNCOMPRESSED', 'uncompressed', 'GZIP', 'snappy', {}, {'type': 'GZIP'}, {'type': 'snappy', 'args': {}},
                 {'args': {'compresslevel': 1}}, {'type': 'UNCOMPRESSED'}]


def _ev(e, env):
    """the few expression forms the codec option goes through, evaluated on a constant option value"""
    if isinstance(e, ast.Constant):
        return e.value
    if isinstance(e, ast.Name):
        if e.id in env:
            return env[e.id]
        if e.id in ('dict', 'str'):
            return {'dict': dict, 'str': str}[e.id]
        raise _Unknown(e.id)
    if isinstance(e, ast.Dict):
        return {_ev(k, env): _ev(v, env) for k, v in zip(e.keys, e.values)}
    if isinstance(e, ast.Tuple):
        return tuple(_ev(x, env) for x in e.elts)
    if isinstance(e, ast.BoolOp):
        r = None
        for v in e.values:
            r = _ev(v, env)
            if isinstance(e.op, ast.And) and not r:
                return r
            if isinstance(e.op, ast.Or) and r:
                return r
        return r
    if isinstance(e, ast.UnaryOp) and isinstance(e.op, ast.Not):
        return not _ev(e.operand, env)
    if isinstance(e, ast.IfExp):
        return _ev(e.body, env) if _ev(e.test, env) else _ev(e.orelse, env)
    if isinstance(e, ast.Compare) and len(e.ops) == 1:
        a, b, op = _ev(e.left, env), _ev(e.comparators[0], env), e.ops[0]
        if isinstance(op, ast.Is):
            return a is b
        if isinstance(op, ast.IsNot):
            return a is not b
        if isinstance(op, ast.Eq):
            return a == b
        if isinstance(op, ast.NotEq):
            return a != b
        if isinstance(op, ast.In):
            return a in b
        if isinstance(op, ast.NotIn):
            return a not in b
        raise _Unknown(norm(e))
    if isinstance(e, ast.Call):
        fn = norm(e.func)
        if fn == 'isinstance' and len(e.args) == 2:
            return isinstance(_ev(e.args[0], env), _ev(e.args[1], env))
        if fn == 'bool' and len(e.args) == 1:
            return bool(_ev(e.args[0], env))
        if fn == 'len' and len(e.args) == 1:
            return len(_ev(e.args[0], env))
        if fn == 'dict' and len(e.args) <= 1 and all(k.arg for k in e.keywords):
            # dict(d, k=v): a copy of the option with entries set
            base = _ev(e.args[0], env) if e.args else {}
            if not isinstance(base, dict):
                raise _Crash('`%s` with the option %r' % (norm(e), base))
            out = dict(base)
            for k in e.keywords:
                out[k.arg] = _ev(k.value, env)
            return out
        if fn == 'getattr' and len(e.args) == 2 and norm(e.args[0]).endswith('CompressionCodec'):
            return ('codec', _ev(e.args[1], env))
        if isinstance(e.func, ast.Attribute) and e.func.attr in ('upper', 'lower') and not e.args:
            v = _ev(e.func.value, env)
            if not isinstance(v, str):
                raise _Crash('`%s` with the option %r' % (norm(e), v))
            return getattr(v, e.func.attr)()
        if isinstance(e.func, ast.Attribute) and e.func.attr == 'get' and 1 <= len(e.args) <= 2:
            v = _ev(e.func.value, env)
            if not isinstance(v, dict):
                raise _Crash('`%s` with the option %r' % (norm(e), v))
            return v.get(_ev(e.args[0], env), _ev(e.args[1], env) if len(e.args) == 2 else None)
    raise _Unknown(norm(e)[:60])


def _mentions(e, names):
    return any(isinstance(x, ast.Name) and x.id in names for x in ast.walk(e))


def r214(ctx, rule='R2.14'):
    """write_column: for every shape the codec option can take (None, empty text, a codec name in either case, an empty
    dict, a dict with / without 'type' and 'args'), the codec recorded in the chunk metadata is the one the pages of the
    chunk were actually compressed with - at each of the three compress_data sites.  The conditions are read from the
    source and evaluated on the option value alone (finite table); conditions on other variables pick the site, not
    the codec, and are taken as satisfied."""
    wr = ctx.repo['writer']
    f = wr.func('write_column')
    cd = ctx.repo['compression'].func('compress_data')
    dflt = [c.args[1].value for c in ast.walk(cd) if isinstance(c, ast.Call) and norm(c.func) == 'compression.get' and len(c.args) == 2
            and isinstance(c.args[0], ast.Constant) and c.args[0].value == 'type' and isinstance(c.args[1], ast.Constant)]
    if len(dflt) != 1:
        raise AnalysisError('compress_data: default codec of a dict option not found')
    cfg = CFG(f)
    body = list(f.body)
    loops = [i for i, st in enumerate(body) if isinstance(st, ast.For) and any(isinstance(c, ast.Call) and callee(c) == 'compress_data' for c in ast.walk(st))]
    if not loops:
        raise AnalysisError('write_column: page loop with compress_data not found')
    pre, post = body[:loops[0]], body[loops[0] + 1:]
    names = {'compression'}
    # variables defined from the option alone inside the function (is_compressed, algorithm)
    derived = {}
    for st in walk_no_nested(f):
        if isinstance(st, ast.Assign) and len(st.targets) == 1 and isinstance(st.targets[0], ast.Name) and st.targets[0].id != 'compression':
            if _mentions(st.value, names) and all(isinstance(x, ast.Name) and (x.id in names or x.id in ('isinstance', 'dict', 'str', 'bool', 'len'))
                                                   for x in ast.walk(st.value) if isinstance(x, ast.Name)):
                derived.setdefault(st.targets[0].id, []).append(st)

    def run_block(stmts, env):
        """straight-line statements and ifs that concern the option; everything else is skipped"""
        for st in stmts:
            if isinstance(st, ast.If) and _mentions(st.test, set(env)) and not _mentions(st.test, _others(st.test, env)):
                run_block(st.body if _ev(st.test, env) else st.orelse, env)
            elif isinstance(st, ast.Assign) and len(st.targets) == 1 and isinstance(st.targets[0], ast.Name) and \
                    st.targets[0].id in ('compression', 'algorithm') :
                env[st.targets[0].id] = _ev(st.value, env)

    def _others(e, env):
        return {x.id for x in ast.walk(e) if isinstance(x, ast.Name) and x.id not in env and x.id not in ('isinstance', 'dict', 'str', 'bool', 'len')}

    sites = [c for c in walk_no_nested(f) if isinstance(c, ast.Call) and callee(c) == 'compress_data']
    ctx.floor(rule, 'compress_data sites in write_column', len(sites), 3)
    codec_kw = [kwarg(c, 'codec') for c in ast.walk(f) if isinstance(c, ast.Call) and callee(c) == 'ThriftObject.from_fields'
                and c.args and const_value(c.args[0]) == 'ColumnMetaData']
    if len(codec_kw) != 1 or codec_kw[0] is None:
        raise AnalysisError('write_column: codec of the ColumnMetaData not found')
    n = 0
    for shape in _CODEC_SHAPES:
        label = repr(shape).replace(' ', '')
        try:
            env = {'compression': shape}
            run_block(pre, env)
            opt = env['compression']
            env2 = dict(env)
            run_block(post, env2)
            rec = _ev(codec_kw[0], env2)
            rec = rec[1].upper() if isinstance(rec, tuple) else 'UNCOMPRESSED'
            for k, c in enumerate(sites):
                st = None
                for nd in cfg.nodes:
                    if nd.stmt is not None and any(y is c for y in ast.walk(nd.stmt)) and not isinstance(nd.stmt, (ast.If, ast.For, ast.While, ast.Try, ast.With)):
                        st = nd.stmt
                applied = True
                for e, fld in cfg.enclosing_tests(st):
                    if not isinstance(e, ast.If):
                        continue
                    t = e.test
                    if not (_mentions(t, names) or _mentions(t, set(derived))):
                        continue
                    env3 = dict(env)
                    for dname, dsts in derived.items():
                        if _mentions(t, {dname}):
                            env3[dname] = _ev(dsts[-1].value, env3)
                    if _others(t, env3):
                        continue
                    v = bool(_ev(t, env3))
                    applied = applied and (v if fld == 'body' else not v)
                if not (len(c.args) >= 2 and norm(c.args[1]) == 'compression'):
                    raise AnalysisError('compress_data called with %s' % norm(c))
                if applied:
                    used = (opt.get('type', dflt[0]) if isinstance(opt, dict) else opt)
                    used = used.upper() if isinstance(used, str) else 'UNCOMPRESSED'
                else:
                    used = 'UNCOMPRESSED'
                n += 1
                if applied and used == '':
                    # not a codec name: compress_data refuses it (RuntimeError), nothing is written
                    ctx.ob(rule, 'writer.write_column:recorded-codec-is-the-codec-applied:option=%s:site%d' % (label, k + 1), True,
                           'refused by compress_data', wr.loc(c), nontrivial=False)
                    continue
                ctx.ob(rule, 'writer.write_column:recorded-codec-is-the-codec-applied:option=%s:site%d' % (label, k + 1), used == rec,
                       'with compression=%s the pages at this site are %s, the chunk metadata records codec %s: a reader '
                       'decompresses with the recorded codec' % (label, 'compressed with ' + used if applied else 'left uncompressed', rec),
                       wr.loc(c))
        except _Crash as ex:
            n += 1
            ctx.ob(rule, 'writer.write_column:codec-option-shape-is-handled:option=%s' % label, False,
                   'a documented form of the codec option makes write_column fail: %s raises' % ex, wr.loc(f))
        except _Unknown as ex:
            raise AnalysisError('R2.14: expression form not understood for option %s: %s' % (label, ex))
    ctx.floor(rule, 'option shape x site evaluations', n, 30)
