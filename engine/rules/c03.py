"""C03 - foreign flat files decode to what they encode: refusal of the unsupported, own-layout
shortcuts only for own files, positional discipline of the v2 page reader, accumulator capacity."""
import ast

from ..model import AnalysisError, callee, norm, src, walk_no_nested, iter_child_stmts, kwarg, module_table, dotted
from ..cfg import CFG, ReachingDefs
from .. import pathcond
from . import c11


def run(ctx):
    ctx.technique = 'dispatch exhaustiveness against the enum tables, control dependence of own-layout shortcuts on selfmade, CFG positional discipline, reachability over bit-loop skeletons'
    ctx.explanation = (
        'Decides: (R3.1) every decoding dispatch (encoding of v1/v2 pages, level coding, physical type of '
        'PLAIN, codec) either covers its enum or ends in a raise - nothing outside the supported set is '
        'decoded by default; (R3.3) the shortcuts that assume fastparquet\'s own layout (skipping definition '
        'bytes, raw int8/16/32 dictionary indices in v1 and v2) are control dependent on selfmade, which derives '
        'only from created_by containing "fastparquet"; (R3.5) optional header flags are defaulted only when '
        'absent; (R3.6) in the v2 reader the value decoding starts at the offset after both level blocks on '
        'every path; (R3.7) the delta decoder is told the column width at every call site; (R3.4) the bit '
        'accumulators can hold every width the format allows (known findings K11a/K11b).')
    ctx.not_decided = ('that supported inputs decode to the right values (dictionary fallback, page splits, null scatter, '
                       'logical conversion): value-level')
    core, api, enc, comp = ctx.repo['core'], ctx.repo['api'], ctx.repo['encoding'], ctx.repo['compression']
    r31(ctx, core, enc, comp)
    r32(ctx, core)
    r33(ctx, core, api)
    r35(ctx, core)
    r36(ctx, core)
    c11.r114(ctx)
    c11.r116(ctx)
    c11.r119(ctx, 'R3.10')
    c11.r1110(ctx, 'R3.14')
    from . import c01
    c01.r11(ctx)
    r38(ctx, core)
    r39(ctx)
    r311(ctx, core)
    r313(ctx, core)
    r317(ctx)
    r319(ctx, core)
    r320(ctx)
    r322(ctx, core)
    from . import c01 as _c01c
    _c01c.r125(ctx, 'R3.25')
    from . import findings2 as _f2
    _f2.fixed_width_bytes(ctx, 'R3.23')
    _f2.delta_capacity(ctx, 'R3.24')
    from . import c17 as _c17
    _c17.r176(ctx, 'R3.21')
    from . import c01 as _c01b, callsigs as _csb
    _c01b.r16(ctx, core)
    _csb.scratch_buffer_rule(ctx, 'R3.18')
    r315(ctx, core)
    r316(ctx, core, comp)
    from . import c01 as _c01
    _c01.r110(ctx, 'R3.12')
    _c01.r126(ctx, 'R3.26')
    _c01.r127(ctx, 'R3.27')
    m = ctx.repo['cencoding']
    # R3.4: only the decoders matter for reading foreign files
    saved = c11.LOOPS
    try:
        c11.LOOPS = [l for l in saved if l[0] in ('read_bitpacked', 'delta_read_bitpacked')]
        c11.r112(ctx, m)
    finally:
        c11.LOOPS = saved
    c11.r111(ctx, m)
    from . import callsigs as _cs
    from . import findings3 as _f3
    _f3.thrift_reader_forms(ctx, 'R10.17', None)
    _f3.read_conversions(ctx, 'R3.28')
    _f3.logical_annotations(ctx, 'R3.29')
    _cs.general_rules(ctx, 'R3', ['core', 'encoding', 'api.ParquetFile.read_row_group_file', 'converted_types', 'writer.convert', 'writer.find_type'])


def _chain_ends_in_raise(first_if):
    node = first_if
    while True:
        if not node.orelse:
            return False
        if len(node.orelse) == 1 and isinstance(node.orelse[0], ast.If):
            node = node.orelse[0]
            continue
        return any(isinstance(s, ast.Raise) for s in node.orelse)


def r31(ctx, core, enc, comp):
    f = core.func('read_data_page')
    chain = [s for s in f.body if isinstance(s, ast.If) and 'daph.encoding' in norm(s.test)]
    ctx.ob('R3.1', 'core.read_data_page:encoding-dispatch-ends-in-raise', len(chain) == 1 and _chain_ends_in_raise(chain[0]),
           'an encoding without an arm must be refused', core.loc(f))
    g = core.func('read_data_page_v2')
    first = [s for s in g.body if isinstance(s, ast.If)][0]
    ok = 'not in' in norm(first.test) and 'data_header2.encoding' in norm(first.test) and isinstance(first.body[0], ast.Raise)
    ctx.ob('R3.1', 'core.read_data_page_v2:unknown-encoding-refused-up-front', ok, '', core.loc(first))
    chain = [s for s in g.body if isinstance(s, ast.If) and norm(s.test).startswith('into0 and data_header2.encoding')]
    ctx.ob('R3.1', 'core.read_data_page_v2:encoding-dispatch-ends-in-raise', len(chain) == 1 and _chain_ends_in_raise(chain[0]), '', core.loc(g))
    # every accepted encoding has an arm in the chain
    acc = set()
    for c in first.test.comparators[0].elts if isinstance(first.test, ast.Compare) else []:
        d = dotted(c)
        if d:
            acc.add(d.split('.')[-1])
    armed = set()
    if chain:
        node = chain[0]
        while True:
            for x in ast.walk(node.test):
                d = dotted(x) if isinstance(x, ast.Attribute) else None
                if d and '.Encoding.' in d:
                    armed.add(d.split('.')[-1])
            if len(node.orelse) == 1 and isinstance(node.orelse[0], ast.If):
                node = node.orelse[0]
            else:
                break
    ctx.ob('R3.1', 'core.read_data_page_v2:every-accepted-encoding-has-an-arm', acc and acc <= armed,
           'accepted %s, arms %s' % (sorted(acc), sorted(armed)), core.loc(g))
    rd = core.func('read_data')
    chain = [s for s in rd.body if isinstance(s, ast.If) and 'coding' in norm(s.test)]
    ctx.ob('R3.1', 'core.read_data:level-coding-dispatch-ends-in-raise', len(chain) == 1 and _chain_ends_in_raise(chain[0]), '', core.loc(rd))
    # PLAIN: all 8 physical types
    rp = enc.func('read_plain')
    dt = module_table(ctx.repo, 'encoding', 'DECODE_TYPEMAP')
    covered = {k.name for k in dt}
    for n in ast.walk(rp):
        if isinstance(n, ast.Compare) and norm(n.left) == 'type_' and isinstance(n.ops[0], ast.Eq):
            d = dotted(n.comparators[0])
            if d:
                covered.add(d.split('.')[-1])
    allt = set(ctx.repo.enums['Type'])
    for t in sorted(allt):
        ctx.ob('R3.1', 'encoding.read_plain:physical-type-has-an-arm:%s' % t, t in covered,
               'read_plain has no default: an unhandled type would return None', enc.loc(rp))
    ctx.ob('R3.1', 'encoding.read_plain:dispatch-uses-DECODE_TYPEMAP-first', 'if type_ in DECODE_TYPEMAP' in src(rp), '', enc.loc(rp))
    for q in ('decompress_data', 'compress_data'):
        d = comp.func(q)
        r = [s for s in ast.walk(d) if isinstance(s, ast.Raise) and 'not available' in src(s)]
        ctx.ob('R3.1', 'compression.%s:unknown-codec-refused' % q, len(r) == 1, '', comp.loc(d))
    # page-type dispatch
    rc = core.func('read_col')
    s = src(rc)
    ctx.ob('R3.1', 'core.read_col:page-types-dispatched', 'ph.type == parquet_thrift.PageType.DICTIONARY_PAGE' in s
           and 'ph.type == parquet_thrift.PageType.DATA_PAGE_V2' in s, 'remaining pages go to the v1 reader, which dereferences '
           'data_page_header and fails for an index page (an exception, not a wrong decode)', core.loc(rc))
    ctx.ob('R3.1', 'core.read_col:categorical-without-dictionary-refused',
           'Attempt to load as categorical a column with no dictionary' in s and 'multiple dictionary pages' in s, '', core.loc(rc))


def r32(ctx, core):
    """level streams of a v1 page are decoded by the coding the page header declares: each level reader hands
    `daph.<kind>_level_encoding` to read_data, whose dispatch accepts RLE and ends in a raise - a page declaring the
    deprecated BIT_PACKED level encoding (no length prefix) is refused instead of being read as a hybrid stream"""
    want = {'read_def': 'daph.definition_level_encoding', 'read_rep': 'daph.repetition_level_encoding'}
    n = 0
    for q, field in want.items():
        f = core.func(q)
        callers = [c for c in ast.walk(f) if isinstance(c, ast.Call) and callee(c) == 'read_data']
        n += len(callers)
        ok = len(callers) == 1 and len(callers[0].args) >= 2 and norm(callers[0].args[1]) == field
        ctx.ob('R3.2', 'core.%s:levels-decoded-by-the-coding-the-page-declares' % q, ok,
               'read_data(io, %s, ...): a constant coding here reads a BIT_PACKED level block (legal in old files) as a '
               'length-prefixed hybrid stream and returns wrong nulls without an error' % (
                   norm(callers[0].args[1]) if callers and len(callers[0].args) >= 2 else '?'), core.loc(f))
    ctx.floor('R3.2', 'level decode sites (v1)', n, 2)
    rd = core.func('read_data')
    chain = [st for st in rd.body if isinstance(st, ast.If) and 'coding' in norm(st.test)]
    ok = len(chain) == 1 and norm(chain[0].test) == 'coding == parquet_thrift.Encoding.RLE' and _chain_ends_in_raise(chain[0])
    ctx.ob('R3.2', 'core.read_data:only-RLE-accepted-everything-else-raises', ok,
           'dispatch `%s` must end in a raise' % (norm(chain[0].test) if chain else '?'), core.loc(rd))
    # ... and RLE is the only coding with an arm: the deprecated BIT_PACKED layout packs from the most significant bit,
    # the package's only fixed-width helpers (read_bitpacked1 / read_bitpacked) pack from the least significant one
    arms = []
    x = chain[0] if chain else None
    while isinstance(x, ast.If):
        arms.append(x)
        x = x.orelse[0] if len(x.orelse) == 1 and isinstance(x.orelse[0], ast.If) else None
    extra = [norm(a_.test) for a_ in arms[1:] if not all(isinstance(st, ast.Raise) for st in a_.body)]
    ctx.ob('R3.2', 'core.read_data:no-decoding-arm-for-a-coding-without-a-decoder', not extra,
           'arms besides RLE that decode instead of refusing: %s' % extra, core.loc(rd))
    # scattering decoded values by a null mask is an indexed assignment (values taken by rank among the selected
    # positions); np.putmask takes them by position and repeats them
    for mn in ('core', 'converted_types', 'encoding'):
        m_ = ctx.repo[mn]
        for q_, g_ in m_.funcs.items():
            for c_ in walk_no_nested(g_):
                if isinstance(c_, ast.Call) and (callee(c_) or '').split('.')[-1] == 'putmask' and len(c_.args) >= 3 \
                        and not isinstance(c_.args[2], ast.Constant):
                    ctx.ob('R3.13', '%s.%s:values-scattered-by-rank-not-by-position' % (mn, q_), False,
                           '`%s`: putmask(a, mask, values) uses values[i] for position i; the decoded values are as many as the '
                           'mask has true entries' % norm(c_)[:80], m_.loc(c_))


def r33(ctx, core, api):
    f = core.func('read_data_page')
    cfg = CFG(f)
    sk = [s for s in iter_child_stmts(f.body) if isinstance(s, ast.Expr) and callee(s.value) == 'skip_definition_bytes']
    ok = len(sk) == 1 and any('skip_nulls' in norm(e.test) for e, fld in cfg.enclosing_tests(sk[0]) if isinstance(e, ast.If) and fld == 'body')
    ctx.ob('R3.3', 'core.read_data_page:definition-bytes-skipped-only-under-skip_nulls', ok, '', core.loc(f))
    rc = core.func('read_col')
    cfg2 = CFG(rc)
    setters = [s for s in iter_child_stmts(rc.body) if isinstance(s, ast.Assign) and any(norm(t) == 'skip_nulls' for t in s.targets)]
    # (the condition under which the flag ends up true, however it is spelled: if/else with constants, bool(c), c)
    tr = pathcond.truth_of(rc, 'skip_nulls')
    ok = tr is not None and pathcond.requires(tr, lambda a: a == 'selfmade') and \
        pathcond.requires(tr, lambda a: 'null_count' in a and ('== 0' in a or '0 ==' in a))
    ctx.ob('R3.3', 'core.read_col:skip_nulls-requires-selfmade-and-zero-null-count', ok,
           'skipping the definition levels assumes fastparquet\'s own fixed-size level block', core.loc(setters[0]) if setters else core.loc(rc))
    call = [c for c in ast.walk(rc) if isinstance(c, ast.Call) and callee(c) == 'read_data_page']
    ctx.ob('R3.3', 'core.read_col:skip_nulls-and-selfmade-passed-to-the-page-reader',
           len(call) == 1 and norm(call[0].args[4]) == 'skip_nulls' and norm(kwarg(call[0], 'selfmade')) == 'selfmade', '', core.loc(rc))
    for q in ('read_data_page', 'read_data_page_v2'):
        g = core.func(q)
        ifs = [s for s in iter_child_stmts(g.body) if isinstance(s, ast.If) and 'bit_width in [8, 16, 32]' in norm(s.test)]
        ok = len(ifs) == 1
        d = 'raw-index fast path not found'
        if ok:
            t = ifs[0].test
            conj = [norm(v) for v in (t.values if isinstance(t, ast.BoolOp) and isinstance(t.op, ast.And) else [t])]
            d = str(conj)
            body_src = src(ast.Module(body=ifs[0].body, type_ignores=[]))
            ok = 'selfmade' in conj and ('frombuffer' in body_src or 'outbytes' in body_src)
        ctx.ob('R3.3', 'core.%s:raw-dictionary-index-fast-path-requires-selfmade' % q, ok,
               'reading the index stream as one raw intN array assumes a single bit-packed run as fastparquet writes it: %s' % d,
               core.loc(ifs[0]) if ifs else core.loc(g))
        # selfmade is a parameter, not recomputed
        ctx.ob('R3.3', 'core.%s:selfmade-is-the-callers-flag' % q,
               any(a.arg == 'selfmade' for a in g.args.args) and not any(
                   isinstance(s, ast.Assign) and norm(s.targets[0]) == 'selfmade' for s in ast.walk(g)), '', core.loc(g))
    # provenance of selfmade
    rr = api.func('ParquetFile.read_row_group_file')
    c = [c for c in ast.walk(rr) if isinstance(c, ast.Call) and callee(c) == 'core.read_row_group']
    ctx.ob('R3.3', 'api.read_row_group_file:passes-the-handle-flag', len(c) == 1 and norm(kwarg(c[0], 'selfmade')) == 'self.selfmade', '', api.loc(rr))
    for q, callee_name in (('read_row_group', 'read_row_group_arrays'), ('read_row_group_arrays', 'read_col')):
        g = core.func(q)
        cc = [c for c in ast.walk(g) if isinstance(c, ast.Call) and callee(c) == callee_name]
        ok = len(cc) == 1 and ('selfmade' in [norm(a) for a in cc[0].args] or norm(kwarg(cc[0], 'selfmade')) == 'selfmade')
        ctx.ob('R3.3', 'core.%s:threads-selfmade-to-%s' % (q, callee_name), ok, '', core.loc(g))
    sa = api.func('ParquetFile._set_attrs')
    d = [s for s in sa.body if isinstance(s, ast.Assign) and norm(s.targets[0]) == 'self.selfmade']
    ok = len(d) == 1 and norm(d[0].value) == "b'fastparquet' in self.created_by if self.created_by is not None else False"
    stores = [q for m, q, f in ctx.repo.functions() for s in walk_no_nested(f) if isinstance(s, ast.Assign)
              and any(isinstance(t, ast.Attribute) and t.attr == 'selfmade' for t in s.targets)]
    ctx.ob('R3.3', 'api._set_attrs:selfmade-derives-only-from-created_by', ok and stores == ['ParquetFile._set_attrs'],
           '%s; stored in %s' % (norm(d[0].value) if d else '?', stores), api.loc(sa))


def r35(ctx, core):
    g = core.func('read_data_page_v2')
    st = [s for s in iter_child_stmts(g.body) if isinstance(s, ast.Assign) and norm(s.targets[0]) == 'data_header2.is_compressed']
    cfg = CFG(g)
    ok = len(st) == 1
    d = ''
    if ok:
        tests = [norm(e.test) for e, fld in cfg.enclosing_tests(st[0]) if isinstance(e, ast.If) and fld == 'body']
        d = str(tests)
        ok = tests == ['data_header2.is_compressed is None'] and norm(st[0].value) == 'True'
    ctx.ob('R3.5', 'core.read_data_page_v2:is_compressed-defaulted-only-when-absent', ok,
           'the optional flag defaults to true when absent; an explicit false must be honoured: %s' % d,
           core.loc(st[0]) if st else core.loc(g))
    uses = [norm(x) for x in ast.walk(g) if isinstance(x, ast.IfExp) and 'is_compressed' in norm(x.test)]
    ctx.ob('R3.5', 'core.read_data_page_v2:uncompressed-flag-selects-no-decompression',
           len(uses) >= 4 and all(u == "cmd.codec if data_header2.is_compressed else 'UNCOMPRESSED'" for u in uses), str(set(uses)), core.loc(g))


def r36(ctx, core):
    g = core.func('read_data_page_v2')
    cfg = CFG(g)
    dd = [s for s in g.body if isinstance(s, ast.Assign) and norm(s.targets[0]) == 'data']
    want = 'infile.tell() + data_header2.definition_levels_byte_length + data_header2.repetition_levels_byte_length'
    ok = len(dd) == 1 and norm(dd[0].value) == want
    ctx.ob('R3.6', 'core.read_data_page_v2:value-offset-is-page-start-plus-both-level-lengths', ok,
           norm(dd[0]) if dd else 'definition of `data` not found', core.loc(dd[0]) if dd else core.loc(g))
    sk = [s for s in g.body if isinstance(s, ast.Expr) and norm(s.value) == 'infile.seek(data)']
    ok2 = len(sk) == 1
    ctx.ob('R3.6', 'core.read_data_page_v2:positions-at-the-value-offset-unconditionally', ok2,
           'infile.seek(data) must be a top-level statement: level bytes are only consumed when levels are parsed', core.loc(g))
    if ok and ok2:
        n_def, n_seek = cfg.node_of(dd[0]), cfg.node_of(sk[0])
        # no read of infile between the definition of `data` and ... the definition must precede any read
        reads = [s for s in iter_child_stmts(g.body) if s in cfg.stmt_node and not isinstance(s, (ast.If, ast.For, ast.While, ast.Try, ast.With))
                 and any(isinstance(c, ast.Call) and callee(c) == 'infile.read' for c in ast.walk(s))]
        level_reads = [s for s in reads if 'levels_byte_length' in src(s)]
        value_reads = [s for s in reads if s not in level_reads]
        ctx.ob('R3.6', 'core.read_data_page_v2:value-offset-taken-before-any-read',
               all(not cfg.exists_path(cfg.node_of(r), n_def) for r in reads) and len(reads) >= 6, '%d reads' % len(reads), core.loc(dd[0]))
        ctx.ob('R3.6', 'core.read_data_page_v2:every-value-read-follows-the-repositioning',
               all(cfg.dominates(n_seek, cfg.node_of(r)) for r in value_reads) and len(value_reads) >= 5,
               '%d value reads dominated by infile.seek(data)' % len(value_reads), core.loc(sk[0]))
        ctx.ob('R3.6', 'core.read_data_page_v2:level-reads-precede-the-repositioning',
               all(cfg.exists_path(cfg.node_of(r), n_seek) for r in level_reads) and len(level_reads) == 2, '', core.loc(sk[0]))
    size = [s for s in g.body if isinstance(s, ast.Assign) and norm(s.targets[0]) == 'size']
    ctx.ob('R3.6', 'core.read_data_page_v2:value-size-excludes-both-level-blocks',
           len(size) == 1 and norm(size[0].value) == 'ph.compressed_page_size - data_header2.repetition_levels_byte_length - data_header2.definition_levels_byte_length',
           norm(size[0]) if size else '', core.loc(g))


def r38(ctx, core):
    """the nulls arm and the no-nulls arm of read_col decide 'dictionary indices / plain values / codes' alike"""
    f = core.func('read_col')
    arms = {}
    for s in iter_child_stmts(f.body):
        if isinstance(s, ast.If) and norm(s.test) == 'rep is not None' and s.orelse and isinstance(s.orelse[0], ast.If) \
                and norm(s.orelse[0].test) == 'defi is not None':
            arms['nulls'] = s.orelse[0].body
            arms['no-nulls'] = s.orelse[0].orelse
    ok = len(arms) == 2
    d = 'arms not found'
    if ok:
        def chain_tests(body):
            out = []
            for st in body:
                if isinstance(st, ast.If) and 'use_cat' in norm(st.test):
                    node = st
                    while True:
                        out.append(norm(node.test))
                        if len(node.orelse) == 1 and isinstance(node.orelse[0], ast.If):
                            node = node.orelse[0]
                        else:
                            break
            return out
        a, b = chain_tests(arms['nulls']), chain_tests(arms['no-nulls'])
        d = 'nulls arm %s | no-nulls arm %s' % (a, b)
        ok = a == ['d and (not use_cat)', 'not use_cat'] and [t for t in b if t != 'use_cat and (not d)'] == a
    ctx.ob('R3.8', 'core.read_col:nulls-and-no-nulls-arms-dispatch-on-the-page-encoding-alike', ok,
           'whether the page holds dictionary indices is decided by the page\'s own encoding flag `d` in both arms (a chunk '
           'may fall back from dictionary to plain pages): %s' % d, core.loc(f))
    dd = [s for s in iter_child_stmts(f.body) if isinstance(s, ast.Assign) and norm(s.targets[0]) == 'd']
    ctx.ob('R3.8', 'core.read_col:d-is-this-pages-encoding',
           len(dd) == 1 and norm(dd[0].value).startswith('ph.data_page_header.encoding in ['), norm(dd[0])[:100] if dd else '', core.loc(f))


def r39(ctx, rule='R3.9'):
    """scope discipline of the page readers: counts come from the page header, never from the chunk metadata"""
    core = ctx.repo['core']
    n = 0
    for q, chunk_names in (('read_data_page', ('metadata',)), ('read_data_page_v2', ('cmd',)), ('read_def', ('metadata',)),
                           ('read_rep', ('metadata',))):
        f = core.func(q)
        bad = []
        for a in ast.walk(f):
            if isinstance(a, ast.Attribute) and isinstance(a.ctx, ast.Load) and a.attr in ('num_values', 'total_compressed_size',
                                                                                         'total_uncompressed_size'):
                n += 1
                if norm(a.value) in chunk_names:
                    bad.append(norm(a))
        # the two disabled arms of read_def (`if False and ...`) mention metadata.num_values by design
        if q == 'read_def':
            bad = [b for b in bad if not any(isinstance(i, ast.If) and norm(i.test).startswith('False and') and b in norm(i.test)
                                             for i in ast.walk(f))]
        ctx.ob(rule, 'core.%s:value-counts-come-from-the-page-header' % q, not bad,
               'chunk-level quantities used inside the per-page reader: %s (a chunk may hold many pages)' % (bad or 'none'),
               core.loc(f))
    ctx.floor(rule, 'count loads in the page readers', n, 8)
    f = core.func('read_data_page')
    sk = [c for c in ast.walk(f) if isinstance(c, ast.Call) and callee(c) == 'skip_definition_bytes']
    ctx.ob(rule, 'core.read_data_page:definition-bytes-skipped-for-this-pages-value-count',
           len(sk) == 1 and [norm(a) for a in sk[0].args] == ['io_obj', 'daph.num_values'], norm(sk[0]) if sk else '', core.loc(f))


def r311(ctx, core, rule='R3.11'):
    """v2 pages of a masked (nullable) output: the definition levels are decoded straight into the output's mask
    (`defi = assign._mask`), so they must be turned into null flags *in place* (out=<that buffer>) - a rebinding
    comparison leaves raw levels (1 = present) in the mask, i.e. the mask inverted"""
    f = core.func('read_data_page_v2')
    cfg = CFG(f)
    alias = [st for st in iter_child_stmts(f.body) if isinstance(st, ast.Assign) and isinstance(st.targets[0], ast.Name)
             and ((isinstance(st.value, ast.Attribute) and st.value.attr == '_mask') or
                  (isinstance(st.value, ast.Subscript) and isinstance(st.value.value, ast.Attribute) and st.value.value.attr == '_mask'))]
    ctx.ob(rule, 'core.read_data_page_v2:levels-decoded-into-the-output-mask', len(alias) == 1,
           str([norm(a) for a in alias]), core.loc(f))
    if len(alias) != 1:
        return
    name = alias[0].targets[0].id
    inplace = []
    for st in iter_child_stmts(f.body):
        if isinstance(st, ast.Expr) and isinstance(st.value, ast.Call):
            o = kwarg(st.value, 'out', 2)
            if o is not None and norm(o) == name and 'max_def' in norm(st.value):
                inplace.append(st)
    ok = len(inplace) == 1
    d = 'no in-place conversion with out=%s' % name
    if ok:
        st = inplace[0]
        d = norm(st)
        tests = [(norm(e.test), fld) for e, fld in cfg.enclosing_tests(st) if isinstance(e, ast.If)]
        # allowed guards: the block that decoded the levels, and the non-repeated arm
        inner = [t for t in tests if t[0] == 'max_rep']
        other = [t for t in tests if t[0] != 'max_rep' and 'num_nulls' not in t[0]]
        ok = cfg.exists_path(cfg.node_of(alias[0]), cfg.node_of(st)) and not other and all(t == ('max_rep', 'orelse') for t in inner)
        d += ' under %s' % tests
    ctx.ob(rule, 'core.read_data_page_v2:levels-in-the-output-mask-converted-in-place', ok, d, core.loc(alias[0]))


MARKER_EXEMPT_GUARDS = {
    'not nullable': 'masked outputs carry the nulls in their mask (R3.11)',
    "assign.dtype != 'O'": 'object arrays are allocated holding None',
    "not nullable and assign.dtype != 'O'": 'both of the above',
}


def r313(ctx, core, rule='R3.13'):
    """v2 pages with nulls: wherever the defined values are scattered into the non-null slots of the output
    (`out[~nulls...] = values`), the missing-value marker is written to the null slots under no narrower
    condition - otherwise the slots keep whatever the pre-allocated frame held"""
    f = core.func('read_data_page_v2')
    cfg = CFG(f)

    def slot(st):
        if isinstance(st, ast.Assign) and isinstance(st.targets[0], ast.Subscript):
            t = norm(st.targets[0].slice)
            if 'nulls' in t:
                return 'values' if '~nulls' in t else 'marker'
        return None
    scat = [st for st in iter_child_stmts(f.body) if slot(st) == 'values']
    marks = [st for st in iter_child_stmts(f.body) if slot(st) == 'marker']
    ctx.floor(rule, 'scatter sites into non-null slots (v2)', len(scat), 6)

    def guards(st):
        return [(norm(e.test), fld) for e, fld in cfg.enclosing_tests(st) if isinstance(e, ast.If)]
    n = 0
    for s_ in scat:
        gs = guards(s_)
        if any(g == ('nullable', 'body') for g in gs):
            continue            # masked output: R3.11
        n += 1
        ok = False
        detail = 'no marker store in the same arm'
        for m_ in marks:
            if not (cfg.exists_path(cfg.node_of(m_), cfg.node_of(s_)) or cfg.exists_path(cfg.node_of(s_), cfg.node_of(m_))):
                continue
            extra = [g for g in guards(m_) if g not in gs and not (g[1] == 'body' and g[0] in MARKER_EXEMPT_GUARDS)]
            if not extra:
                ok = True
                break
            detail = '`%s` is additionally conditioned on %s' % (norm(m_)[:60], extra)
        ctx.ob(rule, 'core.read_data_page_v2:marker-written-wherever-values-are-scattered:%s' % norm(s_.targets[0])[:60], ok,
               detail if not ok else 'marker store under the same conditions', core.loc(s_))
    ctx.floor(rule, 'scatter sites needing a marker', n, 5)


def r315(ctx, core, rule='R3.15'):
    """a page reader writes only its page's window of the column's output: every use of the output array (or of its
    mask) in read_data_page_v2 is a slice starting at the running offset (`num`, or idx[0] for repeated columns);
    the bare array may only be asked for its dtype or unwrapped to its data part"""
    f = core.func('read_data_page_v2')
    parents = {}
    for n in ast.walk(f):
        for c in ast.iter_child_nodes(n):
            parents[id(c)] = n
    n_sites = 0
    for n in walk_no_nested(f):
        base = None
        if isinstance(n, ast.Name) and n.id == 'assign' and isinstance(n.ctx, ast.Load):
            base = n
            par = parents.get(id(n))
            if isinstance(par, ast.Attribute) and par.attr in ('_mask',):
                base = par
                par = parents.get(id(par))
            elif isinstance(par, ast.Attribute):
                continue          # .dtype, ._data: metadata / unwrapping
            n_sites += 1
            ok = isinstance(par, ast.Subscript) and par.value is base and isinstance(par.slice, ast.Slice) and par.slice.lower is not None \
                and norm(par.slice.lower) in ('num', 'idx[0]')
            ctx.ob(rule, 'core.read_data_page_v2:output-used-through-the-page-window:%s' % norm(par)[:50], ok,
                   '`%s`: the whole-column array (or mask) reaches a decoder / index expression without the page offset; every '
                   'page after the first then reads or writes the first page\'s rows' % norm(par)[:80], core.loc(n))
    ctx.floor(rule, 'uses of the output array in read_data_page_v2', n_sites, 15)


def r316(ctx, core, comp, rule='R3.16'):
    """decompress_data returns whatever the codec returns (an ndarray only for the decompress-into codecs; LZ4 gives
    a buffer object): a result that is sliced or indexed must first be wrapped as an array"""
    into = set(module_table(ctx.repo, 'compression', 'decom_into').keys()) if False else None
    n = 0
    for q, f in core.funcs.items():
        raw = {}
        for st in walk_no_nested(f):
            if isinstance(st, ast.Assign) and len(st.targets) == 1 and isinstance(st.targets[0], ast.Name) \
                    and isinstance(st.value, ast.Call) and (callee(st.value) or '').endswith('decompress_data'):
                raw.setdefault(st.targets[0].id, []).append(st)
        if not raw:
            continue
        cfg = CFG(f)
        rd = ReachingDefs(cfg)
        for x in walk_no_nested(f):
            if isinstance(x, ast.Subscript) and isinstance(x.value, ast.Name) and x.value.id in raw and isinstance(x.ctx, ast.Load):
                # does the raw (unwrapped) definition reach this use?
                nid = None
                for nd in cfg.nodes:
                    if nd.stmt is not None and any(y is x for y in ast.walk(nd.stmt)) and not isinstance(nd.stmt, (ast.If, ast.For, ast.While, ast.Try, ast.With)):
                        nid = nd.id
                if nid is None:
                    continue
                n += 1
                reach = rd.defs_reaching(nid, x.value.id)
                bad = [d for d in reach if any(cfg.nodes[d].stmt is r for r in raw[x.value.id])]
                ctx.ob(rule, 'core.%s:decompressed-bytes-wrapped-before-slicing:%s' % (q, norm(x)[:40]), not bad,
                       '`%s` slices the direct result of decompress_data, which for LZ4/LZO is not an array' % norm(x), core.loc(x))
    ctx.stat('%s slices of names bound to decompress_data results' % rule, n)


def r317(ctx, rule='R3.17'):
    """writers mark a leaf schema element with num_children absent *or* 0: every test of num_children in the package
    treats the two alike (membership in [None, 0], truthiness, or an explicit disjunction)"""
    n = 0
    for mname in ('api', 'schema', 'core', 'util', 'writer', 'converted_types'):
        m = ctx.repo[mname]
        for q, f in m.funcs.items():
            for x in walk_no_nested(f):
                if isinstance(x, ast.Compare) and isinstance(x.left, ast.Attribute) and x.left.attr == 'num_children' and len(x.ops) == 1:
                    op, c = x.ops[0], x.comparators[0]
                    n += 1
                    ok = True
                    if isinstance(op, (ast.Is, ast.IsNot, ast.Eq, ast.NotEq)) and isinstance(c, ast.Constant) and c.value in (None, 0):
                        # a bare comparison with one of the two spellings: fine only inside a disjunction with the other
                        par = [b for b in walk_no_nested(f) if isinstance(b, ast.BoolOp) and any(v is x for v in b.values)]
                        other = 0 if c.value is None else None
                        ok = any(any(isinstance(v, ast.Compare) and isinstance(v.left, ast.Attribute) and v.left.attr == 'num_children'
                                     and isinstance(v.comparators[0], ast.Constant) and v.comparators[0].value is other
                                     or (isinstance(v, ast.UnaryOp) and 'num_children' in norm(v)) for v in b.values) for b in par)
                    elif isinstance(op, (ast.In, ast.NotIn)) and isinstance(c, (ast.List, ast.Tuple, ast.Set)):
                        vals = [e.value for e in c.elts if isinstance(e, ast.Constant)]
                        ok = None in vals and 0 in vals
                    ctx.ob(rule, '%s.%s:leaf-test-treats-absent-and-zero-children-alike:%s' % (mname, q, norm(x)[:40]), ok,
                           '`%s`: some writers put num_children=0 on leaves; a test for one spelling only takes their leaves for groups' % norm(x), m.loc(x))
    ctx.floor(rule, 'tests of num_children', n, 2)


def r319(ctx, core, rule='R3.19'):
    """v1 data pages, values in RLE / dictionary form: RLE data values (booleans) carry a 4-byte length prefix and no
    bit-width byte - the reader skips the prefix, as the v2 reader does; dictionary indices always start with their
    bit-width byte, whatever the column's physical type"""
    f = core.func('read_data_page')
    arms = [x for x in ast.walk(f) if isinstance(x, ast.If) and norm(x.test) == 'daph.encoding == parquet_thrift.Encoding.RLE']
    ok = False
    d = 'no arm for RLE data values'
    for a in arms:
        skips = [c for c in ast.walk(ast.Module(body=a.body, type_ignores=[])) if isinstance(c, ast.Call) and (callee(c) or '').endswith('.seek')
                 and len(c.args) == 2 and norm(c.args[0]) == '4' and norm(c.args[1]) == '1']
        reads = [st for st in a.orelse if isinstance(st, ast.Assign) and norm(st.targets[0]) == 'bit_width' and 'read_byte()' in norm(st.value)]
        if skips and reads:
            ok = True
        d = 'RLE arm skips the prefix: %s; other arm reads the width byte unconditionally: %s' % (bool(skips), bool(reads))
    ctx.ob(rule, 'core.read_data_page:RLE-values-skip-their-length-prefix-and-indices-read-their-width', ok, d, core.loc(f))
    g = core.func('read_data_page_v2')
    v2 = [c for c in ast.walk(g) if isinstance(c, ast.Call) and (callee(c) or '').endswith('.seek') and len(c.args) == 2
          and norm(c.args[0]) == '4' and norm(c.args[1]) == '1']
    ctx.ob(rule, 'core.read_data_page_v2:RLE-values-skip-their-length-prefix', len(v2) == 1, '', core.loc(g))


def r320(ctx, rule='R3.20'):
    """converted_types.convert, DECIMAL from byte strings: slicing the raw memory (`data.data[...]`) is only meaningful
    for fixed-width string arrays; object arrays of bytes are handled before it.  And core.read_data_page_v2 decodes
    delta pages in place only when the decoded item size is the output's"""
    ct = ctx.repo['converted_types']
    f = ct.func('convert')
    raws = [x for x in walk_no_nested(f) if isinstance(x, ast.Subscript) and norm(x.value) == 'data.data']
    ctx.floor(rule, 'raw-memory slices in convert', len(raws), 1)
    for x in raws:
        blk = None
        for b in _blocks(f.body):
            if any(any(y is x for y in ast.walk(st)) for st in b):
                blk = b
        before_ = []
        for st in blk or []:
            if any(y is x for y in ast.walk(st)):
                break
            before_.append(st)
        ok = any(isinstance(st, ast.If) and "data.dtype == 'O'" in norm(st.test) and any(isinstance(r, ast.Return) for r in st.body) for st in before_)
        ctx.ob(rule, 'converted_types.convert:raw-memory-slice-only-for-fixed-width-arrays', ok,
               '`%s`: for an object array data.data is the memory of the object pointers' % norm(x), ct.loc(x))
    core = ctx.repo['core']
    g = core.func('read_data_page_v2')
    cfg = CFG(g)
    n = 0
    for c in walk_no_nested(g):
        if isinstance(c, ast.Call) and (callee(c) or '').endswith('delta_binary_unpack') and len(c.args) >= 2 and 'assign[' in norm(c.args[1]):
            n += 1
            st = None
            for nd in cfg.nodes:
                if nd.stmt is not None and any(y is c for y in ast.walk(nd.stmt)) and not isinstance(nd.stmt, (ast.If, ast.For, ast.While, ast.Try, ast.With)):
                    st = nd.stmt
            tests = ' && '.join(norm(e.test) for e, fld in cfg.enclosing_tests(st) if isinstance(e, ast.If) and fld == 'body') if st is not None else ''
            ctx.ob(rule, 'core.read_data_page_v2:in-place-delta-decode-only-into-same-item-size', 'see' in tests.split() or ' see ' in (' ' + tests.replace('(', ' ').replace(')', ' ') + ' '),
                   'guards: %s - a 4-byte decode into an 8-byte (datetime, timedelta, int64) output overwrites its slots' % tests[:160], core.loc(c))
    ctx.floor(rule, 'in-place delta decodes', n, 1)


def _blocks(stmts):
    yield stmts
    for st in stmts:
        if isinstance(st, (ast.FunctionDef, ast.AsyncFunctionDef, ast.ClassDef)):
            continue
        for fld in ('body', 'orelse', 'finalbody'):
            sub = getattr(st, fld, None)
            if isinstance(sub, list) and sub:
                yield from _blocks(sub)
        for h in getattr(st, 'handlers', []) or []:
            yield from _blocks(h.body)


def r322(ctx, core, rule='R3.22'):
    """v2 pages, dictionary-index / RLE-boolean branch of read_data_page_v2 (known finding K03b): (a) the `itemsize`
    handed to the hybrid decoder is the byte size of one output element; (b) no run header is read and thrown away on the
    route that then calls the hybrid decoder (only the byte-exact fast path may skip it); (c) the scratch array that is
    scattered into the non-null slots has one element per non-null value; (d) raw page bytes assigned to a typed code
    array are viewed as that type first"""
    f = core.func('read_data_page_v2')
    cfg = CFG(f)
    hyb = [c for c in walk_no_nested(f) if isinstance(c, ast.Call) and (callee(c) or '').endswith('read_rle_bit_packed_hybrid')]
    for i, c in enumerate(sorted(hyb, key=lambda x: (x.lineno, x.col_offset))):
        it = kwarg(c, 'itemsize', 4)
        ok = isinstance(it, ast.Constant) and it.value in (1, 4) or (it is not None and 'itemsize' in norm(it))
        ctx.ob(rule, 'core.read_data_page_v2:hybrid-itemsize-is-the-output-item-size:#%d' % i, ok,
               'itemsize=%s: the decoder advances its output by itemsize bytes per value; a bit width (1..32) is not a byte size '
               '(width 3 into int8 codes writes every third byte)' % (norm(it) if it is not None else '?'), core.loc(c))
    bare = [st for st in iter_child_stmts(f.body) if isinstance(st, ast.Expr) and isinstance(st.value, ast.Call)
            and (callee(st.value) or '').endswith('read_unsigned_var_int')]
    for st in bare:
        stream = norm(st.value.args[0]) if st.value.args else ''
        later = [c for c in hyb if c.args and norm(c.args[0]) == stream and cfg.exists_path(cfg.node_of(st), _node_of_call(cfg, c))]
        ctx.ob(rule, 'core.read_data_page_v2:no-run-header-discarded-before-the-general-decoder', not later,
               '`%s` consumes the first run header of the index stream; %d hybrid decode(s) of the same stream follow on some path '
               'and start in the middle of the first run' % (norm(st), len(later)), core.loc(st))
    scr = [st for st in iter_child_stmts(f.body) if isinstance(st, ast.Assign) and norm(st.targets[0]) == 'temp' and 'np.empty(' in norm(st.value)]
    for st in scr:
        used_nonnull = any(isinstance(x, ast.Assign) and '~nulls' in norm(x.targets[0]) and 'temp' in norm(x.value) for x in iter_child_stmts(f.body))
        okn = 'n_values' in norm(st.value) and 'data_header2.num_values' not in norm(st.value)
        ctx.ob(rule, 'core.read_data_page_v2:scratch-for-non-null-values-has-non-null-count', okn or not used_nonnull,
               '`%s` is scattered into the non-null slots ([~nulls]) but has one element per *row*: with nulls the shapes differ' % norm(st)[:80], core.loc(st))
    for st in iter_child_stmts(f.body):
        if isinstance(st, ast.Assign) and isinstance(st.targets[0], ast.Subscript) and 'outbytes' in norm(st.value) \
                and ".view('uint8')" not in norm(st.targets[0]):
            ctx.ob(rule, 'core.read_data_page_v2:fast-path-bytes-viewed-as-codes:%s' % norm(st.targets[0])[-28:], '.view(' in norm(st.value),
                   '`%s`: outbytes is the raw byte string of the page; for int16 / int32 codes each byte would become one code' % norm(st)[:100], core.loc(st))


def _node_of_call(cfg, c):
    for nd in cfg.nodes:
        if nd.stmt is not None and any(y is c for y in ast.walk(nd.stmt)) and not isinstance(nd.stmt, (ast.If, ast.For, ast.While, ast.Try, ast.With)):
            return nd.id
    return None
