"""C04 - column statistics are exact (tally, sibling guards, presence tests, isomorphic decode)."""
import ast
import re

from ..model import AnalysisError, callee, norm, src, walk_no_nested, iter_child_stmts, kwarg, before
from ..cfg import CFG, ReachingDefs
from ..symwalk import State, Lin, Obj
from .c02 import PageWalker, _find_page_loop


def run(ctx):
    ctx.technique = 'value-numbered tally over all page-loop paths, sibling-branch agreement, None-ness test discipline, alpha-equivalence of decode blocks'
    ctx.explanation = (
        'Decides: (R4.1) on every path through the page loop the chunk null tally grows by exactly the null '
        'count of that page, computed from the page slice before nulls are stripped, the v2 header reports the '
        'same count, and both Statistics constructions pass the chunk tally; (R4.2) the categorical and the '
        'plain statistics branches both drop min/max when there is no non-null value or no order (isna guard, '
        'TypeError/ValueError handler) and strip the 4-byte length prefix only for BYTE_ARRAY with a converted '
        'type; (R4.3) the four min/max decode blocks of api.statistics are the same code modulo the field name; '
        '(R4.4) the stats setting is resolved per column for exactly the documented forms; (R4.5) presence of a '
        'statistic is tested with `is not None` (b"" and 0 are values); (R4.6) derived statistics are computed '
        'on a private structure.')
    ctx.not_decided = ('that min/max are the true extrema under the column type\'s Parquet order (e.g. the categorical '
                       'branch orders by category position) - a value-level behaviour of pandas objects')
    wr, api = ctx.repo['writer'], ctx.repo['api']
    r41(ctx, wr)
    r42(ctx, wr)
    r43_45(ctx, api)
    r44(ctx, wr)
    r46(ctx, api)
    r48(ctx, api)
    r410(ctx, api)
    from . import simple_append as _sa, c14 as _c14
    _sa.commit_after_loop_rule(ctx, 'R4.11')
    _sa.commit_after_loop_multi_rule(ctx, 'R4.11')
    _c14.r147(ctx, 'R4.12')
    from . import findings2 as _f2
    _f2.json_statistics(ctx, 'R4.9')
    from . import c02, c05, c20
    c02.r27(ctx, 'R4.7')
    c05.r55(ctx, api)        # sorted_partitioned_columns(filters=...) goes through filter_row_groups(as_idx=True)
    c05.r54(ctx, api)        # ... and the bounds it is judged by are those of the column named, decoded per column
    from . import c01 as _c01
    _c01.r126(ctx, 'R4.13')    # stored bounds are decoded through converted_types.convert
    c20.r202(ctx)            # pf[i].statistics must be computed for the slice, not inherited
    from . import callsigs as _cs
    from . import findings3 as _f3
    _f3.statistics_decoding(ctx, 'R4.14')
    _cs.general_rules(ctx, 'R4', ['writer.write', 'writer.write_simple', 'writer.write_multi', 'writer.make_row_group', 'writer.make_part_file', 'writer.partition_on_columns', 'api.statistics', 'api.sorted_partitioned_columns'])


def r41(ctx, wr):
    f = wr.func('write_column')
    loop = _find_page_loop(f)
    w = PageWalker(f.args.args[0].arg)
    w.max_paths = 400000
    st0 = State()
    st0.env['global_num_nulls'] = Lin({('acc', 'global_num_nulls'): 1})
    st0.env['data0'] = Obj('data0', 0)
    npaths = 0
    sigs = set()
    for fin in w.walk(loop.body, st0):
        if fin.status == 'raise':
            continue
        npaths += 1
        g = fin.env.get('global_num_nulls')
        nn = fin.env.get('num_nulls')
        want = Lin({('acc', 'global_num_nulls'): 1}) + w.as_lin(nn) if nn is not None else None
        sig = (repr(g) == repr(want))
        ok = g == want
        ctx.ob('R4.1', 'writer.write_column:chunk-null-tally-grows-by-this-pages-nulls', ok,
               'after one page the tally is %r; this page has num_nulls = %r' % (g, nn), wr.loc(loop),
               nontrivial=sig not in sigs)
        sigs.add(sig)
        # v2 header num_nulls is the same value
        for e in fin.events:
            if e[0] == 'header' and isinstance(e[1], Obj) and e[1].fields and 'data_page_header_v2' in e[1].fields:
                h2 = e[1].fields['data_page_header_v2']
                if isinstance(h2, Obj) and h2.fields:
                    ctx.ob('R4.1', 'writer.write_column:v2-header-num_nulls-is-the-tallied-count',
                           h2.fields.get('num_nulls') == nn, 'header num_nulls %r, tallied %r' % (h2.fields.get('num_nulls'), nn),
                           wr.loc(e[2]), nontrivial=False)
    ctx.floor('R4.1', 'paths through the page loop', npaths, 100)
    # null count computed from the page slice, before make_definitions strips nulls
    cfg = CFG(f)
    rd = ReachingDefs(cfg)
    nn_defs = [s for s in iter_child_stmts(loop.body) if isinstance(s, ast.Assign) and norm(s.targets[0]) == 'num_nulls']
    texts = sorted(norm(s.value) for s in nn_defs)
    ctx.ob('R4.1', 'writer.write_column:num_nulls-definitions',
           texts == ['(data.cat.codes == -1).sum()', '0', 'int(num_nulls)', 'len(data) - data.count()'], str(texts), wr.loc(loop))
    sl = [s for s in loop.body if isinstance(s, ast.Assign) and 'data0.iloc[row_start:row_end]' in norm(s)]
    for s in nn_defs:
        if 'data' in {n.id for n in ast.walk(s.value) if isinstance(n, ast.Name)}:
            defs = rd.defs_reaching(cfg.node_of(s), 'data')
            ok = bool(sl) and defs == {cfg.node_of(sl[0])}
            ctx.ob('R4.1', 'writer.write_column:nulls-counted-on-the-unstripped-page-slice:%s' % norm(s.value)[:30], ok,
                   'the data counted must be data0.iloc[row_start:row_end], not the null-stripped series returned by make_definitions',
                   wr.loc(s))
    stats = [c for c in ast.walk(f) if isinstance(c, ast.Call) and callee(c) == 'parquet_thrift.Statistics']
    ctx.floor('R4.1', 'Statistics constructions', len(stats), 2)
    for i, c in enumerate(sorted(stats, key=lambda c: (c.lineno, c.col_offset))):
        ctx.ob('R4.1', 'writer.write_column:Statistics#%d-null_count-is-the-chunk-tally' % (i + 1),
               norm(kwarg(c, 'null_count')) == 'global_num_nulls', norm(c), wr.loc(c))
    init = [s for s in f.body if isinstance(s, ast.Assign) and norm(s) == 'global_num_nulls = 0']
    ctx.ob('R4.1', 'writer.write_column:tally-starts-at-zero-before-the-loop', len(init) == 1 and before(f.body, init[0], loop), '', wr.loc(f))
    smin = [c for c in stats if kwarg(c, 'max') is not None]
    ctx.ob('R4.1', 'writer.write_column:min-max-attached-only-when-stats-still-true',
           len(smin) == 1 and norm(kwarg(smin[0], 'max')) == 'max' and norm(kwarg(smin[0], 'min')) == 'min' and
           [norm(e.test) for e, fld in cfg.enclosing_tests(_stmt(f, smin[0])) if isinstance(e, ast.If) and fld == 'body'] == ['stats'],
           '', wr.loc(f))


def _stmt(func, node):
    for st in iter_child_stmts(func.body):
        if isinstance(st, (ast.If, ast.For, ast.While, ast.Try, ast.With, ast.FunctionDef)):
            continue
        if any(node is x for x in ast.walk(st)):
            return st


def r42(ctx, wr):
    f = wr.func('write_column')
    loop = _find_page_loop(f)
    pre = f.body[:f.body.index(loop)]
    blk = [s for s in pre if isinstance(s, ast.If) and 'stats' in norm(s.test) and s.orelse and isinstance(s.orelse[0], ast.If)]
    if len(blk) != 1:
        raise AnalysisError('R4.2: statistics if/elif block of write_column not found')
    cat_arm, plain_arm = blk[0], blk[0].orelse[0]
    # the bounds that go into the footer are the ones computed there: nothing re-binds max / min afterwards (a prefix
    # of the largest value is not an upper bound, a rounded minimum not a lower one)
    later = []
    for st in walk_no_nested(f):
        if isinstance(st, (ast.Assign, ast.AugAssign)) and not any(st is y for y in ast.walk(blk[0])):
            tg = st.targets if isinstance(st, ast.Assign) else [st.target]
            names = {x.id for t in tg for x in ast.walk(t) if isinstance(x, ast.Name)}
            if names & {'max', 'min'} and not (isinstance(st, ast.Assign) and norm(st.value) in ('(None, None)', 'None')):
                later.append(st)
    ctx.ob('R4.2', 'writer.write_column:bounds-are-not-altered-after-they-were-computed', not later,
           '%s: the recorded min / max must bound every stored value exactly as the reader compares them' % [norm(x)[:60] for x in later],
           wr.loc(later[0]) if later else wr.loc(blk[0]))
    ctx.ob('R4.2', 'writer.write_column:both-arms-conditional-on-stats',
           norm(cat_arm.test) == 'isinstance(data0.dtype, pd.CategoricalDtype) and stats' and norm(plain_arm.test) == 'stats',
           '%s | %s' % (norm(cat_arm.test), norm(plain_arm.test)), wr.loc(cat_arm))
    for name, arm in (('categorical', cat_arm), ('plain', plain_arm)):
        trys = [s for s in arm.body if isinstance(s, ast.Try)]
        ok = len(trys) == 1 and len(arm.body) == 1
        ctx.ob('R4.2', 'writer.write_column:%s-arm-wrapped-in-try' % name, ok, '', wr.loc(arm))
        if not ok:
            continue
        t = trys[0]
        h = t.handlers
        ok = len(h) == 1 and sorted(norm(e) for e in (h[0].type.elts if isinstance(h[0].type, ast.Tuple) else [h[0].type])) == ['TypeError', 'ValueError'] \
            and [norm(x) for x in h[0].body] == ['stats = False']
        ctx.ob('R4.2', 'writer.write_column:%s-arm-unorderable-values-drop-min-max' % name, ok,
               'except (TypeError, ValueError): stats = False', wr.loc(t))
        guard = [s for s in t.body if isinstance(s, ast.If) and norm(s.test) == 'pd.isna(max)']
        ok = len(guard) == 1 and [norm(x) for x in guard[0].body] == ['stats = False']
        ctx.ob('R4.2', 'writer.write_column:%s-arm-no-non-null-value-drops-min-max' % name, ok,
               'if pd.isna(max): stats = False', wr.loc(t))
        if guard:
            enc = guard[0].orelse
            s = src(ast.Module(body=enc, type_ignores=[]))
            inner = [x for x in enc if isinstance(x, ast.If) and norm(x.test) == 'selement.type == parquet_thrift.Type.BYTE_ARRAY']
            ok = len(inner) == 1 and len(inner[0].body) == 1 and isinstance(inner[0].body[0], ast.If) and \
                norm(inner[0].body[0].test) == 'selement.converted_type is not None'
            if ok:
                strip = src(ast.Module(body=inner[0].body[0].body, type_ignores=[]))
                other = src(ast.Module(body=inner[0].orelse, type_ignores=[]))
                ok = strip.count('[4:]') == 2 and '[4:]' not in other and other.count("encode['PLAIN']") == 2 and strip.count("encode['PLAIN']") == 2
            ctx.ob('R4.2', 'writer.write_column:%s-arm-length-prefix-stripped-only-for-converted-byte-arrays' % name, ok,
                   'max/min of BYTE_ARRAY+converted type lose the 4-byte PLAIN length prefix; other types keep PLAIN bytes', wr.loc(t))
        if name == 'categorical':
            dn = [s for s in t.body if isinstance(s, ast.Assign) and norm(s.targets[0]) == 'dnnu']
            # the chain of definitions of dnnu starts from the values present in this chunk
            okd = len(dn) >= 1 and norm(dn[0].value).startswith('data0.unique()') and all(
                'dnnu' in norm(x.value) for x in dn[1:])
            # ... and the extremes are taken by the labels' own order: an ordered view of the categorical (as_ordered)
            # ranks by category position
            byval = not any('as_ordered' in norm(x.value) for x in dn) and any('categories.dtype' in norm(x.value) for x in dn)
            ctx.ob('R4.2', 'writer.write_column:categorical-bounds-ordered-by-label-value', byval,
                   '%s: max()/min() of an ordered categorical go by category position, not by value' % [norm(x)[:70] for x in dn], wr.loc(t))
            ctx.ob('R4.2', 'writer.write_column:categorical-bounds-from-the-values-present-in-the-chunk', okd,
                   '`%s`: the bounds describe the values stored in this chunk (data0.unique()), not the dtype\'s category set' % (
                       norm(dn[0]) if dn else '?'), wr.loc(t))
        mm = [s for s in t.body if isinstance(s, ast.Assign) and norm(s.targets[0]) == '(max, min)']
        want = '(dnnu.max(), dnnu.min())' if name == 'categorical' else '(data0.max(), data0.min())'
        ctx.ob('R4.2', 'writer.write_column:%s-arm-max-min-assigned-in-that-order' % name,
               len(mm) == 1 and norm(mm[0].value) == want, norm(mm[0]) if mm else '', wr.loc(t))


def r43_45(ctx, api):
    f = api.func('statistics')
    arm = [s for s in f.body if isinstance(s, ast.If) and "thrift_name == 'ColumnChunk'" in norm(s.test)]
    if len(arm) != 1:
        raise AnalysisError('R4.3: ColumnChunk arm of api.statistics not found')
    arm = arm[0]
    trys = [s for s in iter_child_stmts(arm.body) if isinstance(s, ast.Try)]
    ctx.floor('R4.3', 'decode blocks in api.statistics', len(trys), 4)
    canon = set()
    for t in trys:
        s = src(t)
        s = re.sub(r"s\.(max|min)(_value)?", 's.FIELD', s)
        s = re.sub(r"rv\['(max|min)'\]", "rv['FIELD']", s)
        canon.add(s)
    ctx.ob('R4.3', 'api.statistics:four-decode-blocks-are-isomorphic', len(canon) == 1,
           '%d distinct shapes after renaming the field' % len(canon), api.loc(arm))
    # each block stores into the key of the field it decodes
    pairs = []
    for t in trys:
        flds = set(re.findall(r"s\.((?:max|min)(?:_value)?)", src(t)))
        keys = set(re.findall(r"rv\['(max|min)'\]", src(t)))
        pairs.append((sorted(flds), sorted(keys)))
    ok = sorted(pairs) == sorted([(['max'], ['max']), (['max_value'], ['max']), (['min'], ['min']), (['min_value'], ['min'])])
    ctx.ob('R4.3', 'api.statistics:each-block-decodes-one-field-into-its-own-key', ok, str(pairs), api.loc(arm))
    # R4.5 presence tests
    bad = []
    n = 0
    for s in iter_child_stmts(arm.body):
        if isinstance(s, ast.If):
            t = s.test
            txt = norm(t)
            if re.search(r'\bs\.(max|min|max_value|min_value|null_count|distinct_count)\b', txt):
                n += 1
                ok = isinstance(t, ast.Compare) and len(t.ops) == 1 and isinstance(t.ops[0], ast.IsNot) and \
                    isinstance(t.comparators[0], ast.Constant) and t.comparators[0].value is None
                if not ok:
                    bad.append(txt)
    ctx.floor('R4.5', 'presence tests in api.statistics', n, 6)
    ctx.ob('R4.5', 'api.statistics:presence-of-a-statistic-tested-with-is-not-None', not bad,
           'tests relying on truthiness: %s (an empty string or 0 is a legitimate bound/count)' % (bad or 'none'), api.loc(arm))
    ctx.ob('R4.5', 'api.statistics:legacy-field-preferred-then-new-field',
           [norm(s.test) for s in arm.body if isinstance(s, ast.If) and 'max' in norm(s.test)][:1] == ['s.max is not None'], '', api.loc(arm))
    # ParquetFile arm: null marker per column and conversion of both min and max
    pf_arm = [s for s in f.body if isinstance(s, ast.If) and norm(s.test) == 'isinstance(obj, ParquetFile)']
    ok = len(pf_arm) == 1 and "for name in ['min', 'max']" in src(pf_arm[0]) and \
        "for n in ['min', 'max', 'null_count', 'distinct_count']" in src(pf_arm[0])
    ctx.ob('R4.3', 'api.statistics:min-and-max-converted-by-the-same-loop', ok, '', api.loc(f))
    if pf_arm:
        se = [s for s in iter_child_stmts(pf_arm[0].body) if isinstance(s, ast.Assign) and norm(s.targets[0]) == 'se']
        ctx.ob('R4.3', 'api.statistics:schema-element-looked-up-by-path-list',
               len(se) == 1 and norm(se[0].value) == 'schema.schema_element(col.meta_data.path_in_schema)',
               '`%s`: a dotted string is split on "." by schema_element, which breaks flat columns whose name contains a dot' % (
                   norm(se[0]) if se else '?'), api.loc(pf_arm[0]))


def r44(ctx, wr):
    f = wr.func('make_row_group')
    chain = [s for s in iter_child_stmts(f.body) if isinstance(s, ast.If) and norm(s.test) == 'isinstance(stats, int)']
    ok = len(chain) == 1
    d = ''
    if ok:
        c = chain[0]
        a1 = [norm(x) for x in c.body]
        e1 = c.orelse[0] if c.orelse and isinstance(c.orelse[0], ast.If) else None
        ok = a1 == ['st = stats'] and e1 is not None and norm(e1.test) == "stats == 'auto'" and \
            [norm(x) for x in e1.body] == ["st = coldata.dtype.kind in ['i', 'u', 'f', 'M']"] and \
            [norm(x) for x in e1.orelse] == ['st = column.name in stats']
        d = '%s / %s' % (a1, norm(e1.test) if e1 is not None else '?')
    ctx.ob('R4.4', 'writer.make_row_group:stats-setting-resolved-per-column', ok,
           'bool/int -> as is; "auto" -> numeric/temporal kinds; container -> membership: %s' % d, wr.loc(f))
    c = [c for c in ast.walk(f) if isinstance(c, ast.Call) and callee(c) == 'write_column']
    ctx.ob('R4.4', 'writer.make_row_group:resolved-setting-passed-to-write_column',
           len(c) == 1 and norm(kwarg(c[0], 'stats')) == 'st' and [norm(a) for a in c[0].args] == ['f', 'coldata', 'column'], '', wr.loc(f))


def r46(ctx, api):
    f = api.func('sorted_partitioned_columns')
    d = [s for s in f.body if isinstance(s, ast.Assign) and norm(s.targets[0]) == 's']
    ctx.ob('R4.6', 'api.sorted_partitioned_columns:works-on-a-private-statistics-structure',
           len(d) == 1 and norm(d[0].value) == 'statistics(pf)',
           '`%s`: the function narrows the per-row-group lists in place; starting from the cached pf.statistics '
           'would truncate what the handle reports afterwards' % (norm(d[0]) if d else '?'), api.loc(f))
    s = src(f)
    ctx.ob('R4.6', 'api.sorted_partitioned_columns:strictly-increasing-test',
           'sorted(min) == min' in s and 'sorted(max) == max' in s and 'mx < mn' in s and 'zip(max[:-1], min[1:])' in s,
           'row group k+1 starts strictly above the end of row group k', api.loc(f))


def r48(ctx, api, rule='R4.8'):
    """api.statistics returns one entry per row group for every column: the conversion of logical-type columns works
    on the whole list or replaces it by the [None] placeholder - it never filters entries out (positions would shift);
    sorted_partitioned_columns selects the statistics of the chosen row groups by their indices"""
    f = api.func('statistics')
    bad = []
    for x in walk_no_nested(f):
        if isinstance(x, ast.comprehension) and x.ifs and 'd[name][column]' in norm(x.iter):
            bad.append(norm(x.iter) + ' if ' + ' and '.join(norm(i) for i in x.ifs))
    ctx.ob(rule, 'api.statistics:per-row-group-lists-are-never-filtered', not bad,
           'filtering %s drops the entries of row groups without a value: the remaining values are attributed to the wrong row groups' % bad, api.loc(f))
    # a row group without the bound keeps its None and the others keep their places: the converted list is rebuilt by
    # walking the original list entry by entry (the design round had frozen the opposite - "one missing entry turns the
    # whole column into [None]" - which a hunting report showed to break sorted_partitioned_columns; repaired in 809c534)
    rebuilt = []
    for st in walk_no_nested(f):
        if isinstance(st, ast.Assign) and norm(st.targets[0]) == 'd[name][column]' and isinstance(st.value, ast.ListComp):
            gen = st.value.generators
            rebuilt.append(len(gen) == 1 and not gen[0].ifs and norm(gen[0].iter) in ('vals', 'd[name][column]')
                           and isinstance(st.value.elt, ast.IfExp) and 'is None' in norm(st.value.elt.test))
    collapses = any('None in d[name][column]' in norm(x) or 'None in vals' in norm(x) for x in walk_no_nested(f) if isinstance(x, ast.Compare))
    ctx.ob(rule, 'api.statistics:a-missing-entry-stays-a-single-None-in-its-place', bool(rebuilt) and all(rebuilt) and not collapses,
           'converted bounds must come back as one entry per row group, None where a row group has none', api.loc(f))
    g = api.func('sorted_partitioned_columns')
    sel = [st for st in iter_child_stmts(g.body) if isinstance(st, ast.Assign) and norm(st.targets[0]) == 's[stat][col]']
    ok = len(sel) == 1 and isinstance(sel[0].value, ast.ListComp) and len(sel[0].value.generators) == 1 \
        and norm(sel[0].value.generators[0].iter) == 'rg_idx_list' and not sel[0].value.generators[0].ifs \
        and isinstance(sel[0].value.elt, ast.Subscript) and norm(sel[0].value.elt.slice) == norm(sel[0].value.generators[0].target)
    ctx.ob(rule, 'api.sorted_partitioned_columns:statistics-selected-by-row-group-index', ok,
           '`%s`' % (norm(sel[0])[:120] if sel else 'selection not found'), api.loc(g))


def r410(ctx, api, rule='R4.10'):
    """statistics cached on the handle are derived from its row groups: the cache is dropped wherever the handle's row
    groups are (re)installed (_set_attrs), so that a mutated handle does not answer with the old statistics"""
    f = api.func('ParquetFile._set_attrs')
    resets = [st for st in walk_no_nested(f) if isinstance(st, ast.Assign) and norm(st.targets[0]) == 'self._statistics'
              and isinstance(st.value, ast.Constant) and st.value.value is None]
    ctx.ob(rule, 'api._set_attrs:statistics-cache-dropped-with-the-row-groups', len(resets) == 1, '', api.loc(f))
