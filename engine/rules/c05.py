"""C05 - row-group pruning is sound.

R5.1 order-only dataflow of the interval tests;
R5.2 decision table: the interval tests (filter_val -> filter_in / filter_not_in) are
     interpreted over every order type of (val|values, vmin, vmax) x None-ness and the
     verdict "exclude" is compared with the semantic oracle "no value of [vmin, vmax]
     satisfies the condition" computed on a dense grid;
R5.4 exclusion whitelist and applicability nesting in filter_out_stats / filter_out_cats;
R5.5 OR-of-AND combinator and flat-list normalisation in filter_row_groups;
R5.6 partition text is typed int before float (precision) - shared with C08.
"""
import ast
import itertools
import re

from ..model import AnalysisError, callee, norm, src, walk_no_nested, iter_child_stmts, module_table, kwarg
from ..absint import Interp, Unsupported, Raises
from ..cfg import CFG

OPS = ['==', '=', '!=', '<', '<=', '>', '>=', 'in', 'not in']


def run(ctx):
    ctx.technique = ('finite order-type decision table obtained by interpreting the AST of the interval '
                     'tests over rank models, plus structural whitelist / combinator rules')
    ctx.explanation = (
        'Decides: given exact bounds, for every operator of the grammar, every order type of the '
        'constant(s) against (vmin, vmax) and every None-ness of the bounds, filter_val/filter_in/'
        'filter_not_in answer "exclude" only when no value in [vmin, vmax] can satisfy the condition '
        '(exhaustive over the finite order domain); filter_out_stats / filter_out_cats can exclude only '
        'for the three whitelisted reasons, only for conditions that name the column/partition at hand, '
        'with min/max blocks isomorphic; filter_row_groups combines groups as any(not stats and not cats) '
        'after wrapping a flat list once.')
    ctx.not_decided = ('exactness of the stored bounds (C04), NaN/null comparison semantics of runtime '
                       'values, typing of partition text beyond the int-before-float ordering')
    ctx.trusted_base += ['engine/absint.py (interpreter over ranks)',
                         'semantic oracle: exists x in the closed interval satisfying the operator, '
                         'evaluated on a dense grid']
    m = ctx.repo['api']
    fv, fi, fn = m.func('filter_val'), m.func('filter_in'), m.func('filter_not_in')
    hnp = m.func('_handle_np_array')
    r51(ctx, m, [fv, fi, fn])
    r52(ctx, m, fv, fi, fn, hnp)
    r54(ctx, m)
    r55(ctx, m)
    r56(ctx)
    r57(ctx, m)
    r59(ctx, m)
    r510(ctx, m)
    from . import c13 as _c13
    _c13.r135(ctx)
    _c13.r134(ctx, ctx.repo['api'])     # the row mask is cut at the boundaries of the row groups that survive pruning
    from . import c08 as _c08b
    _c08b.r89(ctx, ctx.repo['util'], 'R5.11')
    from . import c08 as _c08
    _c08.r87(ctx, ctx.repo['util'], 'R5.8')
    from . import c04 as _c04
    _c04.r42(ctx, ctx.repo['writer'])
    # the same predicate is evaluated row-wise when row filtering is on (shared with C13)
    from . import c13
    c13.r131_132(ctx, m)
    ctx.exhaustive = True
    from . import callsigs as _cs
    from . import findings3 as _f3
    _f3.statistics_decoding(ctx, 'R5.12')
    _f3.drill_conditions(ctx, 'R5.13')
    _cs.general_rules(ctx, 'R5', ['api.filter_row_groups', 'api.filter_out_stats', 'api.filter_out_cats', 'api.filter_val', 'api.filter_in', 'api.filter_not_in', 'api.ParquetFile.to_pandas', 'api.ParquetFile.iter_row_groups', 'api.ParquetFile.count', 'api.sorted_partitioned_columns', 'api.ParquetFile._column_filter'])


# ---------------------------------------------------------------------------
ALLOWED_SINKS = {'len', 'sorted', 'np.searchsorted', '_handle_np_array', 'filter_in', 'filter_not_in'}


def r51(ctx, m, funcs):
    for f in funcs:
        tracked = {a.arg for a in f.args.args if a.arg != 'op'}
        # derived names: assigned from expressions over tracked names
        changed = True
        while changed:
            changed = False
            for st in walk_no_nested(f):
                if isinstance(st, ast.Assign) and isinstance(st.targets[0], ast.Name):
                    if {n.id for n in ast.walk(st.value) if isinstance(n, ast.Name)} & tracked \
                            and st.targets[0].id not in tracked:
                        tracked.add(st.targets[0].id)
                        changed = True
        pm = {}
        for n in ast.walk(f):
            for c in ast.iter_child_nodes(n):
                pm[c] = n
        bad = []
        nuse = 0
        for n in ast.walk(f):
            if isinstance(n, ast.Name) and isinstance(n.ctx, ast.Load) and n.id in tracked:
                nuse += 1
                p = pm.get(n)
                while isinstance(p, (ast.Subscript, ast.List, ast.Tuple)) and pm.get(p) is not None and \
                        not isinstance(p, ast.Compare):
                    if isinstance(p, ast.Subscript) and p.value is not n and not _contains(p.value, n):
                        break
                    p = pm.get(p)
                ok = isinstance(p, (ast.Compare, ast.BoolOp)) or \
                    (isinstance(p, ast.Call) and (callee(p) in ALLOWED_SINKS)) or \
                    (isinstance(p, ast.keyword)) or \
                    (isinstance(p, ast.Return) and False)
                if isinstance(p, ast.keyword):
                    ok = callee(pm[p]) in ALLOWED_SINKS
                if isinstance(p, ast.Assign):
                    ok = True    # vmin = _handle_np_array(vmin) handled via the Call parent
                if not ok:
                    bad.append('%s used in %s' % (n.id, norm(p)[:60] if p is not None else '?'))
        ctx.ob('R5.1', 'api.%s:operands-flow-only-into-comparisons' % f.name, not bad,
               '; '.join(bad[:4]) or '%d uses of %s, all in comparisons / len / sorted / searchsorted' % (
                   nuse, sorted(tracked)), m.loc(f))
    # _handle_np_array: identity or first element
    h = m.func('_handle_np_array')
    ctx.ob('R5.1', 'api._handle_np_array:identity-or-first-element',
           norm(h.body[-1]) == 'return v' and 'v = v[0]' in src(h), 'unwraps a 1-element array', m.loc(h))


def _contains(node, target):
    return any(x is target for x in ast.walk(node))


# ---------------------------------------------------------------------------
def _models():
    """order models: (vmin, vmax) ranks on an even grid, None-ness, and candidate
    positions for val / elements of values.  Grid: even numbers are named points, odd are
    the gaps between them, so 'dense order' witnesses exist."""
    out = []
    for vmin, vmax, tag in ((4, 8, 'vmin<vmax'), (6, 6, 'vmin==vmax')):
        for nmin, nmax in itertools.product((False, True), repeat=2):
            lo = None if nmin else vmin
            hi = None if nmax else vmax
            out.append((lo, hi, vmin, vmax, '%s%s%s' % (tag, ',vmin=None' if nmin else '', ',vmax=None' if nmax else '')))
    return out


def _positions(vmin, vmax):
    pts = sorted({vmin - 2, vmin, vmax, vmax + 2} | ({(vmin + vmax) // 2} if vmin < vmax else set()))
    return pts


def _posname(p, vmin, vmax):
    if p < vmin:
        return 'below'
    if p == vmin and p == vmax:
        return 'at-the-single-point'
    if p == vmin:
        return 'at-vmin'
    if p == vmax:
        return 'at-vmax'
    if p > vmax:
        return 'above'
    return 'inside'


def _oracle(op, val, lo, hi, vmin, vmax):
    """True iff NO value x of the (possibly half-open) interval satisfies `x op val`.
    The true data interval is [vmin, vmax]; a bound that is None is *unknown* to the
    filter, so soundness must hold for every data interval compatible with what is known:
    unknown low bound => x may be anything <= hi, etc."""
    GRID = range(-2, 16)
    xs = [x for x in GRID if (lo is None or x >= lo) and (hi is None or x <= hi)]
    if op in ('==', '='):
        sat = [x for x in xs if x == val]
    elif op == '!=':
        sat = [x for x in xs if x != val]
    elif op == '<':
        sat = [x for x in xs if x < val]
    elif op == '<=':
        sat = [x for x in xs if x <= val]
    elif op == '>':
        sat = [x for x in xs if x > val]
    elif op == '>=':
        sat = [x for x in xs if x >= val]
    elif op == 'in':
        sat = [x for x in xs if x in val]
    elif op == 'not in':
        sat = [x for x in xs if x not in val]
    else:
        raise AnalysisError('oracle: unknown operator %r' % op)
    return not sat


def r52(ctx, m, fv, fi, fn, hnp):
    funcs = {'filter_val': fv, 'filter_in': fi, 'filter_not_in': fn, '_handle_np_array': None}
    # _handle_np_array is the identity on scalars (R5.1 checks its shape): model it so
    ident = ast.parse('def _handle_np_array(v):\n    return v').body[0]
    funcs['_handle_np_array'] = ident
    # the grammar must be the one the function handles: collect literals compared with op
    lits = set()
    for n in ast.walk(fv):
        if isinstance(n, ast.Compare) and isinstance(n.left, ast.Name) and n.left.id == 'op':
            for c in n.comparators:
                if isinstance(c, ast.Constant):
                    lits.add(c.value)
                elif isinstance(c, (ast.List, ast.Tuple)):
                    lits |= {e.value for e in c.elts if isinstance(e, ast.Constant)}
    for op in OPS:
        ctx.ob('R5.2', 'api.filter_val:operator-handled:%s' % op, op in lits,
               'operator %r of the filter grammar %s an arm in filter_val (an unhandled operator never prunes, '
               'which is sound, but the grammar and the evaluator must agree)' % (op, 'has' if op in lits else 'has NO'),
               m.loc(fv), nontrivial=False)
    nmodels = 0
    unsound = {}
    for lo, hi, vmin, vmax, tag in _models():
        pts = _positions(vmin, vmax)
        for op in OPS:
            if op in ('in', 'not in'):
                cands = [[]] + [[p] for p in pts] + [list(c) for c in itertools.combinations(pts, 2)] + \
                        [list(c) for c in itertools.combinations(pts, 3)]
            else:
                cands = pts
            for val in cands:
                nmodels += 1
                it = Interp(funcs)
                try:
                    verdict = it.call('filter_val', [op, val, lo, hi])
                except Raises:
                    continue       # an exception is not a silent loss of rows
                except Unsupported as e:
                    raise AnalysisError('R5.2: interval test uses a construct outside the decidable '
                                        'language: %s' % e)
                if not verdict:
                    continue
                sound = _oracle(op, val, lo, hi, vmin, vmax)
                if not sound:
                    if op in ('in', 'not in'):
                        desc = 'values=[%s]' % ','.join(_posname(p, vmin, vmax) for p in val)
                    else:
                        desc = 'val=%s' % _posname(val, vmin, vmax)
                    unsound.setdefault((op, tag, desc), 0)
                    unsound[(op, tag, desc)] += 1
    ctx.stat('R5.2 order models evaluated', nmodels)
    ctx.floor('R5.2', 'order models', nmodels, 400)
    for op in OPS:
        bad = sorted(k for k in unsound if k[0] == op)
        if not bad:
            ctx.ob('R5.2', 'api.filter_val:exclusion-sound-on-all-order-types:%s' % op, True,
                   'every "exclude" verdict for %r is implied by "no value of the interval satisfies it"' % op,
                   m.loc(fv))
        for (_, tag, desc) in bad:
            ctx.ob('R5.2', 'api.filter_val:unsound-exclusion:%s:%s:%s' % (op, tag, desc), False,
                   'operator %r with %s and %s excludes the row group although a value of the interval '
                   'satisfies the condition' % (op, tag, desc),
                   m.loc(fn if op == 'not in' else fi if op == 'in' else fv))


# ---------------------------------------------------------------------------
def _enclosing(func, stmt):
    return CFG(func).enclosing_tests(stmt)


def _bound_fields(expr, which):
    """the expression reads the two statistics fields of this bound and nothing of the other one"""
    if not expr:
        return False
    other = 'min' if which == 'max' else 'max'
    return ('s.%s' % which) in expr and ('s.%s_value' % which) in expr and ('s.%s' % other) not in expr


def r54(ctx, m):
    f = m.func('filter_out_stats')
    rets = [s for s in iter_child_stmts(f.body) if isinstance(s, ast.Return)
            and isinstance(s.value, ast.Constant) and s.value.value is True]
    ctx.floor('R5.4', 'excluding returns in filter_out_stats', len(rets), 3)
    cfg = CFG(f)
    kinds = []
    for r in rets:
        encl = cfg.enclosing_tests(r)
        tests = [e for e, fld in encl if isinstance(e, ast.If) and fld == 'body']
        inner = tests[-1].test if tests else None
        kind = None
        conjuncts = []
        if inner is not None:
            conjuncts = inner.values if isinstance(inner, ast.BoolOp) and isinstance(inner.op, ast.And) else [inner]
        for cj in conjuncts:
            t = norm(cj)
            if isinstance(cj, ast.Compare) and 'num_rows' in t and t.endswith('== 0'):
                kind = 'empty-row-group'
            elif isinstance(cj, ast.Compare) and 'null_count' in t and 'num_values' in t and \
                    isinstance(cj.ops[0], ast.Eq):
                kind = 'all-null-chunk'
            elif isinstance(cj, ast.Call) and callee(cj) == 'filter_val':
                kind = 'interval-test'
        kinds.append(kind)
        ctx.ob('R5.4', 'api.filter_out_stats:exclusion-reason-whitelisted:%s' % (kind or norm(inner or r)[:50]),
               kind is not None, 'return True under `%s`' % (norm(inner) if inner is not None else 'no test'), m.loc(r))
        if kind in ('all-null-chunk', 'interval-test'):
            # must be nested in the loop over the conditions that name *this* column
            loops = [e for e, fld in encl if isinstance(e, ast.For) and fld == 'body']
            app = [lp for lp in loops if isinstance(lp.iter, ast.Name)]
            ok = False
            why = 'not inside a loop over the conditions applicable to this column'
            for lp in app:
                defs = [s for s in iter_child_stmts(f.body) if isinstance(s, ast.Assign)
                        and norm(s.targets[0]) == lp.iter.id]
                for d in defs:
                    comp = d.value
                    if isinstance(comp, ast.ListComp) and comp.generators and comp.generators[0].ifs:
                        cond = norm(comp.generators[0].ifs[0])
                        if re.fullmatch(r'f\[0\] == name', cond) and norm(comp.generators[0].iter) == 'filters':
                            ok = True
                            why = 'inside `for ... in %s` with %s = %s' % (lp.iter.id, lp.iter.id, norm(comp))
            ctx.ob('R5.4', 'api.filter_out_stats:%s-applies-only-to-conditions-on-this-column' % kind, ok, why, m.loc(r))
    ctx.ob('R5.4', 'api.filter_out_stats:three-exclusion-reasons-present',
           sorted(k for k in kinds if k) == ['all-null-chunk', 'empty-row-group', 'interval-test'], str(kinds), m.loc(f))
    # name derives from this column's path
    nm = [s for s in iter_child_stmts(f.body) if isinstance(s, ast.Assign) and norm(s.targets[0]) == 'name']
    ctx.ob('R5.4', 'api.filter_out_stats:name-is-this-chunk-path',
           len(nm) == 1 and norm(nm[0].value) == "'.'.join(column.meta_data.path_in_schema)", '', m.loc(f))
    # interval test gets (op, val, vmin, vmax) in that order
    calls = [c for c in ast.walk(f) if isinstance(c, ast.Call) and callee(c) == 'filter_val']
    ctx.ob('R5.4', 'api.filter_out_stats:filter_val-argument-order',
           len(calls) == 1 and [norm(a) for a in calls[0].args] == ['op', 'val', 'vmin', 'vmax'],
           norm(calls[0]) if calls else '', m.loc(f))
    # vmin/vmax reset per column; min/max decode blocks isomorphic
    reset = [s for s in iter_child_stmts(f.body) if isinstance(s, ast.Assign) and norm(s) == 'vmax, vmin = (None, None)']
    loops = [e for e in iter_child_stmts(f.body) if isinstance(e, ast.For) and norm(e.iter) == 'rg.columns']
    ctx.ob('R5.4', 'api.filter_out_stats:bounds-reset-for-every-column',
           len(reset) == 1 and len(loops) == 1 and reset[0] in loops[0].body,
           'stale bounds of the previous column must not be used', m.loc(f))
    blocks = {}
    for s in iter_child_stmts(f.body):
        if isinstance(s, ast.If) and norm(s.test) in ('max is not None', 'min is not None'):
            blocks[norm(s.test)[:3]] = s
    iso = False
    if len(blocks) == 2:
        a = src(blocks['max'])
        b = src(blocks['min'])
        a2 = re.sub(r'\bvmax\b', 'vmin', a)
        a2 = re.sub(r'converted_max', 'converted_min', a2)
        a2 = re.sub(r'\bmax\b', 'min', a2)
        iso = a2 == b
    ctx.ob('R5.4', 'api.filter_out_stats:min-and-max-decode-blocks-isomorphic', iso,
           'the two blocks must be the same code modulo max<->min', m.loc(f))
    srcs = {norm(s.targets[0]): norm(s.value) for s in iter_child_stmts(f.body) if isinstance(s, ast.Assign)
            and norm(s.targets[0]) in ('max', 'min')}
    ctx.ob('R5.4', 'api.filter_out_stats:bounds-read-from-matching-statistics-fields',
           _bound_fields(srcs.get('max'), 'max') and _bound_fields(srcs.get('min'), 'min'), str(srcs), m.loc(f))
    # the fields with a defined order (max_value / min_value) come before the deprecated ones
    ctx.ob('R5.4', 'api.filter_out_stats:current-statistics-fields-preferred-to-the-deprecated-ones',
           all(v is not None and v.find('s.%s_value' % k) >= 0 and v.find('s.%s_value' % k) < (v + ' ').replace('s.%s_value' % k, '#' * len('s.%s_value' % k)).find('s.%s' % k)
               for k, v in ((k, srcs.get(k)) for k in ('max', 'min'))), str(srcs), m.loc(f))

    # filter_out_cats
    g = m.func('filter_out_cats')
    rets = [s for s in iter_child_stmts(g.body) if isinstance(s, ast.Return)
            and isinstance(s.value, ast.Constant) and s.value.value is True]
    cfg = CFG(g)
    for r in rets:
        tests = [e for e, fld in cfg.enclosing_tests(r) if isinstance(e, ast.If) and fld == 'body']
        inner = tests[-1].test if tests else None
        ok = isinstance(inner, ast.Call) and callee(inner) == 'filter_val' and len(inner.args) == 4 and \
            norm(inner.args[2]) == norm(inner.args[3]) and norm(inner.args[0]) == 'op' and norm(inner.args[1]) == 'val'
        ctx.ob('R5.4', 'api.filter_out_cats:exclusion-only-through-degenerate-interval', ok,
               'return True under `%s`' % (norm(inner) if inner is not None else '-'), m.loc(r))
    ctx.floor('R5.4', 'excluding returns in filter_out_cats', len(rets), 1)
    strl = [s for s in iter_child_stmts(g.body) if isinstance(s, ast.If) and 'isinstance(val, str)' in norm(s.test)]
    ok = len(strl) == 1
    if ok:
        kinds = set()
        for c in ast.walk(strl[0].test):
            if isinstance(c, ast.Call) and callee(c) == 'isinstance' and norm(c.args[0]) == 'val':
                t = c.args[1]
                kinds |= {norm(e) for e in (t.elts if isinstance(t, ast.Tuple) else [t])}
        ok = {'str', 'tuple', 'list'} <= kinds
    ctx.ob('R5.4', 'api.filter_out_cats:string-constants-recognised-as-scalar-list-and-tuple', ok,
           'string constants (alone, in a list or in a tuple) are compared with the raw directory text; other container '
           'kinds fall through to numeric typing of the directory text', m.loc(g))
    appf = [s for s in iter_child_stmts(g.body) if isinstance(s, ast.Assign) and norm(s.targets[0]) == 'app_filters']
    ctx.ob('R5.4', 'api.filter_out_cats:conditions-selected-by-partition-name',
           len(appf) == 1 and norm(appf[0].value) == '[f[1:] for f in filters if f[0] == cat]', '', m.loc(g))
    metas = [norm(s) for s in iter_child_stmts(g.body) if isinstance(s, ast.Assign) and 'partition_meta.get(cat)' in norm(s)]
    typed = [s for s in iter_child_stmts(g.body) if isinstance(s, ast.Assign) and any(
        isinstance(c, ast.Call) and callee(c) == 'val_to_num' and kwarg(c, 'meta', 1) is not None for c in ast.walk(s.value))]
    metas_ok = all(norm(kwarg(c, 'meta', 1)) == 'partition_meta.get(cat)' for s in typed for c in ast.walk(s.value)
                   if isinstance(c, ast.Call) and callee(c) == 'val_to_num' and kwarg(c, 'meta', 1) is not None)
    ctx.ob('R5.4', 'api.filter_out_cats:both-sides-typed-through-the-same-partition_meta-entry',
           metas_ok and {norm(s.targets[0]) for s in typed} == {'val', 'v0'}, str(metas), m.loc(g))


# ---------------------------------------------------------------------------
def r55(ctx, m):
    f = m.func('filter_row_groups')
    # normalisation of a flat list
    norm_if = [s for s in f.body if isinstance(s, ast.If) and 'isinstance(filters[0][0], str)' in norm(s.test)]
    ctx.ob('R5.5', 'api.filter_row_groups:flat-list-wrapped-once',
           len(norm_if) == 1 and [norm(x) for x in norm_if[0].body] == ['filters = [filters]'] and not norm_if[0].orelse,
           'a flat list of conditions is one AND group', m.loc(f))
    # the selections are what the function returns
    comps = [r.value for r in ast.walk(f) if isinstance(r, ast.Return) and isinstance(r.value, ast.ListComp)]
    rets = [r for r in ast.walk(f) if isinstance(r, ast.Return)]
    ctx.ob('R5.5', 'api.filter_row_groups:every-exit-returns-a-selection-computed-for-this-call', len(comps) == 2 and len(rets) == 2,
           'returns: %s - anything else (a value re-read from the handle, a remembered earlier result) is not the selection for '
           'the filters of this call' % [norm(r.value)[:50] if r.value is not None else 'None' for r in rets], m.loc(f))
    shapes = []
    for comp in comps:
        gen = comp.generators[0]
        cond = gen.ifs[0] if gen.ifs else ast.Constant(value=True)
        ok = isinstance(cond, ast.Call) and callee(cond) == 'any' and len(cond.args) == 1
        inner = cond.args[0] if ok else None
        detail = ''
        if ok and isinstance(inner, (ast.ListComp, ast.GeneratorExp)):
            elt = inner.elt
            g2 = inner.generators[0]
            ok = isinstance(elt, ast.BoolOp) and isinstance(elt.op, ast.And) and len(elt.values) == 2
            if ok:
                parts = []
                for v in elt.values:
                    if isinstance(v, ast.UnaryOp) and isinstance(v.op, ast.Not) and isinstance(v.operand, ast.Call):
                        parts.append((callee(v.operand), [norm(a) for a in v.operand.args]))
                    else:
                        ok = False
                ok = ok and sorted(p[0] for p in parts) == ['filter_out_cats', 'filter_out_stats']
                ok = ok and all(p[1][0] == norm(gen.target).split(',')[-1].strip(' ()') or p[1][0] == 'rg' for p in parts)
                ok = ok and all(p[1][1] == norm(g2.target) for p in parts) and norm(g2.iter) == 'filters' and not g2.ifs
                detail = str(parts)
            else:
                detail = 'element is %s' % norm(elt)[:80]
        else:
            ok = False
            detail = 'condition is %s' % norm(cond)[:80]
        shapes.append(norm(cond))
        ctx.ob('R5.5', 'api.filter_row_groups:keep-iff-any-group-has-no-exclusion:%s' % (
            'as_idx' if 'enumerate' in norm(gen.iter) else 'list'), ok,
            'row group kept iff any(not stats(rg, group) and not cats(rg, group) for group in filters): %s' % detail,
            m.loc(comp))
        ctx.ob('R5.5', 'api.filter_row_groups:iterates-all-row-groups-in-order:%s' % (
            'as_idx' if 'enumerate' in norm(gen.iter) else 'list'),
            norm(gen.iter) in ('pf.row_groups', 'enumerate(pf.row_groups)') and len(comp.generators) == 1, norm(gen.iter), m.loc(comp))
    ctx.ob('R5.5', 'api.filter_row_groups:sibling-arms-agree', len(set(shapes)) == 1,
           'the as_idx and list arms must apply the same condition', m.loc(f))
    # entry points route filters through filter_row_groups
    for q in ('ParquetFile.to_pandas', 'ParquetFile.iter_row_groups', 'ParquetFile.count'):
        g = m.func(q)
        cs = [c for c in ast.walk(g) if isinstance(c, ast.Call) and callee(c) == 'filter_row_groups']
        ctx.ob('R5.5', 'api.%s:prunes-through-filter_row_groups' % q,
               len(cs) >= 1 and all(norm(c.args[0]) == 'self' and norm(c.args[1]) == 'filters' for c in cs), '', m.loc(g))


def r56(ctx):
    u = ctx.repo['util']
    f = u.func('_val_to_num')
    order = []
    for s in iter_child_stmts(f.body):
        if isinstance(s, ast.Return) and isinstance(s.value, ast.Call):
            c = callee(s.value)
            arg0 = norm(s.value.args[0]) if s.value.args else ''
            order.append((c, arg0))
    names = [c for c, _ in order]
    ok = 'int' in names and 'float' in names and names.index('int') < names.index('float') and \
        dict(order).get('int') == 'x' and dict(order).get('float') == 'x'
    ctx.ob('R5.6', 'util._val_to_num:int-parse-of-the-text-before-float-parse', ok,
           'conversion attempts in order: %s (integers above 2**53 lose precision through float)' % order, u.loc(f))
    tnames = [n for n in names if n in ('int', 'float', 'pd.Timestamp', 'pd.Timedelta')]
    ctx.ob('R5.6', 'util._val_to_num:narrow-before-wide-conversion-order',
           tnames == ['int', 'float', 'pd.Timestamp', 'pd.Timedelta'], str(tnames), u.loc(f))


def r57(ctx, m, rule='R5.7'):
    """filter_out_cats: the user's constant reaches the comparison unchanged unless it is text to be parsed - a cast
    of a number to the partition's recorded type (2.5 -> 2) moves the boundary and prunes qualifying partitions"""
    f = m.func('filter_out_cats')
    cfg = CFG(f)
    casts = [st for st in iter_child_stmts(f.body) if isinstance(st, ast.Assign) and norm(st.targets[0]) == 'val'
             and any(isinstance(c, ast.Call) and callee(c) == 'val_to_num' and kwarg(c, 'meta', 1) is not None for c in ast.walk(st.value))]
    ctx.ob(rule, 'api.filter_out_cats:typed-parse-of-the-constant-present', len(casts) <= 2, '%d cast sites' % len(casts), m.loc(f))
    for st in casts:
        tests = [(e, fld) for e, fld in cfg.enclosing_tests(st) if isinstance(e, ast.If)]
        guarded = [e for e, fld in tests if fld == 'body' and any(isinstance(x, ast.Name) and x.id == 'val' for x in ast.walk(e.test))]
        ok = False
        detail = 'cast `%s` happens for every kind of constant' % norm(st)[:80]
        for e in guarded:
            t = e.test
            # some enclosing guard must exclude numbers against numeric partitions: an isinstance(val, str) style test,
            # or the negation of a predicate whose definition tests numbers.Real and the numeric kinds
            txt = norm(t)
            if 'isinstance(val, str)' in txt or txt == 'text':
                ok = True
            else:
                preds = [callee(c) for c in ast.walk(t) if isinstance(c, ast.Call) and callee(c) in m.funcs]
                for pname in preds:
                    ps = src(m.func(pname))
                    neg = isinstance(t, ast.UnaryOp) and isinstance(t.op, ast.Not)
                    if neg and 'numbers.Real' in ps and "'iuf'" in ps.replace('"', "'"):
                        ok = True
            detail = 'cast guarded by %s' % [norm(x.test)[:60] for x in guarded]
        ctx.ob(rule, 'api.filter_out_cats:numbers-are-not-cast-to-the-partition-type:%s' % ('each-candidate' if isinstance(st.value, ast.ListComp) else 'scalar'),
               ok, detail, m.loc(st))
        if isinstance(st.value, ast.ListComp):
            # candidates of in / not in are typed one by one
            ctx.ob(rule, 'api.filter_out_cats:list-constants-typed-element-wise', norm(st.value.generators[0].iter) == 'val', norm(st)[:90], m.loc(st))
    lists = [st for st in casts if isinstance(st.value, ast.ListComp)]
    ctx.ob(rule, 'api.filter_out_cats:list-constants-are-not-cast-as-one-scalar', len(lists) == 1 or not casts,
           'a list handed to the scalar cast becomes its own text (str partitions), one bool, or raises', m.loc(f))
    # the partition value itself is always typed with the recorded type
    pv = [st for st in iter_child_stmts(f.body) if isinstance(st, ast.Assign) and norm(st.targets[0]) == 'v0'
          and isinstance(st.value, ast.Call) and callee(st.value) == 'val_to_num' and kwarg(st.value, 'meta', 1) is not None]
    ok = len(pv) == 1 and [norm(e.test) for e, fld in cfg.enclosing_tests(pv[0]) if isinstance(e, ast.If)] == ['cat in partition_meta']
    ctx.ob(rule, 'api.filter_out_cats:partition-value-typed-whenever-its-type-is-recorded', ok, '', m.loc(f))


def r59(ctx, m, rule='R5.9'):
    """the schema element of the column a condition names is looked up by the chunk's path *list* (as api.statistics
    does): a joined string is split on dots again, which breaks flat columns whose name contains a dot"""
    for q in ('filter_out_stats',):
        f = m.func(q)
        calls = [c for c in walk_no_nested(f) if isinstance(c, ast.Call) and (callee(c) or '').endswith('schema_element')]
        ctx.floor(rule, 'schema element look-ups in %s' % q, len(calls), 1)
        for c in calls:
            ctx.ob(rule, 'api.%s:schema-element-looked-up-by-path-list' % q, bool(c.args) and norm(c.args[0]).endswith('path_in_schema'),
                   '`%s`' % norm(c), m.loc(c))


def r510(ctx, m, rule='R5.10'):
    """INT96 statistics have no defined order and reach filter_out_stats as raw 12-byte strings: no pruning on them"""
    f = m.func('filter_out_stats')
    cfg = CFG(f)
    skips = [st for st in iter_child_stmts(f.body) if isinstance(st, ast.Continue)]
    ok = False
    for st in skips:
        tests = [norm(e.test) for e, fld in cfg.enclosing_tests(st) if isinstance(e, ast.If)]
        if any('Type.INT96' in t for t in tests):
            ok = True
    ctx.ob(rule, 'api.filter_out_stats:no-pruning-on-INT96-statistics', ok, '', m.loc(f))
