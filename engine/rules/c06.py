"""C06 - every partial read agrees with the corresponding part of the full read.

R6.1 attribute completeness of derived handles (slice / pickle / copy routes);
R6.2 the running output offset advances by exactly the rows just written on every path;
R6.3 row-count siblings derive from rg.num_rows of the row-group list that is read
     (never from the footer's num_rows, which derived handles do not update);
R6.4 caller-supplied mutable arguments are not mutated in place;
R6.5 handles obtained from self.open are not closed by the read API (for file-like datasets
     they are the caller's object).
"""
import ast

from ..model import AnalysisError, callee, norm, src, walk_no_nested, iter_child_stmts, dotted
from ..cfg import CFG, ReachingDefs
from ..symwalk import Walker, State, Lin, Obj
from .. import sharedstate as ss
from .c20 import ENTRY


def run(ctx):
    ctx.technique = 'attribute need/avail sets per derivation route, value-numbered offset advance, who-reads rule for the footer row count, reaching definitions for in-place mutation of arguments'
    ctx.explanation = (
        'Decides: (R6.1) a handle obtained by slicing, pickling or copying carries every attribute that any '
        'method reachable from the read API loads unconditionally; (R6.2) in to_pandas the output offset '
        'advances by the same row count that sized the view slices on every path that reads, and not at all '
        'on the path that skips; (R6.3) __len__, count(), info, head and the allocation size all derive from '
        'rg.num_rows of the selected row-group list, and the footer-level num_rows is never read on the read '
        'side; (R6.4) list arguments of the read API are copied before being extended; (R6.5) the read API '
        'does not close or context-manage a handle returned by self.open.')
    ctx.not_decided = 'equality of the frames themselves (column subsets, index reconstruction, categorical state across row groups)'
    api = ctx.repo['api']
    r61(ctx, api)
    r62(ctx, api)
    r63(ctx, api)
    r64(ctx, api)
    r65(ctx, api)
    r66(ctx, api)
    from . import callsigs as _cs
    from . import c20
    c20.r202(ctx)
    c20.r206(ctx)
    c20.r201b(ctx)
    from . import findings2 as _f2
    _f2.index_levels(ctx, 'R6.10')
    from . import c13 as _c13
    _c13.r134(ctx, api)
    from . import c01
    c01.r119_views(ctx, 'R6.9')
    from . import c07
    c07.r77(ctx, 'R6.8')
    from . import meta_rules
    meta_rules.rowcount_rule(ctx, 'R6.14', only_modules={'api'})
    from . import c17 as _c17
    _c17.r172(ctx, api)     # the dtype an explicitly chosen index column is allocated with
    from . import c01 as _c01
    _c01.r127(ctx, 'R6.15')
    r611(ctx)
    r612(ctx, api)
    r613(ctx, api)
    from . import findings3 as _f3
    _f3.open_routes(ctx, 'R6.16')
    _cs.general_rules(ctx, 'R6', ['api.ParquetFile', 'api._pre_allocate', 'core.read_row_group', 'core.read_row_group_arrays'])


def _class_info(api):
    cls = api.classes['ParquetFile']
    defaults, methods = set(), set()
    for st in cls.body:
        if isinstance(st, ast.Assign):
            for t in st.targets:
                if isinstance(t, ast.Name):
                    defaults.add(t.id)
        elif isinstance(st, ast.FunctionDef):
            methods.add(st.name)
    return cls, defaults, methods


def _must_assign(api, qual, seen=None):
    """attributes self.X assigned on every normal path of method qual (following self-calls)"""
    seen = seen or set()
    if qual in seen:
        return set()
    seen.add(qual)
    f = api.funcs.get(qual)
    if f is None:
        return set()
    cfg = CFG(f)
    out = set()
    by_attr = {}
    for st in iter_child_stmts(f.body):
        if isinstance(st, ast.Assign):
            for t in st.targets:
                if isinstance(t, ast.Attribute) and norm(t.value) == 'self':
                    by_attr.setdefault(t.attr, set()).add(cfg.node_of(st))
                elif isinstance(t, ast.Tuple):
                    for e in t.elts:
                        if isinstance(e, ast.Attribute) and norm(e.value) == 'self':
                            by_attr.setdefault(e.attr, set()).add(cfg.node_of(st))
        if isinstance(st, ast.Expr) and isinstance(st.value, ast.Call):
            c = callee(st.value)
            if c and c.startswith('self.') and c.count('.') == 1:
                inner = _must_assign(api, 'ParquetFile.' + c.split('.')[1], seen)
                for a in inner:
                    by_attr.setdefault(a, set()).add(cfg.node_of(st))
            if c == 'self.__dict__.update':
                pass
    for a, nodes in by_attr.items():
        if cfg.must_pass_to_exit(cfg.entry, nodes):
            out.add(a)
    return out


# caches of a handle that a selection of its row groups may share with it (one line of reason each)
DATASET_LEVEL_MEMOS = {
    '_kvm': 'footer key-values: the same footer for every selection',
    '_pdm': 'pandas metadata decoded from the key-values',
    '_categories': 'category columns named by the pandas metadata',
    '_columns_dtype': 'dtype of the column labels, from the pandas metadata',
    '_base_dtype': 'schema-level dtypes (statistics-dependent parts are recomputed by _dtypes)',
    'tz': 'time zones from the pandas metadata',
    'fs': 'file system of the dataset',
}


def state_form(call):
    """how __getitem__ hands state to the new handle: ('literal', {key: value node}) for a dict display of named
    entries, ('whole', {key: value node}) for the parent's __dict__ with named replacements, (None, {}) otherwise"""
    a = call.args[0] if call.args else None
    if isinstance(a, ast.Dict):
        if all(isinstance(k, ast.Constant) for k in a.keys):
            return 'literal', {k.value: v for k, v in zip(a.keys, a.values)}
        stars = [v for k, v in zip(a.keys, a.values) if k is None]
        if len(stars) == 1 and norm(stars[0]) == 'self.__dict__' and a.keys[0] is None:
            return 'whole', {k.value: v for k, v in zip(a.keys, a.values) if isinstance(k, ast.Constant)}
        return None, {}
    if isinstance(a, ast.Call) and norm(a.func) == 'dict' and len(a.args) == 1 and norm(a.args[0]) == 'self.__dict__' \
            and all(k.arg for k in a.keywords):
        return 'whole', {k.arg: k.value for k in a.keywords}
    return None, {}


def r61(ctx, api):
    cls, defaults, methods = _class_info(api)
    # routes
    gi = api.func('ParquetFile.__getitem__')
    st_call = [c for c in ast.walk(gi) if isinstance(c, ast.Call) and callee(c) == 'new_pf.__setstate__']
    if not st_call:
        raise AnalysisError('R6.1: __setstate__ call of __getitem__ not found')
    form, given = state_form(st_call[0])
    built = _must_assign(api, 'ParquetFile._set_attrs')
    if form is None:
        ctx.ob('R6.1', 'api.__getitem__:selection-does-not-inherit-caches-computed-from-the-parents-row-groups', False,
               'the state handed to the selected handle is `%s`: neither a dict of named entries nor the parent\'s __dict__ with '
               'named replacements' % norm(st_call[0].args[0])[:80], api.loc(gi))
        return
    if form == 'whole':
        # everything the parent carries is inherited: fine for what a selection shares with its dataset, wrong for
        # anything computed from the parent's row groups unless _set_attrs rebuilds it (or it is replaced by name)
        memo = {}
        for q, f in api.funcs.items():
            if not q.startswith('ParquetFile.') or q.split('.')[1] in ('__init__', '_set_attrs', '__setstate__', '_parse_header', '_read_partitions'):
                continue
            for st in walk_no_nested(f):
                if isinstance(st, ast.Assign):
                    for t in st.targets:
                        if isinstance(t, ast.Attribute) and norm(t.value) == 'self':
                            memo.setdefault(t.attr, q)
        for attr, q in sorted(memo.items()):
            if attr in DATASET_LEVEL_MEMOS:
                continue
            ok = attr in built or attr in given
            ctx.ob('R6.1', 'api.__getitem__:selection-does-not-inherit-caches-computed-from-the-parents-row-groups:%s' % attr, ok,
                   'self.%s is filled by %s and copied to the selection with the parent\'s whole __dict__; _set_attrs does not '
                   'rebuild it, so the selection answers with the parent\'s value' % (attr, q), api.loc(gi))
        ctx.ob('R6.1', 'api.__setstate__:installs-the-state-dict-and-builds-the-handle',
               any(norm(s_) == 'self.__dict__.update(state)' for s_ in api.func('ParquetFile.__setstate__').body) and
               any(norm(s_) == 'self._set_attrs()' for s_ in api.func('ParquetFile.__setstate__').body), '', api.loc(gi))
        return
    slice_keys = set(given)
    gs = api.func('ParquetFile.__getstate__')
    ret = [s for s in gs.body if isinstance(s, ast.Return)]
    if not ret or not isinstance(ret[0].value, ast.Dict):
        raise AnalysisError('R6.1: state dict of __getstate__ not found')
    pickle_keys = {k.value for k in ret[0].value.keys if isinstance(k, ast.Constant)}
    ss_ = api.func('ParquetFile.__setstate__')
    ctx.ob('R6.1', 'api.__setstate__:installs-the-state-dict-and-builds-the-handle',
           any(norm(s) == 'self.__dict__.update(state)' for s in ss_.body) and
           any(norm(s) == 'self._set_attrs()' for s in ss_.body), '', api.loc(ss_))
    routes = {'slice': slice_keys | built | defaults, 'pickle/copy': pickle_keys | built | defaults}
    ctx.stat('R6.1 attributes (re)built by _set_attrs on every path', sorted(built))
    ctx.floor('R6.1', 'attributes built by _set_attrs', len(built), 8)
    # need: loads of self.X in methods reachable from the read API
    roots = [('api', 'ParquetFile.' + e) for e in ENTRY]
    seen = ctx.cg.reachable(roots)
    need = {}
    for k in seen:
        if k[0] != 'api' or not k[1].startswith('ParquetFile.'):
            continue
        f = api.funcs[k[1]]
        guarded = set()
        for c in ast.walk(f):
            if isinstance(c, ast.Call) and callee(c) in ('hasattr', 'getattr') and len(c.args) >= 2 and \
                    norm(c.args[0]) == 'self' and isinstance(c.args[1], ast.Constant):
                if callee(c) == 'hasattr' or len(c.args) == 3:
                    guarded.add(c.args[1].value)
        stored_first = _must_assign(api, k[1]) if k[1] in ('ParquetFile.__setstate__', 'ParquetFile._set_attrs') else set()
        for n in walk_no_nested(f):
            if isinstance(n, ast.Attribute) and isinstance(n.ctx, ast.Load) and isinstance(n.value, ast.Name) \
                    and n.value.id == 'self' and n.attr not in methods and n.attr not in guarded \
                    and not n.attr.startswith('__'):
                need.setdefault(n.attr, []).append((k[1], n))
    ctx.stat('R6.1 distinct self attributes loaded on read paths', len(need))
    ctx.floor('R6.1', 'distinct attribute loads', len(need), 18)
    for route, avail in sorted(routes.items()):
        for attr in sorted(need):
            users = sorted({q for q, _ in need[attr]})
            # attributes assigned inside the very method before use (e.g. _dtypes sets self.dtypes) are
            # provided by _set_attrs (built) - anything else must be in the state or a class default
            ok = attr in avail
            ctx.ob('R6.1', 'api.ParquetFile:%s-route-provides:%s' % (route, attr), ok,
                   'self.%s is loaded by %s; the %s route provides it through %s' % (
                       attr, users[:3], route,
                       'state dict' if attr in (slice_keys if route == 'slice' else pickle_keys) else
                       '_set_attrs' if attr in built else 'class default' if attr in defaults else 'NOTHING'),
                   api.loc(need[attr][0][1]))
    extra = slice_keys - pickle_keys - built      # (an entry that _set_attrs rebuilds at once is neither here nor there)
    ctx.ob('R6.1', 'api.ParquetFile:state-dicts-agree-modulo-class-defaults', extra <= defaults and pickle_keys <= slice_keys,
           'slice state has %s beyond the pickle state; each must have a class-level default' % sorted(extra), api.loc(gs))


def r62(ctx, api):
    tp = api.func('ParquetFile.to_pandas')
    loops = [s for s in iter_child_stmts(tp.body) if isinstance(s, ast.For) and 'read_row_group_file' in src(s)]
    if len(loops) != 1:
        raise AnalysisError('R6.2: read loop of to_pandas not found')
    loop = loops[0]

    class W(Walker):
        def call(self, st, e, c):
            if c == 'self.read_row_group_file':
                st.events.append(('read', None, e))
            return None

    w = W()
    st0 = State()
    st0.env['start'] = Lin({('cursor', 'start'): 1})
    npaths = 0
    for fin in w.walk(loop.body, st0):
        npaths += 1
        reads = [e for e in fin.events if e[0] == 'read']
        augs = [e for e in fin.events if e[0] == 'aug' and e[1] == 'start']
        adv = fin.env.get('start')
        tl = fin.env.get('thislen')
        if reads:
            want = Lin({('cursor', 'start'): 1}) + w.as_lin(tl) if tl is not None else None
            ctx.ob('R6.2', 'api.to_pandas:offset-advances-by-the-rows-just-written', adv == want and len(augs) == 1,
                   'after reading a row group the offset is %r (thislen = %r)' % (adv, tl), api.loc(loop), nontrivial=npaths == 1)
        else:
            ctx.ob('R6.2', 'api.to_pandas:offset-unchanged-when-the-row-group-is-skipped',
                   adv == Lin({('cursor', 'start'): 1}) and fin.status == 'continue',
                   'skip path leaves the offset at %r' % (adv,), api.loc(loop), nontrivial=False)
    ctx.floor('R6.2', 'paths through the read loop', npaths, 3)
    parts = [s for s in loop.body if isinstance(s, ast.Assign) and norm(s.targets[0]) == 'parts']
    ok = len(parts) == 1 and 'v[start:start + thislen]' in norm(parts[0].value) and "name.endswith('-catdef')" in norm(parts[0].value)
    ctx.ob('R6.2', 'api.to_pandas:views-sliced-by-the-same-offset-and-length', ok, norm(parts[0])[:160] if parts else '', api.loc(loop))
    tl = [s for s in loop.body if isinstance(s, ast.Assign) and norm(s.targets[0]) == 'thislen']
    ctx.ob('R6.2', 'api.to_pandas:thislen-is-selected-rows-or-row-group-rows',
           len(tl) == 1 and norm(tl[0].value) == 'sel.sum() if sel is not None else rg.num_rows', norm(tl[0]) if tl else '', api.loc(loop))
    kinds = []
    for s in loop.body:
        if isinstance(s, ast.Assign) and norm(s.targets[0]) == 'parts':
            kinds.append('slice')
        elif isinstance(s, ast.Expr) and callee(s.value) == 'self.read_row_group_file':
            kinds.append('read')
        elif isinstance(s, ast.AugAssign) and norm(s.target) == 'start':
            kinds.append('advance')
    ctx.ob('R6.2', 'api.to_pandas:slice-then-read-then-advance', kinds == ['slice', 'read', 'advance'], str(kinds), api.loc(loop))


def r63(ctx, api):
    ln = api.func('ParquetFile.__len__')
    ctx.ob('R6.3', 'api.__len__:number-of-row-groups', 'len(self.fmd.row_groups)' in src(ln), '', api.loc(ln))
    cnt = api.func('ParquetFile.count')
    rets = [norm(s.value) for s in iter_child_stmts(cnt.body) if isinstance(s, ast.Return)]
    rg = [norm(s) for s in iter_child_stmts(cnt.body) if isinstance(s, ast.Assign) and norm(s.targets[0]) == 'rgs']
    ctx.ob('R6.3', 'api.count:sums-rg.num_rows-of-the-selected-row-groups',
           'sum((rg.num_rows for rg in rgs))' in rets and rg == ['rgs = filter_row_groups(self, filters)'],
           'returns %s with %s' % (rets, rg), api.loc(cnt))
    inf = api.func('ParquetFile.info')
    ctx.ob('R6.3', 'api.info:rows-is-count()-and-row_groups-is-len', "'rows': self.count()" in norm(inf.body[-1])
           and "'row_groups': len(self.row_groups)" in norm(inf.body[-1]), norm(inf.body[-1])[:140], api.loc(inf))
    tp = api.func('ParquetFile.to_pandas')
    sz = [norm(s.value) for s in iter_child_stmts(tp.body) if isinstance(s, ast.Assign) and norm(s.targets[0]) == 'size']
    ctx.ob('R6.3', 'api.to_pandas:allocation-size-is-sum-of-selected-row-groups-or-mask-sum',
           sorted(sz) == ['sel.sum()', 'sum((rg.num_rows for rg in rgs))'], str(sz), api.loc(tp))
    hd = api.func('ParquetFile.head')
    s = src(hd)
    ctx.ob('R6.3', 'api.head:cumulates-rg.num_rows-over-the-handle-row-groups',
           'for i, rg in enumerate(self.row_groups)' in s and 'total_rows += rg.num_rows' in s and 'if total_rows >= nrows' in s
           and 'self[:i + 1].to_pandas(**kwargs).head(nrows)' in s, '', api.loc(hd))
    irg = api.func('ParquetFile.iter_row_groups')
    s = src(irg)
    ctx.ob('R6.3', 'api.iter_row_groups:one-derived-handle-per-selected-row-group-in-order',
           'rgs = filter_row_groups(self, filters) if filters else self.row_groups' in s and 'for rg in rgs' in s
           and 'i = self.row_groups.index(rg)' in s and 'self[i].to_pandas(filters=filters, **kwargs)' in s, '', api.loc(irg))
    # who reads the footer-level row count on the read side
    roots = [('api', 'ParquetFile.' + e) for e in ENTRY] + [('api', 'statistics'), ('api', 'filter_row_groups')]
    seen = ctx.cg.reachable(roots)
    bad = []
    n = 0
    for k in sorted(seen):
        if k[0] not in ('api', 'core', 'util', 'schema', 'dataframe'):
            continue
        m = ctx.repo[k[0]]
        for a in walk_no_nested(m.funcs[k[1]]):
            if isinstance(a, ast.Attribute) and a.attr == 'num_rows' and isinstance(a.ctx, ast.Load):
                n += 1
                base = norm(a.value)
                if base.endswith('fmd') or base in ('fmd', 'self.fmd'):
                    bad.append('%s.%s: %s' % (k[0], k[1], norm(a)))
    ctx.floor('R6.3', 'num_rows loads on read paths', n, 8)
    # the footer total is as good as the sum over the row groups exactly when every handle derivation recounts it
    gi = api.func('ParquetFile.__getitem__')
    recount = any(isinstance(s_, ast.Assign) and norm(s_.targets[0]).endswith('fmd.num_rows') and 'num_rows for' in norm(s_.value)
                  and 'new_rgs' in norm(s_.value) for s_ in walk_no_nested(gi))
    ctx.ob('R6.3', 'read-API:footer-num_rows-consulted-only-if-selections-recount-it', not bad or recount,
           'loads of the footer-level num_rows on read paths: %s while __getitem__ does not recount it for the selection (a '
           'sliced handle would answer with the parent\'s total)' % (bad or 'none'), 'fastparquet/api.py:1')


LISTY_PARAMS = {'columns', 'filters', 'index', 'categories', 'rgs'}


def r64(ctx, api):
    n = 0
    for q in ('ParquetFile.to_pandas', 'ParquetFile.read_row_group_file', 'ParquetFile.pre_allocate', 'ParquetFile.count',
              'ParquetFile.iter_row_groups', 'ParquetFile.head', 'ParquetFile._get_index', 'ParquetFile.check_categories',
              'ParquetFile._dtypes', '_pre_allocate', 'filter_row_groups'):
        f = api.func(q)
        params = {a.arg for a in f.args.args} - {'self'}
        cfg = CFG(f)
        rd = ReachingDefs(cfg)
        org, expr_origin = ss.origins(f, api)
        for st in iter_child_stmts(f.body):
            sites = []
            if isinstance(st, ast.AugAssign) and isinstance(st.target, ast.Name) and isinstance(st.op, (ast.Add, ast.BitOr, ast.Mult)):
                sites.append((st.target.id, norm(st)))
            elif isinstance(st, ast.Expr) and isinstance(st.value, ast.Call) and isinstance(st.value.func, ast.Attribute) \
                    and st.value.func.attr in ss.MUTATORS and isinstance(st.value.func.value, ast.Name):
                sites.append((st.value.func.value.id, norm(st)))
            elif isinstance(st, (ast.Assign,)) and isinstance(st.targets[0], ast.Subscript) and isinstance(st.targets[0].value, ast.Name):
                sites.append((st.targets[0].value.id, norm(st)))
            for name, text in sites:
                if name not in params and not (org.get(name, set()) & params):
                    continue
                n += 1
                defs = rd.defs_reaching(cfg.node_of(st), name)
                bad = []
                for d in defs:
                    if d == cfg.entry:
                        bad.append('the argument itself')
                        continue
                    ds = cfg.nodes[d].stmt
                    val = ds.value if isinstance(ds, ast.Assign) else None
                    if isinstance(ds, ast.AugAssign):
                        continue
                    if val is None or (expr_origin(val) - {'fresh'}) & params:
                        bad.append(norm(ds)[:50])
                ctx.ob('R6.4', 'api.%s:in-place-update-acts-on-a-private-copy:%s' % (q, text[:50]), not bad,
                       '`%s` mutates in place; definitions of %s reaching it that are not fresh copies: %s' % (
                           text[:60], name, bad or 'none'), api.loc(st))
    ctx.floor('R6.4', 'in-place updates of argument-derived names', n, 1)
    # what the caller passed as keyword arguments reaches the per-part read as it was given: the read API forwards
    # **kwargs and may look into it, it never adds to or changes it (an injected `dtypes` replaces the caller's column
    # selection further down)
    for q in ('ParquetFile.iter_row_groups', 'ParquetFile.head'):
        f = api.func(q)
        kw = f.args.kwarg.arg if f.args.kwarg else None
        if kw is None:
            continue
        muts = []
        for x in walk_no_nested(f):
            if isinstance(x, ast.Call) and isinstance(x.func, ast.Attribute) and norm(x.func.value) == kw and \
                    x.func.attr in ('setdefault', 'update', 'pop', 'popitem', 'clear', '__setitem__'):
                muts.append(norm(x)[:60])
            if isinstance(x, (ast.Assign, ast.AugAssign, ast.Delete)):
                tg = x.targets if isinstance(x, (ast.Assign, ast.Delete)) else [x.target]
                for t in tg:
                    if (isinstance(t, ast.Subscript) and norm(t.value) == kw) or (isinstance(t, ast.Name) and t.id == kw):
                        muts.append(norm(x)[:60])
        ctx.ob('R6.4', 'api.%s:keyword-arguments-forwarded-as-given' % q, not muts,
               'changes to **%s before it is handed to to_pandas: %s' % (kw, muts or 'none'), api.loc(f))


def r66(ctx, api):
    tp = api.func('ParquetFile.to_pandas')
    cfg = CFG(tp)
    arms = [s for s in iter_child_stmts(tp.body) if isinstance(s, ast.Assign) and norm(s.targets[0]) == 'columns']
    app = [s for s in iter_child_stmts(tp.body) if isinstance(s, ast.AugAssign) and norm(s.target) == 'columns']
    ok = len(arms) == 2 and len(app) == 1 and all(cfg.exists_path(cfg.node_of(a), cfg.node_of(app[0])) for a in arms)
    guards = [norm(e.test) for e, fld in cfg.enclosing_tests(app[0]) if isinstance(e, ast.If)] if app else []
    ctx.ob('R6.6', 'api.to_pandas:index-columns-added-for-explicit-and-default-column-lists', ok and guards == ['index'],
           'the index columns must be read whether or not the caller listed columns: the append is reachable from %d of the '
           '%d column arms and is guarded by %s' % (sum(1 for a in arms if app and cfg.exists_path(cfg.node_of(a), cfg.node_of(app[0]))),
                                                    len(arms), guards), api.loc(app[0]) if app else api.loc(tp))
    chk = [s for s in iter_child_stmts(tp.body) if isinstance(s, ast.Expr) and callee(s.value) == 'check_column_names']
    ctx.ob('R6.6', 'api.to_pandas:index-resolved-before-columns-are-extended',
           any(isinstance(s, ast.Assign) and norm(s) == 'index = self._get_index(index)' for s in tp.body) and bool(app) and bool(chk)
           and cfg.exists_path(cfg.node_of(app[0]), cfg.node_of(chk[0])), '', api.loc(tp))
    ss_ = api.func('ParquetFile.__setstate__')
    cfg2 = CFG(ss_)
    sa = [s for s in iter_child_stmts(ss_.body) if isinstance(s, ast.Expr) and norm(s.value) == 'self._set_attrs()']
    stores = [s for s in iter_child_stmts(ss_.body) if isinstance(s, ast.Assign) and isinstance(s.targets[0], ast.Subscript)]
    ok = len(sa) == 1 and all(not cfg2.exists_path(cfg2.node_of(sa[0]), cfg2.node_of(x)) for x in stores) and len(stores) >= 1 \
        and not [n for n in cfg2.stmts_after(cfg2.node_of(sa[0])) if cfg2.nodes[n].stmt is not None]
    ctx.ob('R6.6', 'api.__setstate__:handle-built-after-the-restored-metadata-is-normalised', ok,
           '_set_attrs() (which reads the file paths to find partitions) must be the last step, after the bytes->str decoding '
           'of file_path in the unpickled metadata', api.loc(ss_))


def r65(ctx, api):
    for q in ('ParquetFile.to_pandas', 'ParquetFile.read_row_group_file'):
        f = api.func(q)
        handles = {norm(s.targets[0]) for s in iter_child_stmts(f.body) if isinstance(s, ast.Assign) and 'self.open(' in norm(s.value)}
        handles |= {'infile', 'f'} & {a.arg for a in f.args.args} | handles
        bad = []
        for c in walk_no_nested(f):
            if isinstance(c, ast.Call) and isinstance(c.func, ast.Attribute) and c.func.attr == 'close' \
                    and norm(c.func.value) in handles | {'infile', 'f'}:
                bad.append(norm(c))
            if isinstance(c, ast.With):
                for it in c.items:
                    if 'self.open(' in norm(it.context_expr) or norm(it.context_expr) in handles | {'infile'}:
                        bad.append('with ' + norm(it.context_expr))
        ctx.ob('R6.5', 'api.%s:does-not-close-handles-from-self.open' % q, not bad,
               'for a dataset opened from a file-like object self.open returns the caller\'s own object: %s' % (bad or 'none closed'),
               api.loc(f))
    init = api.func('ParquetFile.__init__')
    ctx.ob('R6.5', 'api.__init__:file-like-input-is-handed-back-by-self.open',
           'open_with = lambda *args, **kwargs: fn' in src(init), '', api.loc(init))


def _own_nodes(f):
    out = []
    st = list(ast.iter_child_nodes(f))
    while st:
        x = st.pop()
        if isinstance(x, (ast.FunctionDef, ast.AsyncFunctionDef, ast.Lambda, ast.ClassDef, ast.ListComp, ast.DictComp, ast.SetComp, ast.GeneratorExp)):
            continue
        out.append(x)
        st.extend(ast.iter_child_nodes(x))
    return out


def r611(ctx, rule='R6.11'):
    """A dataset, a selection of it, or a filter result may have no row groups.  A loop over them then runs zero times,
    and a loop variable that is read after the loop must have a value from before it (api.py, core.py, dataframe.py:
    the files of the partial-read routes).  Was: head() of a handle without row groups failed on the unbound `i`."""
    n = 0
    for mod in ('api', 'core', 'dataframe'):
        m = ctx.repo[mod]
        for qual, f in sorted(m.funcs.items()):
            params = {a.arg for a in f.args.args + f.args.kwonlyargs + f.args.posonlyargs}
            if f.args.vararg:
                params.add(f.args.vararg.arg)
            if f.args.kwarg:
                params.add(f.args.kwarg.arg)
            nodes = _own_nodes(f)
            names = [x for x in nodes if isinstance(x, ast.Name)]
            for lp in nodes:
                if not isinstance(lp, ast.For):
                    continue
                n += 1
                for t in sorted({x.id for x in ast.walk(lp.target) if isinstance(x, ast.Name)}):
                    after = sorted([x for x in names if x.id == t and x.lineno > lp.end_lineno], key=lambda x: (x.lineno, x.col_offset))
                    if not after or not isinstance(after[0].ctx, ast.Load):
                        continue
                    before = t in params or any(x.id == t and isinstance(x.ctx, ast.Store) and (x.lineno, x.col_offset) < (lp.lineno, lp.col_offset)
                                                for x in names)
                    ctx.ob(rule, '%s.%s:loop-variable-read-after-the-loop-is-bound-before-it:%s' % (mod, qual, t), before,
                           '`for %s in %s` may run zero times (no row groups / nothing selected); `%s` is then read unbound at line %d'
                           % (norm(lp.target), norm(lp.iter)[:40], t, after[0].lineno), m.loc(lp))
    ctx.floor(rule, 'for loops examined in api/core/dataframe', n, 40)


def r612(ctx, api, rule='R6.12'):
    """iter_row_groups: whether a row group's frame is handed out depends on its rows only.  `DataFrame.empty` is also
    true for a frame with rows and no columns (all selected columns in the index)."""
    f = api.funcs['ParquetFile.iter_row_groups']
    ys = [x for x in ast.walk(f) if isinstance(x, ast.Yield)]
    if not ys:
        raise AnalysisError('iter_row_groups no longer yields')
    for st in walk_no_nested(f):
        if isinstance(st, ast.If) and any(isinstance(x, ast.Yield) for x in ast.walk(st)):
            bad = [x for x in ast.walk(st.test) if isinstance(x, ast.Attribute) and x.attr == 'empty']
            ctx.ob(rule, 'api.ParquetFile.iter_row_groups:frame-skipped-by-row-count-only', not bad,
                   '`%s`: .empty is true for a frame that has rows but no columns; iteration with the only selected column as '
                   'index yields nothing while the full read has the rows' % norm(st.test), api.loc(st))
    ctx.ob(rule, 'api.ParquetFile.iter_row_groups:yields', True, '', api.loc(ys[0]), nontrivial=False)


def r613(ctx, api, rule='R6.13'):
    """Partition columns in partial reads.  (a) _pre_allocate: a name chosen as index is not also allocated as a column
    - the partition columns are appended to the column list after the index names were taken out of it; (b) __getitem__:
    a selection keeps the partition columns of the dataset - they are recomputed from the paths of the selected row
    groups alone, so an empty selection has none."""
    f = api.funcs['_pre_allocate']
    adds = [c for c in ast.walk(f) if isinstance(c, ast.Call) and isinstance(c.func, ast.Attribute) and c.func.attr in ('extend', 'append')
            and norm(c.func.value) == 'cols']
    if not adds:
        adds_ok = True
    else:
        adds_ok = all('not in index' in norm(c.args[0]) for c in adds if c.args)
    ctx.ob(rule, 'api._pre_allocate:partition-column-chosen-as-index-is-not-also-a-column', adds_ok,
           '`%s` adds every partition column although `cols` was built without the index names: with index=<partition column> '
           'the name is allocated twice and the index reads one label for all rows' % (norm(adds[0]) if adds else ''),
           api.loc(adds[0]) if adds else api.loc(f))
    g = api.funcs['ParquetFile.__getitem__']
    txt = norm(g)
    keeps = 'self.cats' in txt or "'cats'" in txt or '"cats"' in txt
    ctx.ob(rule, 'api.ParquetFile.__getitem__:selection-keeps-the-partition-columns', keeps,
           'the new handle recomputes its partition columns from the selected row groups only (_set_attrs -> _read_partitions); '
           'pf[0:0].to_pandas() of a hive dataset lacks the partition columns the full read has', api.loc(g))
