"""C07 - append adds at the end and leaves existing data untouched (effect/ownership clauses)."""
from . import append_route as ar
from . import simple_append as sa


def run(ctx):
    ctx.technique = 'who-may-seek effect ownership, def-use of part numbering, call-graph reachability of remove/rename, CFG dominance of compatibility checks'
    ctx.explanation = (
        'Decides the "never touches what exists" clauses: (R7.1) only write_to_file and '
        'update_file_custom_metadata seek/truncate an output handle; the append positions itself at the old '
        'footer (length read from the tail) before any data write and nothing reachable afterwards seeks; a '
        'failed append restores the old footer for every exception class and commits in-memory metadata only '
        'after all row groups are written; (R7.2) multi-file append opens only fresh part numbers with mode '
        '"wb"; (R7.3) rename/remove are unreachable on the append route; (R7.4) the symmetric column-set '
        'comparison and the scheme/partition checks dominate the first write.')
    ctx.not_decided = ('value equality of the rows read back; categorical relabelling on read when later batches '
                       'carry different categories (data-dependent _set_categories per dictionary page)')
    ctx.trusted_base.append('engine/effects.py (effect vocabulary)')
    sa.seek_ownership_rule(ctx, 'R7.1')
    sa.restore_rule(ctx, 'R7.1b')
    sa.commit_after_loop_rule(ctx, 'R7.1c')
    ar.fresh_part_rule(ctx, 'R7.2')
    ar.no_remove_rename_rule(ctx, 'R7.3')
    ar.compat_checks_rule(ctx, 'R7.4')
    ar.index_normalisation_rule(ctx, 'R7.6')
    from . import c02
    c02.r21(ctx)
    from . import callsigs as _cs
    _cs.general_rules(ctx, 'R7', ['writer.write', 'writer.write_simple', 'writer.write_multi', 'writer.partition_on_columns', 'writer.make_part_file', 'api.ParquetFile.write_row_groups', 'writer.write_common_metadata', 'writer.consolidate_categories', 'api.ParquetFile._dtypes', 'api.ParquetFile._set_attrs', 'writer.write_column', 'writer.make_row_group'])
    ar.single_pass_data_rule(ctx, 'R7.5')
