"""C07 - append adds at the end and leaves existing data untouched (effect/ownership clauses)."""
from . import append_route as ar
from . import simple_append as sa


def run(ctx):
    ctx.technique = 'who-may-seek effect ownership, def-use of part numbering, call-graph reachability of remove/rename, CFG dominance of compatibility checks'
    ctx.explanation = (
        'Decides the "never touches what exists" clauses: (R7.1) only write_to_file and '
        'update_file_custom_metadata seek/truncate an output handle; the append positions itself at the old '
        'footer (length read from the tail) before any data write and nothing reachable afterwards seeks; a '
        'failed append restores the old footer for every exception class and commits in-memory metadata only '
        'after all row groups are written; (R7.2) multi-file append opens only fresh part numbers with mode '
        '"wb"; (R7.3) rename/remove are unreachable on the append route; (R7.4) the symmetric column-set '
        'comparison and the scheme/partition checks dominate the first write.')
    ctx.not_decided = ('value equality of the rows read back; categorical relabelling on read when later batches '
                       'carry different categories (data-dependent _set_categories per dictionary page)')
    ctx.trusted_base.append('engine/effects.py (effect vocabulary)')
    sa.seek_ownership_rule(ctx, 'R7.1')
    sa.restore_rule(ctx, 'R7.1b')
    sa.commit_after_loop_rule(ctx, 'R7.1c')
    sa.commit_after_loop_multi_rule(ctx, 'R7.1c')
    ar.fresh_part_rule(ctx, 'R7.2')
    ar.single_file_route_rule(ctx, 'R7.20')
    ar.forget_then_rebuild_rule(ctx, 'R7.21')
    ar.no_remove_rename_rule(ctx, 'R7.3')
    ar.compat_checks_rule(ctx, 'R7.4')
    ar.kind_checks_rule(ctx, 'R7.4')
    ar.parts_first_rule(ctx, 'R7.9')
    ar.mode_params_rule(ctx, 'R7.10')
    from . import c02 as _c02b
    _c02b.r29(ctx, 'R7.11')
    ar.index_normalisation_rule(ctx, 'R7.6')
    from . import c02
    c02.r21(ctx)
    from . import callsigs as _cs
    from . import findings3 as _f3
    _f3.append_layouts(ctx, 'R7.17')
    _f3.kind_of_appended_values(ctx, 'R7.18')
    _f3.write_conversions(ctx, 'R7.22')
    _f3.open_routes(ctx, 'R7.19')
    _cs.general_rules(ctx, 'R7', ['writer.write', 'writer.write_simple', 'writer.write_multi', 'writer.partition_on_columns', 'writer.make_part_file', 'api.ParquetFile.write_row_groups', 'writer.write_common_metadata', 'writer.consolidate_categories', 'api.ParquetFile._dtypes', 'api.ParquetFile._set_attrs', 'writer.write_column', 'writer.make_row_group'])
    ar.single_pass_data_rule(ctx, 'R7.5')
    r77(ctx)
    r712(ctx)
    from . import c08 as _c08, c01 as _c01
    _c08.r85(ctx)
    _c01.r121(ctx, 'R7.13')
    _c01.r122(ctx, 'R7.14')    # an appended frame is cut into row groups by the same offsets rule
    from . import c10
    c10.r1010(ctx, 'R7.8')


def r77(ctx, rule='R7.7'):
    """category codes are written per row group, the categories object of the output column is shared by all row
    groups of a read: installing a row group's dictionary as the categories must either find the categories already
    installed unchanged or remap the codes written so far - i.e. the install is conditioned on the installed ones"""
    import ast
    from ..model import callee, norm, walk_no_nested
    from ..cfg import CFG
    core = ctx.repo['core']
    f = core.func('read_col')
    cfg = CFG(f)
    calls = [c for c in walk_no_nested(f) if isinstance(c, ast.Call) and (callee(c) or '').endswith('._set_categories')]
    ctx.floor(rule, 'category installs in core.read_col', len(calls), 2)
    for c in calls:
        st = None
        for nd in cfg.nodes:
            if nd.stmt is not None and any(x is c for x in ast.walk(nd.stmt)) and not isinstance(nd.stmt, (ast.If, ast.For, ast.While, ast.Try, ast.With)):
                st = nd.stmt
        tests = [norm(e.test) for e, fld in cfg.enclosing_tests(st) if isinstance(e, (ast.If, ast.While))] if st is not None else []
        target = norm(c.func.value)
        looks = any(('%s.categories' % target) in t or ('%s.dtype.categories' % target) in t for t in tests)
        # the multi-index path installs into a private level, once per chunk
        private = target != 'catdef'
        ctx.ob(rule, 'core.read_col:category-install-conditioned-on-installed-categories:%s' % norm(c)[:50], looks or private,
               '`%s` under %s: a later row group whose dictionary differs re-labels the codes of all earlier row groups' % (
                   norm(c)[:70], tests or 'no test of the installed categories'), core.loc(c))


def r712(ctx, rule='R7.12'):
    """categorical columns across appends: (a) the recorded number of categories is brought up to date from the chunks
    whatever the spelling of the keys (bytes when parsed, str when built in memory), and every footer writer of an
    appendable file consolidates before writing; (b) a categorical column written as non-nullable refuses missing values"""
    import ast
    from ..model import callee, norm, walk_no_nested, iter_child_stmts
    wr = ctx.repo['writer']
    f = wr.func('consolidate_categories')
    cmps = [x for x in ast.walk(f) if isinstance(x, ast.Compare) and any(isinstance(y, ast.Attribute) and y.attr == 'key' for y in ast.walk(x.left))]
    ctx.floor(rule, 'key comparisons in consolidate_categories', len(cmps), 2)
    for x in cmps:
        c = x.comparators[0]
        both = isinstance(x.ops[0], ast.In) and isinstance(c, (ast.Tuple, ast.List, ast.Set)) and \
            {type(e.value) for e in c.elts if isinstance(e, ast.Constant)} == {bytes, str}
        tolerant = 'ensure_str(' in norm(x.left)     # (decodes bytes keys; what it does with undecodable ones is R16.8's subject)
        ctx.ob(rule, 'writer.consolidate_categories:key-matched-in-both-spellings:%s' % norm(x)[:40], both or tolerant,
               '`%s`: metadata built in memory carries str keys, parsed metadata bytes keys' % norm(x), wr.loc(x))
    for q in ('write_simple', 'write_common_metadata'):
        g = wr.func(q)
        calls = [c for c in ast.walk(g) if isinstance(c, ast.Call) and callee(c) == 'consolidate_categories']
        ctx.ob(rule, 'writer.%s:categories-consolidated-before-the-footer-is-written' % q, len(calls) >= 1,
               'an append may bring more categories than the pandas metadata records', wr.loc(g))
    ws = wr.func('write_simple.write_to_file')
    stmts = [x for x in iter_child_stmts(ws.body)]
    store = [i for i, x in enumerate(stmts) if isinstance(x, ast.Assign) and norm(x.targets[0]) == 'fmd.row_groups']
    cons = [i for i, x in enumerate(stmts) if isinstance(x, ast.Expr) and callee(x.value) == 'consolidate_categories']
    ctx.ob(rule, 'writer.write_simple:categories-consolidated-over-the-new-row-groups', bool(store) and bool(cons) and max(store) < min(cons),
           'consolidate_categories(fmd) reads fmd.row_groups: called before the new row groups are installed it sees only the old ones', wr.loc(ws))
    byname = [x for x in ast.walk(f) if isinstance(x, ast.Compare) and "'.'.join(col.meta_data.path_in_schema)" in norm(x.left) and "cat['name']" in norm(x)]
    ctx.ob(rule, 'writer.consolidate_categories:chunks-matched-to-categorical-columns-by-name', len(byname) == 1,
           'a positional pairing of the categorical columns with the chunks picks the wrong chunk whenever a categorical is not first', wr.loc(f))
    h = wr.func('write_column')
    raises = [r for r in walk_no_nested(h) if isinstance(r, ast.Raise) and 'not nullable' in norm(r)]
    ok = False
    if len(raises) == 1:
        from ..cfg import CFG
        cfg = CFG(h)
        tests = [norm(e.test) for e, fld in cfg.enclosing_tests(raises[0]) if isinstance(e, ast.If)]
        ok = any('cat.codes == -1' in t for t in tests) and any(t == 'has_nulls' for t in tests)
    ctx.ob(rule, 'writer.write_column:missing-category-codes-refused-in-a-required-column', ok,
           'code -1 of a REQUIRED categorical goes out as dictionary index 255 / 65535', wr.loc(h))
