"""C08 - directory-partitioned write/read: layout agreement between writer and the reader-side parsers."""
import ast
import re

from ..model import AnalysisError, callee, norm, src, walk_no_nested, iter_child_stmts, kwarg
from ..cfg import CFG
from .. import effects as fx
from . import c05, c09


def run(ctx):
    ctx.technique = 'def-use agreement of opened vs recorded paths, literal agreement of the path grammar across the writer and four parsers, de-duplication key shape'
    ctx.explanation = (
        'Decides the layout clauses: (R8.1) each part file is opened at root/path/part and recorded as '
        'path/part over the same path and part definitions, its directory is created first, no file or '
        'directory is created for an empty group, every written part is recorded; (R8.2) the partition '
        'columns are removed from the stored columns and recorded with their original dtype in the pandas '
        'metadata; (R8.3) the separators the writer uses (name=value joined by /, or bare values) are the ones '
        'each reader-side parser splits on, and every val_to_num of a path value receives the partition '
        'metadata entry of its key; (R8.4) the text form of a key is lossless for timestamps; (R8.5) values '
        'seen in paths are de-duplicated per (key, value); (R8.6) partition text is parsed int before float.')
    ctx.not_decided = ('value-kind fidelity of arbitrary values through str()/val_to_num (numeric-looking text, '
                       '0.7 vs .7, booleans): string parsing of runtime values')
    wr, api, ut, core = ctx.repo['writer'], ctx.repo['api'], ctx.repo['util'], ctx.repo['core']
    c09.r94(ctx, wr)          # R9.4 obligations (empty groups, recorded path) are shared
    r81(ctx, wr)
    r82(ctx, wr)
    r83(ctx, wr, api, ut, core)
    r84(ctx, ut)
    r85(ctx, api)
    r86(ctx, ut)
    r87(ctx, ut)
    from . import findings2 as _f2
    _f2.categorical_partition_labels(ctx, 'R8.10')
    r89(ctx, ut)
    from . import append_route as _ar8
    _ar8.compat_checks_rule(ctx, 'R8.14')     # an append names the partition columns the dataset has (a text means one column)
    from . import append_route as _ar, c09 as _c09, c14 as _c14b
    _ar.fresh_part_rule(ctx, 'R8.11')
    _c09.r97(ctx, wr)
    _c14b.r149(ctx, 'R8.12')
    from . import c14 as _c14
    _c14.r146(ctx, 'R8.8')
    c05.r56(ctx)
    from . import c14
    c14.r144(ctx, api, wr)
    from . import callsigs as _cs
    from . import findings3 as _f3
    _f3.partition_text(ctx, 'R8.13')
    _f3.append_layouts(ctx, 'R8.14')
    _cs.general_rules(ctx, 'R8', ['writer.write', 'writer.write_multi', 'writer.partition_on_columns', 'writer.make_metadata', 'api.paths_to_cats', 'api._path_to_cats', 'core.read_row_group', 'api.filter_row_groups', 'api.ParquetFile.write_row_groups', 'api.ParquetFile.__init__'])


def r81(ctx, wr):
    f = wr.func('partition_on_columns')
    cfg = CFG(f)
    mk = [s for s in iter_child_stmts(f.body) if isinstance(s, ast.Expr) and callee(s.value) == 'mkdirs']
    op = [s for s in iter_child_stmts(f.body) if isinstance(s, ast.With) and 'open_with(' in norm(s.items[0].context_expr)]
    ok = len(mk) == 1 and len(op) == 1 and norm(mk[0].value) == 'mkdirs(join_path(root_path, path))' and \
        cfg.dominates(cfg.node_of(mk[0]), cfg.node_of(op[0]))
    ctx.ob('R8.1', 'writer.partition_on_columns:directory-created-before-the-part-is-opened', ok,
           norm(mk[0].value) if mk else 'no mkdirs', wr.loc(f))
    if op:
        body = [norm(x) for x in op[0].body]
        ctx.ob('R8.1', 'writer.partition_on_columns:part-written-from-the-group-without-partition-columns',
               len(body) == 1 and body[0].startswith('rg = make_part_file(f2, df, fmd.schema'), str(body)[:120], wr.loc(op[0]))
    # the writing loop runs once over all groups (directly over sorted(gb) or over a local bound to it)
    gdef = {norm(s.targets[0]) for s in iter_child_stmts(f.body) if isinstance(s, ast.Assign) and norm(s.value) == 'sorted(gb)'}
    loop = [s for s in iter_child_stmts(f.body) if isinstance(s, ast.For) and (norm(s.iter) == 'sorted(gb)' or norm(s.iter) in gdef)
            and any(isinstance(x, ast.With) for x in ast.walk(s))]
    ctx.ob('R8.1', 'writer.partition_on_columns:every-group-visited-once', len(loop) == 1 and norm(loop[0].target) == '(key, group)', '', wr.loc(f))
    # key texts that cannot be one directory level are refused before any part is written
    chk = [s for s in iter_child_stmts(f.body) if isinstance(s, ast.Raise) and 'directory name' in norm(s) and 'Partition value' in norm(s)]
    # (hive) a column name that holds the separator between name and value, or a path separator, is refused as well
    nchk = [s for s in iter_child_stmts(f.body) if isinstance(s, ast.Raise) and 'directory name' in norm(s) and 'Partition value' not in norm(s)]
    ntests = [norm(e.test) for s_ in nchk for e, fld in cfg.enclosing_tests(s_) if isinstance(e, ast.If)]
    ctx.ob('R8.1', 'writer.partition_on_columns:separator-characters-in-column-names-refused-before-writing',
           len(nchk) == 1 and any("'=' in" in t for t in ntests) and any("'/' in" in t for t in ntests) and 'with_field' in ntests
           and bool(op) and not cfg.exists_path(cfg.node_of(op[0]), cfg.node_of(nchk[0])),
           'a partition column called a=b gives directories a=b=1, read back as a plain (drill) level: %s' % ntests, wr.loc(f))
    okc = len(chk) == 1 and bool(loop) and all(not cfg.exists_path(cfg.node_of(op[0]), cfg.node_of(chk[0])) for _ in [0]) and \
        cfg.exists_path(cfg.node_of(chk[0]), cfg.node_of(op[0])) is False
    tests = [norm(e.test) for e, fld in cfg.enclosing_tests(chk[0]) if isinstance(e, ast.If)] if chk else []
    sep_ok = any("'/' in text" in t and "'\\\\' in text" in t and "'=' in text" in t for t in tests)
    ctx.ob('R8.1', 'writer.partition_on_columns:separator-characters-in-key-text-refused-before-writing',
           len(chk) == 1 and sep_ok and bool(op) and not cfg.exists_path(cfg.node_of(op[0]), cfg.node_of(chk[0])),
           'a value whose text contains / or a backslash (or = in the hive layout) would be read back as several levels: %s' % tests, wr.loc(f))
    g = wr.func('write_multi')
    s = src(g)
    ctx.ob('R8.1', 'writer.write_multi:unpartitioned-part-recorded-under-its-name',
           'partname = join_path(dn, part)' in s and 'for chunk in rg.columns' in s and 'chunk.file_path = part' in s, '', wr.loc(g))
    ctx.ob('R8.1', 'writer.write_multi:hive-flag-passed-to-the-path-builder',
           "with_field=file_scheme == 'hive'" in s, 'with_field selects name=value vs bare values', wr.loc(g))


def r82(ctx, wr):
    f = wr.func('partition_on_columns')
    s = src(f)
    rem = [x for x in iter_child_stmts(f.body) if isinstance(x, ast.Assign) and norm(x.targets[0]) == 'remaining']
    ok = len(rem) == 1 and norm(rem[0].value) == 'list(data)' and 'for column in columns: remaining.remove(column)' in norm(
        ast.Module(body=f.body, type_ignores=[])).replace('\n', ' ').replace('    ', ' ') or \
        (len(rem) == 1 and 'remaining.remove(column)' in s and 'df = group[remaining]' in s)
    ctx.ob('R8.2', 'writer.partition_on_columns:stored-columns-are-all-columns-minus-partition-columns', ok,
           'remaining = list(data) minus columns; df = group[remaining]', wr.loc(f))
    ctx.ob('R8.2', 'writer.partition_on_columns:refuses-to-partition-on-every-column',
           'if not remaining' in s and 'Cannot include all columns' in s, '', wr.loc(f))
    ctx.ob('R8.2', 'writer.partition_on_columns:grouping-keeps-unused-categories-explicit',
           'data.groupby(columns if len(columns) > 1 else columns[0], observed=False)' in s, '', wr.loc(f))
    w = wr.func('write')
    c = [c for c in ast.walk(w) if isinstance(c, ast.Call) and callee(c) == 'make_metadata']
    ok = len(c) == 1 and norm(kwarg(c[0], 'ignore_columns')) == 'ignore' and norm(kwarg(c[0], 'partition_cols')) == 'partition_on'
    ig = [x for x in iter_child_stmts(w.body) if isinstance(x, ast.Assign) and norm(x.targets[0]) == 'ignore']
    ok = ok and len(ig) == 1 and norm(ig[0].value) == "partition_on if file_scheme != 'simple' else []"
    ctx.ob('R8.2', 'writer.write:partition-columns-left-out-of-the-schema-and-recorded', ok,
           'make_metadata(ignore_columns=partition_on for non-simple schemes, partition_cols=partition_on)', wr.loc(w))
    mm = wr.func('make_metadata')
    s = src(mm)
    ctx.ob('R8.2', 'writer.make_metadata:one-metadata-entry-per-partition-column',
           "for column in partition_cols" in s and ("pandas_metadata['partition_columns'].append(get_column_metadata(data[column], column))" in s or
                                                     ("'partition_columns': [get_column_metadata(data[column], column) for column in partition_cols]" in s) or
                                                     ("[get_column_metadata(data[column], column) for column in partition_cols]" in s and "'partition_columns': partition_columns" in s)),
           '', wr.loc(mm))
    ctx.ob('R8.2', 'writer.make_metadata:ignored-columns-skipped-in-the-schema',
           'if column in ignore_columns' in s, '', wr.loc(mm))
    pm = ctx.repo['api'].func('ParquetFile.partition_meta')
    ctx.ob('R8.2', 'api.partition_meta:keyed-by-field-name',
           "col['field_name']: col for col in self.pandas_metadata.get('partition_columns', [])" in src(pm), '', ctx.repo['api'].loc(pm))


def r83(ctx, wr, api, ut, core):
    f = wr.func('partition_on_columns')
    s = src(f)
    ok = "'%s=%s' % (name, path_string(val))" in s and "join_path(*('%s' % val for val in key))" in s
    ctx.ob('R8.3', 'writer.partition_on_columns:path-grammar-name=value-or-bare-value', ok,
           'hive: "%s=%s" % (name, path_string(val)); drill: "%s" % val', wr.loc(f))
    jp = ut.func('join_path')
    ctx.ob('R8.3', 'util.join_path:segments-joined-by-slash', "'/'.join(" in src(jp), '', ut.loc(jp))
    p2c = api.func('_path_to_cats')
    s = src(p2c)
    # (splitting each level at '=' or the shared pattern of ex_from_sep - checked below to find the same pairs)
    ctx.ob('R8.3', 'api._path_to_cats:hive-splits-on-slash-then-equals',
           "p.split('=') for p in path.split('/') if '=' in p" in s or ('hivehits = s.findall(path)' in s and "s = ex_from_sep('/')" in s), '', api.loc(p2c))
    ctx.ob('R8.3', 'api._path_to_cats:drill-names-levels-dir<i>', "(f'dir{i}', v) for i, v in enumerate(path_parts)" in s, '', api.loc(p2c))
    rr = core.func('read_row_group')
    s2 = src(rr)
    ctx.ob('R8.3', 'core.read_row_group:hive-splits-on-slash-then-equals',
           "s.split('=') for s in rg.columns[0].file_path.split('/')" in s2 or "ex_from_sep('/').findall(rg.columns[0].file_path)" in s2, '', core.loc(rr))
    ctx.ob('R8.3', 'core.read_row_group:drill-names-levels-dir<i>-over-the-directory-part',
           "('dir%i' % i, v) for i, v in enumerate(rg.columns[0].file_path.split('/')[:-1])" in s2, '', core.loc(rr))
    pc = api.func('paths_to_cats')
    s3 = src(pc)
    # (the file name is cut off by the helper, or by the helper's expression written in place)
    tail = "{path.rsplit('/', 1)[0] if '/' in path else '' for path in paths}"
    cut = ('_strip_path_tail(paths)' in s3 and '_strip_path_tail' in ut.funcs and tail in src(ut.funcs['_strip_path_tail'])) or tail in s3
    ctx.ob('R8.3', 'api.paths_to_cats:directory-part-split-on-slash', "path.split('/') for path in paths if path" in s3 and cut, '', api.loc(pc))
    pt = api.func('partitions')
    ctx.ob('R8.3', 'api.partitions:values-split-on-slash-or-equals', "re.split('/|=', f_path)[1::2]" in src(pt), '', api.loc(pt))
    ex = ut.func('ex_from_sep')
    # the pattern (a constant, instantiated for '/') finds the same name=value pairs as the parsers that split the path -
    # also for names that are not identifiers: a condition on a key the pattern misses is never applied at all (row-level
    # evaluation leaves partition conditions to the pruning step)
    import re as _re
    pats = []
    for c in ast.walk(ex):
        if isinstance(c, ast.Call) and isinstance(c.func, ast.Attribute) and c.func.attr == 'format' and isinstance(c.func.value, ast.Constant) \
                and isinstance(c.func.value.value, str):
            pats.append(c.func.value.value)
    okp, dp = bool(pats), []
    samples = {'a=1/my-p=x y/part.0.parquet': [('a', '1'), ('my-p', 'x y')], 'year=2020/data/part.0.parquet': [('year', '2020')],
               'plain/part.0.parquet': [], 'k.1=2.5/p.parquet': [('k.1', '2.5')]}
    for pat in pats:
        try:
            rx = _re.compile(pat.format('/'))
        except Exception as e_:
            continue     # (the arm for separators that need escaping; '/' does not take it)
        for text, want in samples.items():
            got = [tuple(x) for x in rx.findall(text)]
            if got != want:
                okp = False
                dp.append('%r on %r finds %r, the split parsers find %r' % (pat, text, got, want))
    ctx.ob('R8.3', 'util.ex_from_sep:pattern-finds-the-pairs-the-split-parsers-find', okp, '; '.join(dp[:2]), ut.loc(ex))
    # val_to_num on path values passes the partition metadata of the key
    sites = []
    for m, q in ((api, '_path_to_cats'), (core, 'read_row_group'), (api, 'filter_out_cats')):
        g = m.func(q)
        for c in ast.walk(g):
            if isinstance(c, ast.Call) and callee(c) == 'val_to_num':
                sites.append((m, q, c))
    ctx.floor('R8.3', 'val_to_num sites on path values', len(sites), 4)
    for m, q, c in sites:
        meta = kwarg(c, 'meta', 1)
        t = norm(meta) if meta is not None else ''
        ok = 'partition_meta.get(' in t or (q == 'filter_out_cats' and norm(c) == 'val_to_num(v)') or \
            (q == '_path_to_cats' and norm(c) == 'val_to_num(val, meta)')     # the whole-key text arm (checked below)
        ctx.ob('R8.3', '%s.%s:val_to_num-gets-the-partition-metadata-of-its-key:%s' % (m.name, q, norm(c)[:50]), ok,
               'meta argument: %s' % (t or '(none)'), m.loc(c))
    # a key is typed as a whole: every value through the key's partition metadata, and - as soon as one of them
    # stays text - every value as text (the decision must not depend on the order the paths are met in)
    k = [norm(c) for _, q, c in sites if q == '_path_to_cats']
    whole = [x for x in ast.walk(p2c) if isinstance(x, ast.If) and 'isinstance(tp, str)' in norm(x.test) and norm(x.test).startswith('any(')]
    ok = sorted(k) == ['val_to_num(val, meta)', 'val_to_num(val, partition_meta.get(key))'] and len(whole) == 1 and \
        any(isinstance(st, ast.Assign) and 'val_to_num(val, meta)' in norm(st.value) for st in whole[0].body)
    ctx.ob('R8.3', 'api._path_to_cats:string-typed-keys-stay-strings', ok,
           'typing calls %s; per-key decision `%s`' % (k, norm(whole[0].test) if whole else 'none'), api.loc(p2c))
    per_value = [x for x in ast.walk(p2c) if isinstance(x, ast.Call) and callee(x) == 'string_types.add']
    ctx.ob('R8.3', 'api._path_to_cats:typing-independent-of-path-order', not per_value,
           'a per-value switch to text (string_types.add while iterating) types the values met earlier differently', api.loc(p2c))
    s2b = src(rr)
    fb = [x for x in ast.walk(rr) if isinstance(x, ast.If) and norm(x.test) == 'val not in cats[cat]']
    ctx.ob('R8.3', 'core.read_row_group:partition-code-is-the-index-of-the-typed-value',
           'val = val_to_num(text, meta=partition_meta.get(key))' in s2b and 'assign[cat][:] = cats[cat].index(val)' in s2b
           and len(fb) == 1 and [norm(x) for x in fb[0].body] == ['val = text'],
           'the row group\'s directory text is typed like its key\'s categories: through the metadata, falling back to the raw '
           'text exactly when the typed value is not among the categories (key kept as text)', core.loc(rr))


def r84(ctx, ut):
    f = ut.func('path_string')
    calls = [c for c in ast.walk(f) if isinstance(c, ast.Call) and isinstance(c.func, ast.Attribute) and c.func.attr == 'isoformat']
    ok = len(calls) == 1
    d = 'isoformat() call not found'
    if ok:
        ts = kwarg(calls[0], 'timespec', 1)
        d = norm(calls[0])
        ok = ts is None or (isinstance(ts, ast.Constant) and ts.value in ('auto', 'nanoseconds'))
    ctx.ob('R8.4', 'util.path_string:timestamp-text-keeps-full-precision', ok,
           '%s: a truncating timespec merges keys that differ below it into one directory' % d, ut.loc(f))
    ctx.ob('R8.4', 'util.path_string:other-values-use-str', norm(f.body[-1]) == 'return str(o)', '', ut.loc(f))


def r85(ctx, api=None):
    api = api or ctx.repo['api']
    f = api.func('_path_to_cats')
    adds = [c for c in ast.walk(f) if isinstance(c, ast.Call) and callee(c) == 'seen.add']
    tests = [c for c in ast.walk(f) if isinstance(c, ast.Compare) and any(isinstance(o, (ast.In, ast.NotIn)) for o in c.ops)
             and norm(c.comparators[0]) == 'seen']

    def names(e):
        return {n.id for n in ast.walk(e) if isinstance(n, ast.Name)}
    ok = len(adds) == 1 and len(tests) == 1 and {'key', 'val'} <= names(adds[0].args[0]) and {'key', 'val'} <= names(tests[0].left)
    ctx.ob('R8.5', 'api._path_to_cats:values-deduplicated-per-(key,value)', ok,
           'seen.add(%s) / `%s`: two partition columns can carry the same value text' % (
               norm(adds[0].args[0]) if adds else '?', norm(tests[0]) if tests else '?'), api.loc(f))
    s = src(f)
    ctx.ob('R8.5', 'api._path_to_cats:every-value-registered-under-its-key',
           'texts.setdefault(key, []).append(val)' in s and 'cats[key] = list(set(typed))' in s,
           'each distinct (key, value) text is collected under its key and every collected text ends up typed in cats[key]', api.loc(f))


PARSER_ORDER = ['int', 'float', 'pd.Timestamp', 'pd.Timedelta']


def r86(ctx, ut):
    """value kinds come back from the directory text: the typed parse applies the recorded numpy type to the text
    itself, and the untyped cascade tries int, float, timestamp, timedelta - each attempt guarded only by its try"""
    f = ut.func('val_from_meta')
    rets = [r for r in ast.walk(f) if isinstance(r, ast.Return) and isinstance(r.value, ast.Call)
            and isinstance(r.value.func, ast.Attribute) and r.value.func.attr == 'type']
    ctx.ob('R8.6', 'util.val_from_meta:typed-parse-found', len(rets) >= 1, 'return <dtype>.type(x)', ut.loc(f))
    for r in rets:
        a = r.value.args
        ctx.ob('R8.6', 'util.val_from_meta:recorded-type-applied-to-the-text-itself',
               len(a) == 1 and isinstance(a[0], ast.Name) and a[0].id == f.args.args[0].arg,
               '`%s`: an intermediate conversion (e.g. through float) loses integers beyond 2**53 and text forms the '
               'target type accepts' % norm(r), ut.loc(r))
    # the dispatcher hands the typed value on as it is: a conversion in between (`.item()`, int(), str()) changes the kind
    # of some recorded types (a datetime64[ns] scalar becomes an integer count)
    h = ut.func('val_to_num')
    rets_h = [r for r in ast.walk(h) if isinstance(r, ast.Return)]
    typed = [r for r in rets_h if any(isinstance(c, ast.Call) and callee(c) == 'val_from_meta' for c in ast.walk(r))]
    defs_h = {norm(a_.targets[0]): a_.value for a_ in ast.walk(h) if isinstance(a_, ast.Assign) and len(a_.targets) == 1}
    derived = [r for r in rets_h if r not in typed and any(isinstance(x, ast.Name) and isinstance(defs_h.get(x.id), ast.Call)
                                                            and callee(defs_h[x.id]) == 'val_from_meta' for x in ast.walk(r))]
    ok_h = bool(typed or derived) and all(isinstance(r.value, ast.Call) and callee(r.value) == 'val_from_meta' for r in typed) and \
        all(isinstance(r.value, ast.Name) for r in derived)
    ctx.ob('R8.6', 'util.val_to_num:typed-value-handed-on-unconverted', ok_h,
           'returns %s' % [norm(r)[:60] for r in typed + derived], ut.loc(h))
    g = ut.func('_val_to_num')
    tries = [st for st in g.body if isinstance(st, ast.Try)]
    got = []
    for t in tries:
        if len(t.body) == 1 and isinstance(t.body[0], ast.Return) and isinstance(t.body[0].value, ast.Call):
            got.append(callee(t.body[0].value))
    ctx.ob('R8.6', 'util._val_to_num:parser-cascade-int-float-timestamp-timedelta', got == PARSER_ORDER,
           'attempts in order %s, each `try: return P(x)`' % got, ut.loc(g))
    # no parser attempt sits under a narrower precondition
    for c in ast.walk(g):
        if isinstance(c, ast.Call) and callee(c) in PARSER_ORDER:
            top = [st for st in g.body if any(n is c for n in ast.walk(st))]
            ctx.ob('R8.6', 'util._val_to_num:%s-attempt-guarded-only-by-its-try' % callee(c),
                   bool(top) and isinstance(top[0], ast.Try) and any(n is c for n in ast.walk(top[0].body[0])) and len(top[0].body) == 1,
                   'a pre-test such as str.isdecimal() rejects signed and padded forms that the parser accepts', ut.loc(c))
    # the last fallback returns the text unchanged
    last = tries[-1] if tries else None
    ok = last is not None and last.handlers and norm(last.handlers[-1].body[-1]) == 'return %s' % g.args.args[0].arg
    ctx.ob('R8.6', 'util._val_to_num:unparsable-text-returned-unchanged', bool(ok), '', ut.loc(g))
    # early exits return the argument or a boolean literal
    for st in g.body:
        if isinstance(st, ast.If):
            for r in ast.walk(st):
                if isinstance(r, ast.Return):
                    v = r.value
                    ok = (isinstance(v, ast.Name) and v.id == g.args.args[0].arg) or (isinstance(v, ast.Constant) and isinstance(v.value, bool))
                    ctx.ob('R8.6', 'util._val_to_num:early-exit-returns-argument-or-boolean:%s' % norm(st.test)[:40], ok, norm(r), ut.loc(r))


def r87(ctx, ut, rule='R8.7'):
    """typed parse of partition text: the boolean arm accepts what the writer puts in the path (str(True) = 'True')
    and the numeric spellings a filter constant may take; the numpy_type recorded for a pandas nullable integer is the
    numpy spelling (lower case) that the reader hands to np.dtype"""
    f = ut.func('val_from_meta')
    lists = [x for x in ast.walk(f) if isinstance(x, ast.Compare) and isinstance(x.ops[0], ast.In) and isinstance(x.comparators[0], (ast.List, ast.Tuple, ast.Set))]
    vals = set()
    for x in lists:
        for e in x.comparators[0].elts:
            if isinstance(e, ast.Constant):
                vals.add(repr(e.value))
    need = {repr(True), repr('True'), repr('true'), repr(1), repr('1')}
    ctx.ob(rule, 'util.val_from_meta:boolean-spellings-cover-text-and-numeric-forms', need <= vals,
           'accepted spellings %s; missing %s' % (sorted(vals), sorted(need - vals)), ut.loc(f))
    g = ut.func('get_numpy_type')
    arm = [st for st in ast.walk(g) if isinstance(st, ast.If) and "'Int' in str(dtype)" in norm(st.test)]
    ok = bool(arm) and any(isinstance(r, ast.Return) and norm(r.value) == 'str(dtype).lower()' for r in arm[0].body)
    ctx.ob(rule, 'util.get_numpy_type:nullable-integers-recorded-under-their-numpy-name', ok,
           "np.dtype('Int64') does not exist; the reader parses the recorded name with np.dtype", ut.loc(g))


def r89(ctx, ut, rule='R8.9'):
    """val_from_meta hands the recorded numpy_type to np.dtype only for names numpy knows: time-zone aware and pandas'
    nullable float names are treated before"""
    f = ut.func('val_from_meta')
    s = norm(ast.Module(body=f.body, type_ignores=[]))
    tzret = [r for r in ast.walk(f) if isinstance(r, ast.Return) and 'pd.Timestamp(x)' in norm(r)]
    ctx.ob(rule, 'util.val_from_meta:zone-aware-value-keeps-its-offset', len(tzret) == 1 and norm(tzret[0].value) == 'pd.Timestamp(x)',
           '`%s`: dropping the zone compares wall-clock times of different zones as if they were instants' % (norm(tzret[0]) if tzret else '?'), ut.loc(f))
    ctx.ob(rule, 'util.val_from_meta:time-zone-aware-partition-type-handled', "startswith('datetime64[')" in s and 'pd.Timestamp(x)' in s,
           "np.dtype('datetime64[us, UTC]') raises TypeError", ut.loc(f))
    ctx.ob(rule, 'util.val_from_meta:nullable-float-partition-type-handled', "'Float64'" in s and '.lower()' in s,
           "np.dtype('Float64') raises TypeError", ut.loc(f))
