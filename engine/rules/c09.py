"""C09 - dataset edits keep summary metadata and directory in agreement (ordering clauses)."""
import ast

from ..model import AnalysisError, callee, norm, src, walk_no_nested, iter_child_stmts, kwarg, const_value
from ..cfg import CFG
from .. import effects as fx
from . import append_route as ar
from . import meta_rules
from .c18 import _overwrite_order, _call_stmt


def run(ctx):
    ctx.technique = 'CFG ordering of file-system effects vs the summary rewrite, def-use agreement of removed files and removed metadata, rename-plan shape'
    ctx.explanation = (
        'Decides: (R9.1) every dataset mutator (write_row_groups, remove_row_groups, _sort_part_names, '
        'write_multi, overwrite, merge) rewrites _metadata after its last file-system mutation on all normal '
        'exits when asked to, and the public entry points ask; (R9.2) the files removed are the files of the '
        'row groups removed from the metadata, num_rows follows, a renamed file\'s new path is stored on every '
        'chunk of its row group; (R9.3) renumbering goes through temporary names in two passes; (R9.4) no '
        'part file is opened for an empty group; (R9.5) new parts get fresh numbers; (R9.6) the rename plan '
        'has one entry per referenced part file (known finding K09: it is keyed by the bare part number).')
    ctx.not_decided = 'content equality with a model over arbitrary histories'
    ctx.trusted_base.append('engine/effects.py (effect vocabulary)')
    api, wr = ctx.repo['api'], ctx.repo['writer']
    r91(ctx, api, wr)
    r92(ctx, api)
    r93(ctx, api)
    r94(ctx, wr)
    ar.fresh_part_rule(ctx, 'R9.5')
    ar.single_file_route_rule(ctx, 'R9.17')
    ar.index_normalisation_rule(ctx, 'R9.6')
    r98(ctx)
    from . import findings2 as _f2
    _f2.partitioning_memory(ctx, 'R9.11')
    r910(ctx)
    ar.mode_params_rule(ctx, 'R9.9')
    r96(ctx, api)
    r97(ctx, wr)
    from . import callsigs as _cs
    from . import findings3 as _f3
    _f3.append_layouts(ctx, 'R9.13')
    _f3.removal_check(ctx, 'R9.14')
    _f3.partition_text(ctx, 'R9.15')
    r916(ctx, wr)
    _cs.general_rules(ctx, 'R9', ['writer.write', 'writer.overwrite', 'writer.merge', 'writer.write_multi', 'writer.partition_on_columns', 'api.ParquetFile.write_row_groups', 'api.ParquetFile.remove_row_groups', 'api.ParquetFile._sort_part_names', 'api.ParquetFile._write_common_metadata', 'writer.write_common_metadata', 'writer.consolidate_categories'])


def _late_effects(cfg, start_node, m):
    late = []
    for n in cfg.stmts_after(start_node):
        st = cfg.nodes[n].stmt
        if st is None or isinstance(st, (ast.If, ast.For, ast.While, ast.Try, ast.With)):
            continue
        for c in ast.walk(st):
            if isinstance(c, ast.Call) and (fx.classify(c) in ('OPEN', 'REMOVE', 'RENAME', 'MKDIR') or
                                            callee(c) in ('write_multi', 'write_simple', 'self._sort_part_names',
                                                          'pf.write_row_groups', 'pf.remove_row_groups')):
                late.append(norm(c)[:60])
    return late


def r91(ctx, api, wr):
    ar.parts_first_rule(ctx, 'R9.1')
    _overwrite_order(ctx)
    # remove_row_groups
    f = api.func('ParquetFile.remove_row_groups')
    cfg = CFG(f)
    w = _call_stmt(f, 'self._write_common_metadata')
    ok = len(w) == 1
    if ok:
        tests = [norm(e.test) for e, fld in cfg.enclosing_tests(w[0]) if isinstance(e, ast.If) and fld == 'body']
        late = _late_effects(cfg, cfg.node_of(w[0]), api)
        ok = tests == ['write_fmd'] and not late
        ctx.ob('R9.1', 'api.remove_row_groups:summary-rewritten-last-under-write_fmd', ok,
               'guards %s; file-system steps after it: %s' % (tests, late or 'none'), api.loc(w[0]))
        rm = [s for s in iter_child_stmts(f.body) if any(isinstance(c, ast.Call) and callee(c) == 'remove_with' for c in ast.walk(s))
              and isinstance(s, ast.Expr)]
        sp = _call_stmt(f, 'self._sort_part_names')
        ok = len(rm) == 1 and all(cfg.exists_path(cfg.node_of(x), cfg.node_of(w[0])) for x in rm + sp) and \
            all(not cfg.exists_path(cfg.node_of(w[0]), cfg.node_of(x)) for x in rm + sp)
        ctx.ob('R9.1', 'api.remove_row_groups:file-removal-and-renaming-precede-summary', ok, '', api.loc(f))
        for s in sp:
            c = [c for c in ast.walk(s) if isinstance(c, ast.Call) and callee(c) == 'self._sort_part_names'][0]
            ctx.ob('R9.1', 'api.remove_row_groups:_sort_part_names-does-not-write-summary-itself',
                   c.args and const_value(c.args[0], None) is False, norm(c), api.loc(c))
    else:
        ctx.ob('R9.1', 'api.remove_row_groups:summary-rewritten-last-under-write_fmd', False, 'summary call not found', api.loc(f))
    # defaults of the public mutators
    for q, m in (('ParquetFile.remove_row_groups', api), ('ParquetFile.write_row_groups', api), ('write_multi', wr)):
        g = m.func(q)
        names = [a.arg for a in g.args.args]
        defaults = dict(zip(names[len(names) - len(g.args.defaults):], g.args.defaults))
        ctx.ob('R9.1', '%s:write_fmd-defaults-to-True' % q, const_value(defaults.get('write_fmd'), None) is True, '', m.loc(g))
    # _sort_part_names
    g = api.func('ParquetFile._sort_part_names')
    cfg = CFG(g)
    w = _call_stmt(g, 'self._write_common_metadata')
    ren = [s for s in iter_child_stmts(g.body) if isinstance(s, ast.Expr) and _is_rename(g, s.value)]
    ok = len(w) == 1 and len(ren) >= 2 and all(cfg.exists_path(cfg.node_of(r), cfg.node_of(w[0])) for r in ren) and \
        not _late_effects(cfg, cfg.node_of(w[0]), api)
    tests = [norm(e.test) for e, fld in cfg.enclosing_tests(w[0]) if isinstance(e, ast.If) and fld == 'body'] if w else []
    ctx.ob('R9.1', 'api._sort_part_names:summary-after-all-renames-under-write_fmd', ok and 'write_fmd' in tests, str(tests), api.loc(g))
    # whether the summary is rewritten depends on the caller's flag and on the dataset having numbered parts at all -
    # not on whether this call found something to rename (callers delegate their summary write to this function)
    if w:
        from ..cfg import ReachingDefs
        rd = ReachingDefs(cfg)
        bad = []
        for e, fld in cfg.enclosing_tests(w[0]):
            if not (isinstance(e, ast.If) and fld == 'body') or norm(e.test) == 'write_fmd':
                continue
            for x in ast.walk(e.test):
                if isinstance(x, ast.Name):
                    for d in rd.defs_reaching(cfg.node_of(e), x.id):
                        st_ = cfg.nodes[d].stmt if d != cfg.entry else None
                        if st_ is not None and not (isinstance(st_, ast.Assign) and isinstance(st_.value, ast.Call) and callee(st_.value) == 'part_ids'):
                            bad.append('%s <- %s' % (x.id, norm(st_)[:60]))
        ctx.ob('R9.1', 'api._sort_part_names:summary-write-not-conditional-on-there-being-something-to-rename', not bad,
               'the guard of the summary write reads %s: with names already aligned the summary of a removal / addition made '
               'with write_fmd=False is never written' % bad, api.loc(w[0]))
    # merge
    mg = wr.func('merge')
    body = [norm(s) for s in mg.body if not (isinstance(s, ast.Expr) and isinstance(s.value, ast.Constant))
            and not isinstance(s, ast.Pass)]
    want = ['out = ParquetFile(file_list, verify_schema, open_with, root)', 'out._write_common_metadata(open_with)', 'return out']
    pos = [body.index(x) if x in body else -1 for x in want]
    ctx.ob('R9.1', 'writer.merge:open-then-write-summary', -1 not in pos and pos == sorted(pos), str(body), wr.loc(mg))
    wcm = api.func('ParquetFile._write_common_metadata')
    ctx.ob('R9.1', 'api._write_common_metadata:refuses-single-file-datasets',
           any(isinstance(s, ast.If) and norm(s.test) == "self.file_scheme == 'simple'" and isinstance(s.body[0], ast.Raise)
               for s in wcm.body), '', api.loc(wcm))


def _removal_list_ok(e):
    """one path per file of the removed row groups: a comprehension over `rgs_to_remove` whose element joins the dataset
    directory and the file (join_path(basepath, file) or the f-string form), unfiltered"""
    if not (isinstance(e, ast.ListComp) and len(e.generators) == 1 and not e.generators[0].ifs
            and norm(e.generators[0].iter) == 'rgs_to_remove' and isinstance(e.generators[0].target, ast.Name)):
        return False
    v = e.generators[0].target.id
    t = norm(e.elt)
    return t in ('join_path(basepath, %s)' % v, "f'{basepath}/{%s}'" % v)


def r92(ctx, api):
    f = api.func('ParquetFile.remove_row_groups')
    cfg = CFG(f)
    mp = [s for s in iter_child_stmts(f.body) if isinstance(s, ast.Assign) and norm(s) == 'rgs_to_remove = row_groups_map(rgs)']
    rm = [c for c in walk_no_nested(f) if isinstance(c, ast.Call) and callee(c) == 'remove_with']
    loop = [s for s in iter_child_stmts(f.body) if isinstance(s, ast.For) and norm(s.iter) == 'rgs' and 'rg_new.remove(rg)' in src(s)]
    ok = len(mp) == 1 and len(rm) == 1 and len(loop) == 1
    ctx.ob('R9.2', 'api.remove_row_groups:removal-pieces-present', ok,
           'row_groups_map(rgs), remove_with(...), for rg in rgs: rg_new.remove(rg)', api.loc(f))
    if ok:
        arg = norm(rm[0].args[0])
        ctx.ob('R9.2', 'api.remove_row_groups:files-removed-are-the-files-of-the-removed-row-groups',
               _removal_list_ok(rm[0].args[0]), arg, api.loc(rm[0]))
        # the dataset directory may be the empty string (a handle opened on the bare name `_metadata`): a path glued together
        # as f'{basepath}/...' then starts at the file-system root, and the file of the removed row group stays where it is
        for q_ in ('ParquetFile.remove_row_groups', 'ParquetFile._sort_part_names'):
            g_ = api.func(q_)
            glued = [norm(x)[:50] for x in walk_no_nested(g_) if isinstance(x, ast.JoinedStr) and norm(x).startswith("f'{basepath}/")]
            ctx.ob('R9.2', 'api.%s:paths-under-the-dataset-directory-are-joined-not-glued' % q_.split('.')[-1], not glued,
                   '%s: with an empty base path this names /<file>' % glued, api.loc(g_))
        # rgs not rebound between the map and the loop
        from ..cfg import ReachingDefs
        rd = ReachingDefs(cfg)
        d0 = rd.defs_reaching(cfg.node_of(mp[0]), 'rgs')
        d1 = rd.defs_reaching(cfg.node_of(loop[0]), 'rgs')
        ctx.ob('R9.2', 'api.remove_row_groups:same-row-group-list-for-files-and-metadata', d0 == d1,
               'definitions of rgs at the file map %s and at the metadata loop %s' % (sorted(d0), sorted(d1)), api.loc(loop[0]))
        body = [norm(s) for s in loop[0].body]
        ctx.ob('R9.2', 'api.remove_row_groups:num_rows-decremented-per-removed-row-group',
               body == ['rg_new.remove(rg)', 'self.fmd.num_rows -= rg.num_rows'], str(body), api.loc(loop[0]))
        st = [s for s in iter_child_stmts(f.body) if isinstance(s, ast.Assign) and norm(s) == 'self.fmd.row_groups = rg_new']
        ctx.ob('R9.2', 'api.remove_row_groups:reduced-list-stored-back', len(st) == 1 and
               cfg.exists_path(cfg.node_of(loop[0]), cfg.node_of(st[0])), '', api.loc(f))
        sa = _call_stmt(f, 'self._set_attrs')
        ctx.ob('R9.2', 'api.remove_row_groups:handle-refreshed-after-removal', len(sa) == 1, '', api.loc(f))
    rgm = api.func('row_groups_map')
    ctx.ob('R9.2', 'api.row_groups_map:keyed-by-the-row-group-file', 'file = rg.columns[0].file_path' in src(rgm)
           and 'files_rgs[file].append(rg)' in src(rgm), '', api.loc(rgm))
    meta_rules.rowcount_rule(ctx, 'R9.2', only_modules={'api', 'writer', 'util'})
    from . import c08
    c08.r85(ctx)
    w = api.func('ParquetFile.write_row_groups')
    last = [s for s in w.body if not isinstance(s, ast.Pass)]
    ctx.ob('R9.2', 'api.write_row_groups:handle-rebuilt-after-the-append', bool(last) and norm(last[-1]) == 'self._set_attrs()',
           'after new row groups (and possibly new partition values) were added the handle\'s derived state (row_groups, cats, '
           'file_scheme, dtypes) must be rebuilt: last statement is `%s`' % (norm(last[-1])[:60] if last else '?'), api.loc(w))
    n = meta_rules.filepath_rule(ctx, 'R9.2', only={'api'})
    # the row group whose path is stored is the one whose file was renamed
    g = api.func('ParquetFile._sort_part_names')
    second = [s for s in iter_child_stmts(g.body) if isinstance(s, ast.For) and 'col.file_path' in src(s) and 'rename' in src(s)]
    ok = len(second) == 1
    if ok:
        body = [norm(x) for x in second[0].body]
        need = ["dst_part = join_path(parts, f'part.{rgid}.parquet')", 'dst = join_path(basepath, dst_part)']
        # (the pair (row-group index, file name) unpacked in the loop body or by the loop itself)
        bound = 'rgid, fname = (item[0], item[1])' in body or norm(second[0].target) in ('(rgid, fname)', 'rgid, fname')
        ok = bound and all(x in body for x in need) and any(_is_rename(g, x.value) and [norm(a) for a in x.value.args] == ['src', 'dst']
                                                  for x in second[0].body if isinstance(x, ast.Expr)) and any(
            x.startswith('for col in self.fmd.row_groups[rgid].columns:') and 'col.file_path = dst_part' in x for x in body)
    ctx.ob('R9.2', 'api._sort_part_names:new-path-stored-on-the-row-group-whose-file-was-renamed', ok,
           'rename target part.{rgid}.parquet and store on row_groups[rgid]', api.loc(g))


def _is_rename(g, c):
    return isinstance(c, ast.Call) and fx.classify(c, fx.local_aliases(g)) == 'RENAME'


def r93(ctx, api):
    g = api.func('ParquetFile._sort_part_names')
    loops = [s for s in iter_child_stmts(g.body) if isinstance(s, ast.For) and any(_is_rename(g, c) for c in ast.walk(s))]
    plan = []
    for lp in loops:
        for c in ast.walk(lp):
            if _is_rename(g, c) and len(c.args) == 2:
                defs = {norm(s.targets[0]): norm(s.value) for s in iter_child_stmts(lp.body) if isinstance(s, ast.Assign)
                        and isinstance(s.targets[0], ast.Name)}
                a, b = (defs.get(norm(x), norm(x)) for x in c.args)
                plan.append((lp, '.tmp' in a, '.tmp' in b, a, b))
    kinds = [(s, d) for _, s, d, _, _ in plan]
    ok = len(loops) == 2 and kinds == [(False, True), (True, False)] and loops[0].lineno < loops[1].lineno \
        and norm(loops[0].iter) == norm(loops[1].iter)
    ctx.ob('R9.3', 'api._sort_part_names:two-pass-rename-through-temporary-names', ok,
           'rename steps (src is temporary, dst is temporary): %s; a single pass can rename a file onto a name that is '
           'still held by a file not yet moved' % kinds, api.loc(g))
    if len(plan) == 2:
        ctx.ob('R9.3', 'api._sort_part_names:second-pass-consumes-the-temporary-name-of-the-first',
               plan[0][4] == plan[1][3], 'pass1 dst %s | pass2 src %s' % (plan[0][4], plan[1][3]), api.loc(g))


def r94(ctx, wr):
    f = wr.func('partition_on_columns')
    cfg = CFG(f)
    opens = [c for k, c in fx.direct_effects(f) if k == 'OPEN']
    mk = [c for k, c in fx.direct_effects(f) if k == 'MKDIR']
    ctx.floor('R9.4', 'OPEN sites in partition_on_columns', len(opens), 1)
    guards = [s for s in iter_child_stmts(f.body) if isinstance(s, ast.If) and norm(s.test) == 'group.empty'
              and any(isinstance(x, ast.Continue) for x in s.body)]
    for c in opens + mk:
        st = None
        for s in iter_child_stmts(f.body):
            if isinstance(s, (ast.With, ast.Expr)) and any(x is c for x in ast.walk(s if isinstance(s, ast.Expr) else s.items[0].context_expr)):
                st = s
        ok = bool(guards) and st is not None and cfg.dominates(cfg.node_of(guards[0]), cfg.node_of(st))
        ctx.ob('R9.4', 'writer.partition_on_columns:no-file-or-directory-for-an-empty-group:%s' % callee(c), ok,
               'groupby(observed=False) yields empty groups for unused categories; a part file opened for one is a '
               'zero-byte file that no row group references', wr.loc(c))
    ap = [s for s in iter_child_stmts(f.body) if isinstance(s, ast.Expr) and norm(s.value) == 'rgs.append(rg)']
    ok = len(ap) == 1 and [norm(e.test) for e, fld in cfg.enclosing_tests(ap[0]) if isinstance(e, ast.If)] == ['rg is not None']
    ctx.ob('R9.4', 'writer.partition_on_columns:every-written-part-is-recorded', ok, '', wr.loc(f))
    paths = {norm(s.targets[0]): norm(s.value) for s in iter_child_stmts(f.body) if isinstance(s, ast.Assign)
             and norm(s.targets[0]) in ('relname', 'fullname')}
    ctx.ob('R9.4', 'writer.partition_on_columns:recorded-path-is-the-opened-path-relative-to-root',
           paths == {'relname': 'join_path(path, partname)', 'fullname': 'join_path(root_path, path, partname)'}, str(paths), wr.loc(f))


def r96(ctx, api):
    pi = api.func('part_ids')
    rets = [s for s in iter_child_stmts(pi.body) if isinstance(s, ast.Return)]
    key = None
    if rets and isinstance(rets[0].value, ast.DictComp):
        key = rets[0].value.key
    if key is None:
        raise AnalysisError('R9.6: part_ids no longer returns a dict comprehension')
    keytxt = norm(key)
    per_file = 'pid_path[1]' in keytxt or 'path' in keytxt.replace('pid_path[0]', '')
    g = api.func('ParquetFile._sort_part_names')
    uses = any(isinstance(c, ast.Call) and callee(c) == 'part_ids' for c in ast.walk(g))
    ctx.ob('R9.6', 'api.part_ids:rename-plan-has-one-entry-per-part-file', per_file or not uses,
           'the plan used by _sort_part_names is keyed by `%s` (the bare part number): files with the same number in '
           'different partition directories collapse into one entry, so a file can be renamed onto a live file the '
           'plan does not know about' % keytxt, api.loc(pi))


def r97(ctx, wr):
    f = wr.func('overwrite')
    d = [s for s in iter_child_stmts(f.body) if isinstance(s, ast.Assign) and norm(s.targets[0]) == 'partition_values_in_new']
    ok = len(d) == 1
    t = norm(d[0].value) if d else ''
    # the key frame (possibly through a local) selects the partition columns in the dataset's order and joins with '/'
    kdef = [s for s in iter_child_stmts(f.body) if isinstance(s, ast.Assign) and norm(s.targets[0]) == 'keys']
    chain = t + ' ' + ' '.join(norm(k.value) for k in kdef)
    ok = ok and 'data.loc[:, defined_partitions]' in chain and ".agg('/'.join, axis=1)" in chain
    # values spelled as the writer spells directory names
    ctx.ob('R9.7', 'writer.overwrite:new-partition-keys-spelled-like-the-directory-names', 'path_string' in chain,
           'directory names come from path_string (ISO format for timestamps); keys rendered any other way (astype(str)) '
           'never match a datetime partition: %s' % chain[:160], wr.loc(d[0]) if d else wr.loc(f))
    # ... and the other side of that agreement: the hive directory text of a value is path_string(value) where the
    # directories are made
    pc = wr.func('partition_on_columns')
    hive = [x for x in ast.walk(pc) if isinstance(x, ast.BinOp) and isinstance(x.op, ast.Mod) and isinstance(x.left, ast.Constant)
            and isinstance(x.left.value, str) and '=' in x.left.value]
    defs_pc = {}
    for a_ in ast.walk(pc):
        if isinstance(a_, ast.Assign) and len(a_.targets) == 1 and isinstance(a_.targets[0], ast.Name):
            defs_pc.setdefault(a_.targets[0].id, []).append(a_.value)
    def _spelled(e, depth=0):
        if any(isinstance(c, ast.Call) and callee(c) == 'path_string' for c in ast.walk(e)):
            return True
        if depth < 3:
            for x in ast.walk(e):
                if isinstance(x, ast.Name) and x.id in defs_pc and any(_spelled(v, depth + 1) for v in defs_pc[x.id]):
                    return True
        return False
    made = [x for x in hive if any(isinstance(c, ast.Call) and callee(c) in ('join_path', 'mkdirs') for c in ast.walk(pc))]
    ctx.ob('R9.7', 'writer.partition_on_columns:hive-directory-text-is-path_string-of-the-value', bool(made) and all(_spelled(x.right) for x in made),
           'name=value segments: %s' % [norm(x)[:60] for x in made], wr.loc(pc))
    ctx.ob('R9.7', 'writer.overwrite:new-partition-keys-built-in-partition-column-order', ok,
           'the key of the new data must list the values in the order of the dataset\'s partition columns (the order of the '
           'directory levels it is compared with): %s' % t[:120], wr.loc(d[0]) if d else wr.loc(f))
    dp = [s for s in iter_child_stmts(f.body) if isinstance(s, ast.Assign) and norm(s.targets[0]) == 'defined_partitions']
    ctx.ob('R9.7', 'writer.overwrite:partition-order-taken-from-the-existing-dataset',
           len(dp) == 1 and norm(dp[0].value) == 'list(pf.cats)', norm(dp[0]) if dp else '', wr.loc(f))
    rm = [s for s in iter_child_stmts(f.body) if isinstance(s, ast.Assign) and norm(s.targets[0]) == 'rgs_to_remove']
    ctx.ob('R9.7', 'writer.overwrite:row-groups-to-remove-matched-by-partition-values',
           len(rm) == 1 and 'partitions(rg, True) in partition_values_in_new' in norm(rm[0].value) and 'pf.row_groups' in norm(rm[0].value),
           norm(rm[0])[:120] if rm else '', wr.loc(f))


def r916(ctx, wr, rule='R9.16'):
    """writer.partition_on_columns refuses unusable columns / values (`raise`) only while nothing has been written: no
    path leads from a statement that makes a directory or opens a part file to one of its own `raise` statements - a
    refusal in the middle of the groups leaves the part files of the groups before it in the directory, referenced by
    no metadata"""
    f = wr.func('partition_on_columns')
    cfg = CFG(f)
    eff = []
    for n in cfg.nodes:
        st = n.stmt
        if st is None:
            continue
        hdr = st.items[0].context_expr if isinstance(st, ast.With) else (None if isinstance(st, (ast.If, ast.For, ast.While, ast.Try)) else st)
        if hdr is None:
            continue
        for c in ast.walk(hdr):
            if isinstance(c, ast.Call) and (fx.classify(c) in ('OPEN', 'MKDIR') or callee(c) in ('mkdirs', 'open_with', 'make_part_file')):
                eff.append(n.id)
                break
    raises = [n.id for n in cfg.nodes if isinstance(n.stmt, ast.Raise)]
    ctx.floor(rule, 'file-system effects in partition_on_columns', len(eff), 1)
    for r_ in raises:
        late = [e for e in eff if cfg.exists_path(e, r_)]
        ctx.ob(rule, 'writer.partition_on_columns:refusal-before-anything-is-written:%s' % norm(cfg.nodes[r_].stmt)[:60], not late,
               'reachable after: %s' % [norm(cfg.nodes[e].stmt)[:50] for e in late[:3]], wr.loc(cfg.nodes[r_].stmt))


MUTATORS = ('ParquetFile._sort_part_names', 'ParquetFile.remove_row_groups', 'ParquetFile.write_row_groups')


def r98(ctx, rule='R9.8'):
    """the dataset mutators work on the file metadata itself (`self.fmd.row_groups`), never on the handle's derived
    `self.row_groups` list, which is only rebuilt by _set_attrs() at the end of a mutation and is stale in between"""
    api = ctx.repo['api']
    n = 0
    for q in MUTATORS:
        f = api.func(q)
        for x in walk_no_nested(f):
            if isinstance(x, ast.Attribute) and x.attr == 'row_groups':
                n += 1
                ctx.ob(rule, 'api.%s:works-on-the-file-metadata-not-the-derived-list:%s' % (q.split('.')[-1], norm(x)), norm(x) != 'self.row_groups',
                       '`%s` in %s: the cached list lags behind fmd.row_groups while row groups are being added, removed or re-ordered' % (norm(x), q),
                       api.loc(x))
    ctx.floor(rule, 'row-group list uses in the mutators', n, 8)


def r910(ctx, rule='R9.10'):
    """`self.fs` is set by one branch of ParquetFile.__init__ only (and never by slicing, pickling or list
    construction): every use outside __init__ is protected by hasattr(self, 'fs'), so that a mutation cannot fail
    half-way (files removed, summary not yet rewritten) for lack of it"""
    api = ctx.repo['api']
    n = 0
    for q, f in api.funcs.items():
        if not q.startswith('ParquetFile.') or q == 'ParquetFile.__init__':
            continue
        cfg = None
        for x in walk_no_nested(f):
            if isinstance(x, ast.Attribute) and norm(x) == 'self.fs' and isinstance(x.ctx, ast.Load):
                n += 1
                ok = False
                for y in walk_no_nested(f):
                    if isinstance(y, ast.IfExp) and any(z is x for z in ast.walk(y.body)) and norm(y.test) == "hasattr(self, 'fs')":
                        ok = True
                if not ok:
                    cfg = cfg or CFG(f)
                    for nd in cfg.nodes:
                        if nd.stmt is not None and any(z is x for z in ast.walk(nd.stmt)) and not isinstance(nd.stmt, (ast.If, ast.For, ast.While, ast.Try, ast.With)):
                            ok = any(norm(e.test) == "hasattr(self, 'fs')" and fld == 'body' for e, fld in cfg.enclosing_tests(nd.stmt))
                ctx.ob(rule, 'api.%s:self.fs-used-only-when-present' % q.split('.')[-1], ok, '`%s` unguarded' % norm(x), api.loc(x))
    ctx.floor(rule, 'uses of self.fs outside __init__', n, 2)
