"""C10 - metadata serialisation is lossless, IDL-conformant and size-safe.

Decides: agreement of the hand-maintained tables (specs/children) with parquet.thrift,
field-id coverage of the serialiser loop, wire-type agreement of reader and writer,
capacity discipline of the fixed output buffer, shape of the equality used for schemas,
and the i32 side channel at every Python construction site.
Not decided: byte equality of arbitrary generated structures.
"""
import ast

from ..model import (AnalysisError, module_table, callee, norm, src, walk_no_nested,
                     const_value, dotted)
from . import thrift_sites
from ..cfg import CFG

ROOTS = ['FileMetaData', 'PageHeader']
VALUE_NIBBLES = {1: 'bool-true', 2: 'bool-false', 3: 'i8', 4: 'i16', 5: 'i32', 6: 'i64',
                 7: 'double', 8: 'binary', 9: 'list', 12: 'struct'}


def run(ctx):
    ctx.technique = 'table agreement against the IDL + wire-type set comparison + guarded-store inventory'
    ctx.explanation = (
        'Decides: (R10.1/2) cencoding.specs and cencoding.children equal parquet.thrift for every '
        'struct they name and cover every struct reachable from FileMetaData/PageHeader or note it; '
        '(R10.3) the serialiser visits every field id that specs/IDL define and ids fit the short-form '
        'header; (R10.4/5) every value-carrying wire type the parser accepts can be re-emitted, incl. '
        'list element types and the declared i8/i16 fields; (R10.6) the fixed serialisation buffer is '
        'either an upper bound or every store is capacity-checked and overflow is detected; (R10.7) '
        'the schema equality has an arm per container kind; (R10.8) every Python construction site '
        'uses IDL field names and marks exactly the 32-bit integer fields.')
    ctx.not_decided = 'byte equality of serialise->parse for arbitrary generated structures and sizes'
    ctx.trusted_base += ['engine/idl.py (Thrift IDL subset reader)',
                         'VALUE_NIBBLES table of the Thrift compact protocol (spec constant)']
    repo, idl = ctx.repo, ctx.idl
    specs = module_table(repo, 'cencoding', 'specs')
    children = module_table(repo, 'cencoding', 'children')
    ctx.floor('R10.1', 'structs in specs', len(specs), 40)
    ctx.floor('R10.2', 'parents in children', len(children), 12)
    tbl_loc = 'fastparquet/cencoding.pyx'

    # R10.1 ----------------------------------------------------------------
    for sname, fields in sorted(specs.items()):
        if sname not in idl.structs:
            ctx.ob('R10.1', 'specs.%s:struct-in-IDL' % sname, False,
                   'specs names struct %s which parquet.thrift does not define' % sname, tbl_loc)
            continue
        want = {n: f.id for n, f in idl.structs[sname].items()}
        for fname in sorted(set(want) | set(fields)):
            ok = want.get(fname) == fields.get(fname)
            ctx.ob('R10.1', 'specs.%s.%s:id-equals-IDL' % (sname, fname), ok,
                   'specs gives %s.%s id %r, IDL gives %r' % (sname, fname, fields.get(fname), want.get(fname)),
                   tbl_loc, nontrivial=True)
    reach = idl.reachable(ROOTS)
    for sname in sorted(reach):
        if sname not in specs:
            ctx.note('R10.1 note: IDL struct %s (reachable from the roots) has no specs entry; such '
                     'values are kept as raw dicts and re-serialised by numeric id (lossless)' % sname)
    for root in ROOTS:
        ctx.ob('R10.1', 'specs:root-%s-present' % root, root in specs, '', tbl_loc)

    # R10.2 ----------------------------------------------------------------
    for sname in sorted(set(children) | set(specs)):
        if sname not in idl.structs:
            if sname in children:
                ctx.ob('R10.2', 'children.%s:struct-in-IDL' % sname, False,
                       'children names %s which the IDL does not define' % sname, tbl_loc)
            continue
        want = {n: f.base for n, f in idl.structs[sname].items() if f.base in idl.structs}
        got = children.get(sname, {})
        if sname not in specs:
            # parent without field table (ColumnCryptoMetaData): only checked when present
            if sname not in children:
                continue
        if sname not in reach:
            # not part of FileMetaData/PageHeader: a missing children entry only means the
            # value stays a raw dict (still serialised by id); report as a note
            for fname in sorted(set(want) | set(got)):
                if want.get(fname) != got.get(fname):
                    ctx.note('R10.2 note: %s.%s (not reachable from the roots): children gives %r, IDL %r' % (
                        sname, fname, got.get(fname), want.get(fname)))
            continue
        for fname in sorted(set(want) | set(got)):
            if want.get(fname) is not None and want[fname] not in specs and fname not in got:
                ctx.note('R10.2 note: %s.%s -> %s not in children and %s not in specs: kept raw' % (
                    sname, fname, want[fname], want[fname]))
                continue
            ctx.ob('R10.2', 'children.%s.%s:child-struct-equals-IDL' % (sname, fname),
                   want.get(fname) == got.get(fname),
                   'children gives %s.%s -> %r, IDL gives %r' % (sname, fname, got.get(fname), want.get(fname)),
                   tbl_loc)

    # R10.3 ----------------------------------------------------------------
    m = repo['cencoding']
    wt = m.func('write_thrift')
    loops = [n for n in walk_no_nested(wt) if isinstance(n, ast.For)]
    field_loop = None
    for lp in loops:
        body_src = ' '.join(norm(s) for s in lp.body)
        if isinstance(lp.target, ast.Name) and ('data.get(%s)' % lp.target.id in body_src
                                                 or '%s not in data' % lp.target.id in body_src):
            field_loop = lp
    if field_loop is None:
        raise AnalysisError('R10.3: cannot find the field loop of write_thrift')
    it = field_loop.iter
    max_id = max([i for f in specs.values() for i in f.values()] + [0])
    max_idl = max(f.id for s in idl.structs.values() for f in s.values())
    if isinstance(it, ast.Call) and callee(it) == 'range' and all(isinstance(a, ast.Constant) for a in it.args):
        a = [x.value for x in it.args]
        lo, hi = (0, a[0]) if len(a) == 1 else (a[0], a[1])
        ctx.ob('R10.3', 'cencoding.write_thrift:field-loop-starts-at-or-below-1', lo <= 1,
               'loop is range(%d, %d)' % (lo, hi), m.loc(field_loop))
        for sname, fields in sorted(specs.items()):
            for fname, fid in sorted(fields.items()):
                ctx.ob('R10.3', 'cencoding.write_thrift:field-reachable:%s.%s' % (sname, fname),
                       lo <= fid < hi,
                       'field id %d of %s.%s is %s range(%d, %d): it is %s serialised' % (
                           fid, sname, fname, 'inside' if lo <= fid < hi else 'OUTSIDE', lo, hi,
                           '' if lo <= fid < hi else 'never'), m.loc(field_loop))
    elif 'data' in {n.id for n in ast.walk(it) if isinstance(n, ast.Name)}:
        ctx.ob('R10.3', 'cencoding.write_thrift:field-loop-iterates-present-keys', True,
               'loop iterates %s' % norm(it), m.loc(field_loop))
    else:
        raise AnalysisError('R10.3: unrecognised field loop iterator %s' % norm(it))
    ctx.ob('R10.3', 'cencoding:short-form-header-fits', max(max_id, max_idl) <= 15,
           'largest field id specs=%d IDL=%d; (delta<<4)|type needs delta<=15' % (max_id, max_idl), tbl_loc)

    # R10.4 ----------------------------------------------------------------
    rt = m.func('read_thrift')
    t_r = set()
    for n in walk_no_nested(rt):
        if isinstance(n, ast.Compare) and isinstance(n.left, ast.Name) and n.left.id == 'bit' \
                and len(n.ops) == 1 and isinstance(n.ops[0], ast.Eq) and isinstance(n.comparators[0], ast.Constant):
            t_r.add(n.comparators[0].value)
    t_w = set()
    for n in walk_no_nested(wt):
        if isinstance(n, ast.Call) and callee(n) == 'output.write_byte' and n.args:
            a = n.args[0]
            if isinstance(a, ast.BinOp) and isinstance(a.op, ast.BitOr) and isinstance(a.right, ast.Constant) \
                    and 'delt' in src(a.left):
                t_w.add(a.right.value)
    ctx.floor('R10.4', 'reader wire-type arms', len(t_r), 8)
    ctx.floor('R10.4', 'writer wire-type arms', len(t_w), 6)
    for nib in sorted(t_r):
        if nib not in VALUE_NIBBLES:
            ctx.ob('R10.4', 'cencoding.read_thrift:nibble-%d-is-a-compact-protocol-type' % nib, False,
                   'reader accepts type nibble %d which the compact protocol does not define' % nib, m.loc(rt))
            continue
        ctx.ob('R10.4', 'cencoding:nibble-read-also-written:%d' % nib, nib in t_w,
               'reader accepts %s (nibble %d); writer can%s emit it: a value parsed with this type is '
               're-serialised with another' % (VALUE_NIBBLES[nib], nib, '' if nib in t_w else 'NOT'), m.loc(wt))
    for nib in sorted(t_w - t_r):
        ctx.ob('R10.4', 'cencoding:nibble-written-also-read:%d' % nib, False,
               'writer emits nibble %d which the reader has no arm for' % nib, m.loc(wt))
    # the i32/i64 side channel: reader must record ids of 32-bit ints
    rs = ' '.join(norm(s) for s in rt.body)
    ctx.ob('R10.4', 'cencoding.read_thrift:records-i32-ids', 'i32.append(id)' in rs and "out['i32list'] = i32" in rs,
           'the reader records which ids were 32-bit so that the writer can choose nibble 5 again', m.loc(rt))
    ws = ' '.join(norm(s) for s in wt.body)
    ctx.ob('R10.4', 'cencoding.write_thrift:consults-i32-ids', 'i in i32s' in ws and 'i32 == 1' in ws,
           'the writer selects nibble 5 from the i32/i32list side channel', m.loc(wt))
    # list element types
    rl, wl = m.func('read_list'), m.func('write_list')
    lr = set()
    for n in walk_no_nested(rl):
        if isinstance(n, ast.Compare) and isinstance(n.left, ast.Name) and n.left.id == 'typ':
            lr |= {c.value for c in n.comparators if isinstance(c, ast.Constant)}
    lr.add(12)  # the final else arm reads structs
    lw = set()
    for n in walk_no_nested(wl):
        if isinstance(n, ast.Call) and callee(n) == 'output.write_byte' and n.args:
            a = n.args[0]
            if isinstance(a, ast.BinOp) and isinstance(a.op, ast.BitOr):
                for side in (a.left, a.right):
                    if isinstance(side, ast.Constant) and side.value in (5, 6, 8, 12, 3, 4, 1, 2, 7):
                        lw.add(side.value)
    need = set()
    for s in idl.reachable(ROOTS):
        for f in idl.structs[s].values():
            if f.is_list:
                b = f.base
                need.add(12 if b in idl.structs else 5 if (b in idl.enums or b == 'i32') else
                         6 if b == 'i64' else 8 if b in ('string', 'binary') else
                         1 if b == 'bool' else -1)
    for nib in sorted(need):
        ctx.ob('R10.4', 'cencoding.write_list:element-type-%d-emittable' % nib, nib in lw,
               'IDL lists under the roots need element nibble %d; write_list emits %s' % (nib, sorted(lw)), m.loc(wl))
        ctx.ob('R10.4', 'cencoding.read_list:element-type-%d-accepted' % nib, nib in lr,
               'read_list accepts %s' % sorted(lr), m.loc(rl))

    # double: the reader's arm casts the first *byte* to double instead of loading through a double*
    dbl_fields = [(s_, f_.name) for s_ in sorted(idl.reachable(ROOTS)) for f_ in idl.structs[s_].values() if f_.base == 'double']
    rd_src = ' '.join(norm(x) for x in ast.walk(rt) if isinstance(x, ast.Assign) and '_cast(' in norm(x) and 'double' in norm(x))
    reads_through_pointer = "_cast('double*'" in rd_src
    ctx.ob('R10.4', 'cencoding.read_thrift:double-arm-loads-8-bytes-or-no-double-field-exists', reads_through_pointer or not dbl_fields,
           'reader double arm: `%s` (casts one byte; from_buffer of a compact double 1.5 gives 0.0). Harmless only while no field '
           'reachable from FileMetaData/PageHeader is a double: %s' % (rd_src[:80], dbl_fields or 'none today'), m.loc(rt))
    if not reads_through_pointer:
        ctx.note('R10.4 note: read_thrift decodes wire type 7 (double) as <double>byte, not through a double*; the Parquet IDL '
                 'declares no double field, so no metadata value is affected')

    from . import c11
    c11.r117(ctx, 'R10.4c')

    # R10.5 ----------------------------------------------------------------
    for s in sorted(idl.reachable(ROOTS)):
        for f in idl.structs[s].values():
            w = idl.int_width(s, f.name)
            if w in ('i8', 'i16') and not f.is_list:
                nib = 3 if w == 'i8' else 4
                ctx.ob('R10.5', 'cencoding:declared-%s-field-re-emittable:%s.%s' % (w, s, f.name), nib in t_w,
                       '%s.%s is declared %s; parsed values are ints and the writer has no %s arm, so '
                       'foreign metadata carrying it is re-serialised as i64' % (s, f.name, w, w), m.loc(wt))

    # R10.6 ----------------------------------------------------------------
    tb = m.func('ThriftObject.to_bytes')
    tbs = ' '.join(norm(s) for s in tb.body)
    detects = any(isinstance(n, ast.Raise) for n in walk_no_nested(tb)) or \
        any(isinstance(n, ast.While) for n in walk_no_nested(tb))
    ctx.ob('R10.6', 'cencoding.ThriftObject.to_bytes:overflow-detected-or-buffer-grown', detects,
           'to_bytes serialises into a buffer of heuristic fixed size (%s) and neither raises nor '
           'grows when it is full: NumpyIO.write_byte silently drops bytes => truncated output' % (
               '500000 floor' if '500000' in tbs else 'see source'), m.loc(tb))
    for fn in ('write_thrift', 'write_list'):
        f = m.func(fn)
        seen = {}
        for n in sorted((x for x in walk_no_nested(f) if isinstance(x, ast.stmt)),
                        key=lambda x: (x.lineno, x.col_offset)):
            store = None
            if isinstance(n, ast.Expr) and isinstance(n.value, ast.Call) and callee(n.value) == 'memcpy':
                store = n
            elif isinstance(n, ast.Assign) and isinstance(n.targets[0], ast.Subscript) and \
                    '_cast(' in src(n.targets[0]) and 'get_pointer' in src(n.targets[0]):
                store = n
            if store is None:
                continue
            txt = norm(store)
            seen[txt] = seen.get(txt, 0) + 1
            guarded = _capacity_guarded(f, store)
            ctx.ob('R10.6', 'cencoding.%s:raw-store-capacity-checked:%s#%d' % (fn, txt, seen[txt]), guarded,
                   'raw store into the serialisation buffer without a check against output.nbytes', m.loc(store))
    ctx.floor('R10.6', 'raw stores in serialiser',
              sum(1 for o in ctx.obligations if o['rule'] == 'R10.6' and 'raw-store' in o['key']), 5)

    # R10.7 ----------------------------------------------------------------
    de = m.func('dict_eq')
    des = ' '.join(norm(s) for s in de.body)
    ctx.ob('R10.7', 'cencoding.dict_eq:dict-arm-recurses', 'isinstance(d1[k], dict)' in des and 'dict_eq(d1[k], d2[k])' in des, '', m.loc(de))
    ctx.ob('R10.7', 'cencoding.dict_eq:list-arm-compares-length', 'len(d1[k]) != len(d2[k])' in des, '', m.loc(de))
    ctx.ob('R10.7', 'cencoding.dict_eq:list-arm-compares-elements',
           'zip(d1[k], d2[k])' in des and 'dict_eq(a, b)' in des and 'a != b' in des, '', m.loc(de))
    ctx.ob('R10.7', 'cencoding.dict_eq:iterates-union-of-keys', 'set(d1).union(d2)' in des or 'set(d1) | set(d2)' in des,
           'a key present on one side only must be compared', m.loc(de))
    ctx.ob('R10.7', 'cencoding.dict_eq:no-identity-comparison',
           not any(isinstance(n, (ast.Is, ast.IsNot)) and not _none_cmp(p) for p in ast.walk(de)
                   if isinstance(p, ast.Compare) for n in p.ops), '', m.loc(de))
    eq = m.func('ThriftObject.__eq__')
    ctx.ob('R10.7', 'cencoding.ThriftObject.__eq__:uses-dict_eq',
           any(callee(c) == 'dict_eq' for c in ast.walk(eq) if isinstance(c, ast.Call)), '', m.loc(eq))

    # R10.8 construction sites ---------------------------------------------
    thrift_sites.check_sites(ctx, 'R10.8')
    # compat shim: parquet_thrift.X(...) must be ThriftObject.from_fields(thrift_name=X)
    import os
    p = os.path.join(repo.pkg, 'parquet_thrift', '__init__.py')
    t = ast.parse(open(p).read())
    ok = False
    for n in ast.walk(t):
        if isinstance(n, ast.Call) and callee(n) == 'partial' and n.args and \
                dotted(n.args[0]) == 'ThriftObject.from_fields' and \
                any(k.arg == 'thrift_name' and isinstance(k.value, ast.Name) and k.value.id == 'name' for k in n.keywords):
            ok = True
    ctx.ob('R10.8', 'parquet_thrift.__getattr__:maps-X-to-from_fields-thrift_name-X', ok,
           'parquet_thrift.X(...) must build struct X', 'fastparquet/parquet_thrift/__init__.py:1')
    # shared with C16: the in-memory update of foreign/own metadata touches only the named entries
    from . import c16
    c16.r162(ctx, repo['writer'], repo['util'])
    c16.r166(ctx, repo['util'])
    c16.r161(ctx, repo['writer'])
    r1010(ctx)
    r1011(ctx)
    from . import c14 as _c14
    _c14.r146(ctx, 'R10.13')
    _c14.r148(ctx, 'R10.14')
    c16.r164(ctx, repo['writer'])
    from . import simple_append as _sa, c02 as _c02
    _sa.restore_rule(ctx, 'R10.12')
    _c02.r22(ctx)
    from . import c14
    c14.r145(ctx, 'R10.9')
    # statistics values are binary fields: what is stored there is shared with C04
    from . import c04
    c04.r42(ctx, repo['writer'])
    r1015(ctx)
    # what is re-serialised after a change of the row groups: a footer lists row groups whose pages were all written,
    # and its num_rows follows the list (shared with C02 / C09)
    _sa.commit_after_loop_rule(ctx, 'R10.16')
    _sa.commit_after_loop_multi_rule(ctx, 'R10.16')
    from . import meta_rules as _mr
    _mr.rowcount_rule(ctx, 'R10.16', only_modules={'api', 'writer', 'util'})
    from . import callsigs as _cs
    from . import findings3 as _f3
    _f3.thrift_reader_forms(ctx, 'R10.17', 'R12.6')
    _f3.logical_annotations(ctx, 'R10.18')      # the schema that is re-serialised on append carries what was filled in here
    from . import c02 as _c02
    _c02.r214(ctx, 'R10.19')      # the codec recorded in ColumnMetaData is the one the pages were compressed with
    _cs.who_may_call_rule(ctx, 'R10.CS16')
    _cs.general_rules(ctx, 'R10', ['writer.write_common_metadata', 'writer.make_part_file', 'util.update_custom_metadata',
                                    'writer.update_file_custom_metadata', 'util.metadata_from_many', 'writer.make_metadata',
                                    'writer.write_thrift', 'writer.consolidate_categories', 'writer.merge', 'api.ParquetFile.__setstate__', 'api.ParquetFile.__getstate__'])
    ctx.exhaustive = True


def _none_cmp(cmp):
    return any(isinstance(c, ast.Constant) and c.value is None for c in cmp.comparators)


def _capacity_guarded(func, stmt):
    """is stmt nested under an `if` whose test mentions the buffer capacity (nbytes)"""
    from ..cfg import CFG
    cfg = CFG(func)
    for st, branch in cfg.enclosing_tests(stmt):
        if isinstance(st, (ast.If, ast.While)) and 'nbytes' in src(st.test):
            return True
    return False


def r1010(ctx, rule='R10.10'):
    """list fields that the IDL declares *optional* are None on metadata parsed from files that lack them (most
    foreign files carry no key-value metadata): every loop or comprehension over such a field must be None-safe
    (`x or []`, or under a test of the same field).  Sites: all modules that handle parsed metadata"""
    idl = ctx.idl
    opt = {}
    for sname, fields in idl.structs.items():
        for fname, f in fields.items():
            if f.is_list and f.req != 'required':
                opt.setdefault(fname, []).append(sname)
    ctx.floor(rule, 'optional list fields in the IDL', len(opt), 4)
    n = 0
    safe_sites = []
    for mname in ('writer', 'util', 'api', 'core', 'schema'):
        m = ctx.repo[mname]
        for q, f in m.funcs.items():
            cfg = None
            sites = []
            for x in walk_no_nested(f):
                if isinstance(x, (ast.For, ast.comprehension)):
                    it = x.iter
                    if isinstance(it, ast.Attribute) and it.attr in opt:
                        sites.append((x, it))
                    elif isinstance(it, ast.BoolOp) and isinstance(it.op, ast.Or) and isinstance(it.values[0], ast.Attribute) \
                            and it.values[0].attr in opt:
                        safe_sites.append(it)
            for x, it in sites:
                n += 1
                if cfg is None:
                    cfg = CFG(f)
                base = norm(it)
                guarded = False
                # enclosing tests that mention the same field (truthiness / is not None)
                holder = x
                if isinstance(x, ast.comprehension):
                    for st in walk_no_nested(f):
                        if isinstance(st, ast.stmt) and any(y is x for y in ast.walk(st)) and st in cfg.stmt_node:
                            holder = st
                    # a conditional expression around the comprehension: `[...] if fmd.kv else []`
                    for y in walk_no_nested(f):
                        if isinstance(y, ast.IfExp) and any(z is x for z in ast.walk(y.body)) and base in norm(y.test):
                            guarded = True
                try:
                    tests = [norm(e.test) for e, fld in cfg.enclosing_tests(holder) if isinstance(e, (ast.If, ast.While)) and fld == 'body']
                except Exception:
                    tests = []
                if any(base in t for t in tests):
                    guarded = True
                # assigned a list earlier in the same function (normalisation `x.f = x.f or []`, or a fresh list)
                for st in walk_no_nested(f):
                    if isinstance(st, ast.Assign) and any(norm(t) == base for t in st.targets) and st.lineno < x.iter.lineno:
                        guarded = True
                ctx.ob(rule, '%s.%s:loop-over-optional-%s-is-None-safe:%s' % (mname, q, it.attr, base[:40]), guarded,
                       '`for ... in %s`: %s is optional in the IDL (%s) and None when the file lacks it' % (
                           base, it.attr, '/'.join(opt[it.attr])), m.loc(it))
    ctx.stat('%s bare loops over optional list fields' % rule, n)
    for it in safe_sites:
        ctx.ob(rule, 'loop-over-optional-%s-is-None-safe:%s' % (it.values[0].attr, norm(it)[:50]), True, 'guarded with `or`', '')
    ctx.floor(rule, 'loops over optional list fields (bare or guarded)', n + len(safe_sites), 5)


def r1011(ctx, rule='R10.11'):
    """KeyValue.value is optional in the IDL: the pre-write validation of key-value entries must let an absent value
    through (known finding K10d: it demands str/bytes)"""
    wr = ctx.repo['writer']
    f = wr.func('write_thrift')
    tests = [x for x in ast.walk(f) if isinstance(x, ast.If) and 'kv.value' in norm(x.test) and any(isinstance(y, ast.Raise) for y in x.body)]
    idl_opt = ctx.idl.structs['KeyValue']['value'].req != 'required'
    ok = bool(tests) and all('kv.value is not None' in norm(t.test) or 'kv.value is None' in norm(t.test) for t in tests)
    ctx.ob(rule, 'writer.write_thrift:value-less-key-value-entry-is-re-serialisable', ok or not idl_opt,
           'validation `%s` raises for an absent value although the IDL declares KeyValue.value optional' % (
               norm(tests[0].test) if tests else '?'), wr.loc(tests[0]) if tests else wr.loc(f))


def r1015(ctx, rule='R10.15'):
    """Building a handle normalises the *representation* of parsed metadata (bytes paths to text) and nothing else: a
    store into a parsed structure (`X[k] = E` with a field number k) in ParquetFile._parse_header / __setstate__
    replaces field k of X by a value read from field k of that same X.  Anything else changes what is re-serialised
    later (merge, append, metadata update) for footers written by somebody else."""
    api = ctx.repo['api']
    n = 0
    for q in ('ParquetFile._parse_header', 'ParquetFile.__setstate__'):
        f = api.func(q)
        defs = {}
        for st in walk_no_nested(f):
            if isinstance(st, ast.Assign) and len(st.targets) == 1 and isinstance(st.targets[0], ast.Name):
                defs.setdefault(st.targets[0].id, []).append(st.value)
            if isinstance(st, ast.For) and isinstance(st.target, ast.Name):
                defs.setdefault(st.target.id, []).append(ast.Call(func=ast.Name(id='each', ctx=ast.Load()), args=[st.iter], keywords=[]))

        def resolve(e, depth=0):
            """expression with single-definition locals substituted"""
            if isinstance(e, ast.Name):
                if len(defs.get(e.id, [])) == 1 and depth < 8:
                    return resolve(defs[e.id][0], depth + 1)
                return e.id
            if isinstance(e, ast.Attribute):
                return '%s.%s' % (resolve(e.value, depth), e.attr)
            if isinstance(e, ast.Subscript):
                return '%s[%s]' % (resolve(e.value, depth), norm(e.slice))
            if isinstance(e, ast.Call):
                return '%s(%s)' % (resolve(e.func, depth), ', '.join(resolve(a_, depth) for a_ in e.args))
            return norm(e)
        for st in walk_no_nested(f):
            if not (isinstance(st, ast.Assign) and len(st.targets) == 1 and isinstance(st.targets[0], ast.Subscript)
                    and isinstance(st.targets[0].slice, ast.Constant) and isinstance(st.targets[0].slice.value, int)):
                continue
            n += 1
            k = st.targets[0].slice.value
            base = resolve(st.targets[0].value)
            val = resolve(st.value)
            src_ok = ('%s.get(%d)' % (base, k)) in val or ('%s[%d]' % (base, k)) in val
            ctx.ob(rule, 'api.%s:parse-time-store-rewrites-a-field-from-itself:%s' % (q, norm(st.targets[0])), src_ok,
                   '`%s`: field %d of `%s` receives `%s`, which is not read from that field of that structure; other chunks\' / '
                   'row groups\' own values are overwritten and the change is written out by the next re-serialisation'
                   % (norm(st), k, base, val[:80]), api.loc(st))
    ctx.floor(rule, 'stores into parsed structures while a handle is built', n, 2)
