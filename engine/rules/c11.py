"""C11 - primitive codecs: output clamping, accumulator capacity for every width, header polarity."""
import ast

from ..model import AnalysisError, callee, norm, src, walk_no_nested, iter_child_stmts, kwarg, resolved
from .. import rawstores
from ..cfg import CFG, ReachingDefs
from ..bitloops import Skeleton, control_independent_of_payload

DECODERS = ['read_rle', 'read_bitpacked1', 'read_bitpacked', 'read_rle_bit_packed_hybrid', 'delta_read_bitpacked',
            'delta_binary_unpack']


def run(ctx):
    ctx.technique = ('reachability fixpoint over the extracted control skeleton of the bit loops (finite counter states per '
                     'width), guarded-store inventory of the decoders, literal agreement of run-header polarity')
    ctx.explanation = (
        'Decides two clauses whose truth is in the shape of the loops: (R11.1) "a decoder never produces more '
        'than the output can hold": every store of a decoder into its output is clamped by the remaining '
        'capacity (clamped count, capacity test, checked writer, or sized by construction); (R11.2) "every bit '
        'width of the domain is representable": for each width 1..32 (1..64 for delta miniblocks) no reachable '
        'state of the bit accumulator loop shifts payload bits out of the accumulator (or into its sign bit), '
        'shifts by >= the operand width, or drives a narrow counter out of its C type - exhaustive over widths; '
        '(R11.3) encoders and the hybrid decoder agree on run-header polarity and count scaling; (R11.4) every '
        'caller of the delta decoder passes longval exactly when its output is 64-bit; (R11.5) an RLE level run '
        'is header + value byte for both page versions.')
    ctx.not_decided = ('that each codec equals the specification function on its whole domain (varint, zigzag, RLE value '
                       'assembly, delta arithmetic are value-level)')
    ctx.trusted_base += ['engine/bitloops.py (control-skeleton extraction and C integer ranges)', 'engine/rawstores.py']
    ctx.assumptions.append('the .pyx sources are what is compiled (Cython is absent, the .so cannot be rebuilt or inspected)')
    m = ctx.repo['cencoding']
    r111(ctx, m)
    r112(ctx, m)
    r113(ctx, m)
    r114(ctx)
    r115(ctx)
    r116(ctx)
    r117(ctx)
    # the hybrid decoder is bypassed only for fastparquet's own single-run layout (shared with C03)
    from . import c03
    c03.r33(ctx, ctx.repo['core'], ctx.repo['api'])
    c03.r39(ctx, 'R11.8')
    r119(ctx)
    r1110(ctx)
    from . import c03 as _c03
    _c03.r319(ctx, ctx.repo['core'], 'R11.14')
    _c03.r311(ctx, ctx.repo['core'], 'R11.15')    # levels decoded into the output mask become null flags in place
    r1116(ctx)
    _c03.r32(ctx, ctx.repo['core'])               # each level stream decoded by the coding its page declares
    from . import c01 as _c01b
    _c01b.r125(ctx, 'R11.18')                      # which annotations convert in place (bit-packed booleans do not)
    from . import append_route as _ar11
    _ar11.mode_params_rule(ctx, 'R11.19')          # object columns cast to the fixed width / type they are stored as
    r1117(ctx)
    from . import c02 as _c02
    _c02.r211(ctx, 'R11.13')
    from . import findings2 as _f2
    _f2.delta_capacity(ctx, 'R11.12')
    from . import c04 as _c04
    _c04.r41(ctx, ctx.repo['writer'])
    from . import callsigs as _cs
    _cs.general_rules(ctx, 'R11', ['core', 'encoding', 'writer.make_definitions', 'writer.encode_dict', 'writer.encode_plain', 'writer.convert'])
    ctx.exhaustive = True


def r111(ctx, m):
    inv = rawstores.inventory(m) + rawstores.inventory(ctx.repo['speedups'])
    n = 0
    for s in inv:
        if s['func'] not in DECODERS + ['unpack_byte_array', 'NumpyIO.write_int', 'NumpyIO.write_long', 'NumpyIO.write_byte']:
            continue
        n += 1
        ctx.ob('R11.1', 'cencoding.%s:output-store-clamped:%s#%d' % (s['func'], s['text'][:50], s['ordinal']),
               s['class'] != 'UNGUARDED', '%s: %s' % (s['class'], s['why']),
               (m if s['func'] != 'unpack_byte_array' else ctx.repo['speedups']).loc(s['node']))
    ctx.floor('R11.1', 'decoder output stores', n, 10)
    # delta decoder writes only through the checked NumpyIO writers
    for fn in ('delta_read_bitpacked', 'delta_binary_unpack'):
        f = m.func(fn)
        w = [callee(c) for c in ast.walk(f) if isinstance(c, ast.Call) and (callee(c) or '').startswith('o.write')]
        ctx.ob('R11.1', 'cencoding.%s:writes-only-through-checked-writers' % fn,
               bool(w) and set(w) <= {'o.write_int', 'o.write_long'}, str(sorted(set(w))), m.loc(f))
    h = m.func('read_rle_bit_packed_hybrid')
    loops = [s for s in h.body if isinstance(s, ast.While)]
    ok = len(loops) == 1 and 'o.loc < o.nbytes' in norm(loops[0].test) and 'io_obj.loc - start < length' in norm(loops[0].test)
    ctx.ob('R11.1', 'cencoding.read_rle_bit_packed_hybrid:stops-when-input-or-output-is-exhausted', ok,
           norm(loops[0].test) if loops else '', m.loc(h))
    ub = ctx.repo['speedups'].func('unpack_byte_array')
    lp = [s for s in iter_child_stmts(ub.body) if isinstance(s, ast.While)]
    ctx.ob('R11.1', 'speedups.unpack_byte_array:bounded-by-count-and-input-length',
           len(lp) == 1 and norm(lp[0].test) == 'i < n and bytecount > 0', norm(lp[0].test) if lp else '', ctx.repo['speedups'].loc(ub))


LOOPS = [
    # function, loop kind, counters, width variable, accumulator, initial state, widths
    ('read_bitpacked', ast.While, ['left', 'right'], 'width', 'data', {'left': 8, 'right': 0}, range(1, 33)),
    ('delta_read_bitpacked', ast.While, ['left', 'right'], 'bitwidth', 'data', {'left': 0, 'right': 0}, range(1, 65)),
    ('encode_bitpacked', ast.For, ['bit'], 'width', 'bits', {'bit': 0}, range(1, 33)),
]


def r112(ctx, m):
    quick = ctx.tier == 'quick'
    for fn, kind, counters, wname, acc, init, widths in LOOPS:
        f = m.func(fn)
        loops = [s for s in f.body if isinstance(s, kind)]
        if not loops:
            raise AnalysisError('R11.2: bit loop of %s not found' % fn)
        lp = loops[-1]
        types = m.pyx.local_types.get(fn, {})
        for c in counters + [acc]:
            if c not in types:
                raise AnalysisError('R11.2: C type of %s.%s unknown' % (fn, c))
        payload = [acc, 'inptr', 'v', 'values', 'mask']
        bad = control_independent_of_payload(f, lp, counters, wname, payload)
        ctx.ob('R11.2', 'cencoding.%s:control-skeleton-independent-of-payload' % fn, not bad,
               'guards/updates reading payload values: %s' % (bad or 'none'), m.loc(lp))
        # initial state must be what the source says
        for c, v in init.items():
            src_init = [norm(s) for s in ast.walk(f) if isinstance(s, ast.Assign) and norm(s.targets[0]) == c]
            ctx.ob('R11.2', 'cencoding.%s:initial-%s' % (fn, c), any(x == '%s = %d' % (c, v) for x in src_init),
                   'declared initial value(s): %s' % src_init, m.loc(f), nontrivial=False)
        sk = Skeleton(f, lp, types, counters, wname, acc)
        states = 0
        for w in widths:
            issues, nst, trace = sk.explore(w, init)
            states += nst
            ctx.ob('R11.2', 'cencoding.%s:width-%d-representable' % (fn, w), not issues,
                   '%s accumulator %s %s, counters %s: %s' % (
                       fn, acc, types[acc], {c: types[c] for c in counters},
                       '; '.join(sorted(issues)) if issues else 'no reachable state loses bits (%d counter states)' % nst),
                   m.loc(lp))
        ctx.stat('R11.2 %s counter states explored' % fn, states)


def r113(ctx, m):
    h = m.func('read_rle_bit_packed_hybrid')
    s = src(h)
    ok = 'if header & 1 == 0' in s and 'read_rle(io_obj, header, width, o, itemsize)' in s and 'read_bitpacked(io_obj, header, width, o, itemsize)' in s
    ifs = [x for x in ast.walk(h) if isinstance(x, ast.If) and 'header & 1' in norm(x.test)]
    if ifs:
        ok = ok and 'read_rle' in src(ifs[0].body[0]) and 'read_bitpacked' in src(ifs[0].orelse[0])
    ctx.ob('R11.3', 'cencoding.read_rle_bit_packed_hybrid:low-bit-0-is-RLE-1-is-bit-packed', ok, '', m.loc(h))
    rr = m.func('read_rle')
    ctx.ob('R11.3', 'cencoding.read_rle:count-is-header>>1', any(norm(x) == 'count = header >> 1' for x in rr.body), '', m.loc(rr))
    rb = m.func('read_bitpacked')
    ctx.ob('R11.3', 'cencoding.read_bitpacked:count-is-(header>>1)*8', any(norm(x) == 'count = (header >> 1) * 8' for x in rb.body), '', m.loc(rb))
    eb = m.func('encode_bitpacked')
    ctx.ob('R11.3', 'cencoding.encode_bitpacked:header-is-groups<<1|1',
           'bit_packed_count = (values.shape[0] + 7) // 8' in src(eb) and 'encode_unsigned_varint(bit_packed_count << 1 | 1, o)' in src(eb), '', m.loc(eb))
    wr = ctx.repo['writer']
    ed = wr.func('encode_dict')
    ctx.ob('R11.3', 'writer.encode_dict:header-is-groups<<1|1',
           'bit_packed_count = (len(data) + 7) // 8' in src(ed) and 'cencoding.encode_unsigned_varint(bit_packed_count << 1 | 1, o)' in src(ed)
           and 'o.write_byte(width)' in src(ed) and 'width = data.values.dtype.itemsize * 8' in src(ed), '', wr.loc(ed))
    md = wr.func('make_definitions')
    s = src(md)
    # (the header expression with single-assignment temporaries written out: `l = len(data); f(l << 1)` = `f(len(data) << 1)`)
    hdrs = [resolved(md, c.args[0]) for c in ast.walk(md) if isinstance(c, ast.Call) and (callee(c) or '').endswith('encode_unsigned_varint') and c.args]
    ctx.ob('R11.3', 'writer.make_definitions:RLE-run-header-is-count<<1', 'len(data) << 1' in hdrs, 'headers written: %s' % hdrs, wr.loc(md))
    ctx.ob('R11.3', 'writer.make_definitions:bit-packed-run-header-is-bytes<<1|1',
           'len(out) << 1 | 1' in hdrs, 'one byte of packed booleans is one group of 8; headers written: %s' % hdrs, wr.loc(md))
    ctx.ob('R11.3', 'writer.make_definitions:v1-level-block-has-4-byte-length-prefix',
           "struct.pack('<I', temp.tell()) + temp.so_far()" in s and "struct.pack('<I', len(head) + len(out)) + head + out" in s, '', wr.loc(md))


def r114(ctx):
    core = ctx.repo['core']
    calls = []
    for q in ('read_data_page', 'read_data_page_v2'):
        f = core.func(q)
        for c in ast.walk(f):
            if isinstance(c, ast.Call) and callee(c) == 'encoding.delta_binary_unpack':
                calls.append((q, f, c))
    ctx.floor('R11.4', 'delta decoder call sites', len(calls), 3)
    for q, f, c in calls:
        lv = kwarg(c, 'longval', 2)
        ok = lv is not None
        d = 'longval not passed (decoder then writes 32-bit values)'
        if ok:
            t = norm(lv)
            defs = [norm(s.value) for s in iter_child_stmts(f.body) if isinstance(s, ast.Assign) and norm(s.targets[0]) == t]
            cond = defs[0] if defs else t
            ok = cond in ('metadata.type == 2', 'cmd.type == parquet_thrift.Type.INT64', 'metadata.type == parquet_thrift.Type.INT64', 'cmd.type == 2')
            d = 'longval=%s' % cond
        ctx.ob('R11.4', 'core.%s:delta-decoder-told-the-column-width:%s' % (q, norm(c.args[1])[:40]), ok, d, core.loc(c))
    # the output buffer width follows the same condition
    f = core.func('read_data_page')
    v = [norm(s.value) for s in iter_child_stmts(f.body) if isinstance(s, ast.Assign) and 'np.int64 if metadata.type == 2 else np.int32' in norm(s.value)]
    ctx.ob('R11.4', 'core.read_data_page:delta-output-width-follows-physical-type', len(v) == 1, str(v), core.loc(f))
    f2 = core.func('read_data_page_v2')
    v = [norm(s.value) for s in iter_child_stmts(f2.body) if isinstance(s, ast.Assign) and norm(s.targets[0]) == 'out' and 'int64' in norm(s.value)]
    ctx.ob('R11.4', 'core.read_data_page_v2:delta-scratch-width-follows-physical-type',
           any("'int64' if longval else 'int32'" in x for x in v), str(v), core.loc(f2))


def r116(ctx):
    core = ctx.repo['core']
    f = core.func('read_data_page')
    br = [s for s in iter_child_stmts(f.body) if isinstance(s, ast.If) and norm(s.test) == 'bit_width > 8']
    ok = len(br) == 1
    d = ''
    if ok:
        wide = [norm(s.value) for s in br[0].body if isinstance(s, ast.Assign) and norm(s.targets[0]) == 'values']
        narrow = [norm(s.value) for s in br[0].orelse if isinstance(s, ast.Assign) and norm(s.targets[0]) == 'values']
        d = 'width>8: %s | width<=8: %s' % (wide, narrow)
        ok = len(wide) == 1 and 'dtype=np.int32' in wide[0] and len(narrow) == 1 and 'dtype=np.uint8' in narrow[0]
        calls = [c for c in ast.walk(br[0]) if isinstance(c, ast.Call) and callee(c) == 'encoding.read_rle_bit_packed_hybrid']
        items = sorted(norm(k.value) for c in calls for k in c.keywords if k.arg == 'itemsize')
        ok = ok and items == ['1', '4']
    ctx.ob('R11.6', 'core.read_data_page:index-buffer-unsigned-8-bit-or-32-bit-with-matching-itemsize', ok,
           'decoded dictionary indices up to 255 must not become negative: %s' % d, core.loc(br[0]) if br else core.loc(f))


def r115(ctx):
    wr = ctx.repo['writer']
    md = wr.func('make_definitions')
    arm = [s for s in md.body if isinstance(s, ast.If) and norm(s.test) == 'no_nulls']
    ok = len(arm) == 1
    d = ''
    if ok:
        body = arm[0].body
        texts = [norm(s) for s in body]
        d = str(texts[:4])
        i_hdr = [i for i, s_ in enumerate(body) if isinstance(s_, ast.Expr) and isinstance(s_.value, ast.Call) and s_.value.args
                 and (callee(s_.value) or '').endswith('encode_unsigned_varint') and resolved(md, s_.value.args[0]) == 'len(data) << 1']
        i_val = [i for i, t in enumerate(texts) if t == 'temp.write_byte(1)']
        i_ver = [i for i, s in enumerate(body) if isinstance(s, ast.If) and 'datapage_version' in norm(s.test)]
        ok = bool(i_hdr and i_val and i_ver) and i_hdr[0] < i_val[0] < i_ver[0]
    ctx.ob('R11.5', 'writer.make_definitions:RLE-level-run-is-header-plus-value-byte-for-both-page-versions', ok,
           'the run value (1 = defined) must be written before the v1/v2 framing split: %s' % d, wr.loc(md))


def r117(ctx, rule='R11.7'):
    """encoder/decoder duality of the primitive integer codecs (spec constants)"""
    m = ctx.repo['cencoding']
    ev = m.func('encode_unsigned_varint')
    s = src(ev)
    ctx.ob(rule, 'cencoding.encode_unsigned_varint:7-bit-groups-with-continuation-bit',
           'while x > 127' in s and 'o.write_byte(x & 127 | 128)' in s and 'x >>= 7' in s and norm(ev.body[-1]) == 'o.write_byte(x)',
           'low 7 bits first, 0x80 set on all but the last byte', m.loc(ev))
    rv = m.func('read_unsigned_var_int')
    s = src(rv)
    ctx.ob(rule, 'cencoding.read_unsigned_var_int:dual-of-the-encoder',
           "result |= _cast('int64_t', byte & 127) << shift" in s and 'if byte & 128 == 0' in s and 'shift += 7' in s,
           'accumulates 7-bit groups, stops at the first byte without 0x80', m.loc(rv))
    for fn, want in (('zigzag_long', 'return n >> 1 ^ -(n & 1)'), ('zigzag_int', 'return n >> 1 ^ -(n & 1)'),
                     ('long_zigzag', 'return n << 1 ^ n >> 63')):
        f = m.func(fn)
        ctx.ob(rule, 'cencoding.%s:zigzag-formula' % fn, norm(f.body[-1]) == want, norm(f.body[-1]), m.loc(f))
    wl, rl = m.func('write_list'), m.func('read_list')
    thr = [norm(x.test) for x in ast.walk(wl) if isinstance(x, ast.If) and norm(x.test).startswith('l >')]
    ctx.ob(rule, 'cencoding.write_list:short-form-holds-sizes-up-to-14', len(thr) == 4 and set(thr) == {'l > 14'},
           'list headers: size nibble 0..14, 15 announces a varint size: tests %s' % sorted(set(thr)), m.loc(wl))
    longs = [norm(c.args[0]) for c in ast.walk(wl) if isinstance(c, ast.Call) and callee(c) == 'output.write_byte' and '240' in norm(c.args[0])]
    ctx.ob(rule, 'cencoding.write_list:long-form-header-is-0xF0-or-type', sorted(longs) == ['12 | 240', '5 | 240', '8 | 240', '8 | 240'],
           str(longs), m.loc(wl))
    s = src(rl)
    ctx.ob(rule, 'cencoding.read_list:size-and-type-nibbles-read-as-written',
           'if byte >= 240' in s and 'size = (byte & 240) >> 4' in s and 'typ = byte & 15' in s and 'size = read_unsigned_var_int(data)' in s,
           '', m.loc(rl))
    wt, rt = m.func('write_thrift'), m.func('read_thrift')
    s = src(rt)
    ctx.ob(rule, 'cencoding.read_thrift:field-header-is-delta-high-nibble-type-low-nibble',
           'id += (byte & 240) >> 4' in s and 'bit = byte & 15' in s and 'if byte == 0' in s, '', m.loc(rt))
    s = src(wt)
    ctx.ob(rule, 'cencoding.write_thrift:field-delta-from-previous-id-and-stop-byte',
           'delt = i - prev' in s and 'prev = i' in s and norm(wt.body[-1]) == 'output.write_byte(0)', '', m.loc(wt))


def r119(ctx, rule='R11.9'):
    """the byte limit handed to the hybrid decoder is a length of the very buffer it decodes: 0 (length prefix
    in the stream), `io.len - io.tell()` of the same stream, or the length the stream's buffer was read /
    decompressed with.  A value count or the length of a different buffer truncates or overruns the decode."""
    core = ctx.repo['core']
    n = 0
    for q, f in core.funcs.items():
        calls = [c for c in walk_no_nested(f) if isinstance(c, ast.Call) and (callee(c) or '').endswith('read_rle_bit_packed_hybrid')]
        if not calls:
            continue
        cfg = CFG(f)
        rd = ReachingDefs(cfg)

        def stmt_node(node):
            for nd in cfg.nodes:
                if nd.stmt is not None and any(x is node for x in ast.walk(nd.stmt)) and not isinstance(nd.stmt, (ast.If, ast.For, ast.While, ast.Try, ast.With)):
                    return nd.id
            for nd in cfg.nodes:
                if nd.stmt is not None and any(x is node for x in ast.walk(getattr(nd.stmt, 'test', None) or getattr(nd.stmt, 'iter', None) or ast.Pass())):
                    return nd.id
            return None

        def lengths_of(name, at, depth=0):
            """byte lengths with which the buffer behind `name` (as it reaches node `at`) was produced"""
            out = set()
            if depth > 4 or at is None:
                return out
            for d in rd.defs_reaching(at, name):
                st = cfg.nodes[d].stmt
                if not isinstance(st, ast.Assign):
                    continue
                v = st.value
                top = [c for c in ast.walk(v) if isinstance(c, ast.Call)]
                done = False
                for c in top:
                    cn = callee(c) or ''
                    if cn.endswith('decompress_data') and len(c.args) >= 2:
                        out.add(norm(c.args[1])); done = True
                        break
                if done:
                    continue
                for c in top:
                    cn = callee(c) or ''
                    if cn.endswith('.read') and len(c.args) == 1:
                        out.add(norm(c.args[0])); done = True
                if done:
                    continue
                for x in ast.walk(v):
                    if isinstance(x, ast.Name) and x.id != name and isinstance(x.ctx, ast.Load) and x.id not in ('encoding', 'np'):
                        out |= lengths_of(x.id, d, depth + 1)
            return out
        for c in calls:
            n += 1
            io = c.args[0] if c.args else kwarg(c, 'io_obj', 0)
            ln = kwarg(c, 'length', 2)
            t = norm(ln) if ln is not None else '?'
            ok = False
            why = ''
            if isinstance(ln, ast.Constant) and ln.value in (0, False):
                ok, why = True, 'length prefix read from the stream'
            elif isinstance(io, ast.Name) and t in ('%s.len - %s.tell()' % (io.id, io.id),):
                ok, why = True, 'rest of the same stream'
            elif isinstance(io, ast.Name):
                ls = lengths_of(io.id, stmt_node(c))
                ok, why = t in ls, 'buffer of %s produced with length(s) %s' % (io.id, sorted(ls))
            ctx.ob(rule, 'core.%s:hybrid-decode-limit-is-a-length-of-its-own-buffer:%s' % (q, t[:50]), ok,
                   'read_rle_bit_packed_hybrid(%s, ..., %s, ...): %s' % (norm(io) if io is not None else '?', t, why), core.loc(c))
    ctx.floor(rule, 'hybrid decode call sites in core', n, 7)


def r1110(ctx, rule='R11.10'):
    """NumpyIO.read(n) is called with page and level sizes taken from file headers, and 0 is a legitimate size (empty
    dictionary, all-null v2 page, no levels).  The read-everything default must therefore be recognised by a
    negative count only; if 0 also means "everything" an empty page swallows the rest of the column chunk"""
    m = ctx.repo['cencoding']
    f = m.func('NumpyIO.read')
    arg = f.args.args[1].arg
    subst = [st for st in f.body if isinstance(st, ast.If) and any(
        isinstance(x, ast.Assign) and norm(x.targets[0]) == arg for x in st.body)]
    ok = False
    d = 'no default substitution found'
    if len(subst) == 1:
        t = subst[0].test
        d = '`if %s:` substitutes the remaining length' % norm(t)
        if isinstance(t, ast.Compare) and len(t.ops) == 1 and norm(t.left) == arg and isinstance(t.comparators[0], (ast.Constant, ast.UnaryOp)):
            try:
                c = ast.literal_eval(t.comparators[0])
                ok = (isinstance(t.ops[0], ast.Lt) and c <= 0) or (isinstance(t.ops[0], ast.LtE) and c < 0) or \
                     (isinstance(t.ops[0], ast.Eq) and c < 0)
            except Exception:
                ok = False
    ctx.ob(rule, 'cencoding.NumpyIO.read:zero-length-read-is-empty', ok, d, m.loc(f))
    core = ctx.repo['core']
    sites = []
    for q, g in core.funcs.items():
        for c in walk_no_nested(g):
            if isinstance(c, ast.Call) and isinstance(c.func, ast.Attribute) and c.func.attr == 'read' and len(c.args) == 1 \
                    and not isinstance(c.args[0], ast.Constant):
                sites.append('%s: read(%s)' % (q, norm(c.args[0])[:50]))
    ctx.stat('%s header-sized reads in core (0 is a legal size)' % rule, sites)
    ctx.floor(rule, 'header-sized reads in core', len(sites), 8)


def _varint_bytes_bound(f):
    """how many run-header bytes beyond the first does the function account for? None = as many as needed (a loop that
    divides until nothing is left), an int = a fixed enumeration of 7-bit shifts"""
    for x in ast.walk(f):
        if isinstance(x, ast.While):
            t = norm(x.test)
            divs = [a for a in ast.walk(x) if isinstance(a, ast.AugAssign) and isinstance(a.op, (ast.FloorDiv, ast.RShift)) and norm(a.target) == t]
            if divs and ((isinstance(divs[0].op, ast.FloorDiv) and norm(divs[0].value) == '128') or (isinstance(divs[0].op, ast.RShift) and norm(divs[0].value) == '7')):
                return 'loop', None
    for x in ast.walk(f):
        if isinstance(x, ast.Call) and norm(x.func) == 'range' and len(x.args) == 3 and all(isinstance(a, ast.Constant) for a in x.args):
            lo, hi, step = (a.value for a in x.args)
            if step == 7:
                return 'range', len(range(lo, hi, step))
    return None, None


def r1116(ctx, rule='R11.16'):
    """core.skip_definition_bytes steps over the level block make_definitions writes for an all-defined page: 4 bytes of
    length, the run header - a varint holding count << 1, i.e. one byte plus one more for every further 7 bits - and one
    byte of value.  The count is a 32-bit quantity (header up to 5 bytes): the extra bytes are counted by a loop that
    runs until nothing is left, or by an enumeration of at least four 7-bit shifts; the fixed part is 6."""
    core = ctx.repo['core']
    f = core.func('skip_definition_bytes')
    kind, k = _varint_bytes_bound(f)
    ok = kind == 'loop' or (kind == 'range' and k >= 4)
    ctx.ob(rule, 'core.skip_definition_bytes:run-header-of-every-length-stepped-over', ok,
           'extra header bytes accounted for: %s' % ('as many as needed' if kind == 'loop' else k if kind else 'form not recognised'), core.loc(f))
    fixed = [c for c in ast.walk(f) if isinstance(c, ast.Call) and isinstance(c.func, ast.Attribute) and c.func.attr == 'seek' and c.args
             and any(isinstance(x, ast.Constant) and x.value == 6 for x in ast.walk(c.args[0]))]
    ctx.ob(rule, 'core.skip_definition_bytes:fixed-part-is-length-word-first-header-byte-and-value', len(fixed) == 1, '', core.loc(f))
    if kind == 'loop':
        # the loop starts from the count with the first header byte's 6 payload bits taken off (count << 1 >> 7 = count // 64)
        init = [a for a in ast.walk(f) if isinstance(a, ast.Assign) and isinstance(a.value, ast.BinOp) and isinstance(a.value.op, (ast.FloorDiv, ast.RShift))]
        ok2 = any((isinstance(a.value.op, ast.FloorDiv) and norm(a.value.right) == '64') or (isinstance(a.value.op, ast.RShift) and norm(a.value.right) == '6')
                  for a in init)
        ctx.ob(rule, 'core.skip_definition_bytes:first-header-byte-carries-six-bits-of-the-count', ok2,
               'the run header holds count << 1: its first byte carries 6 bits of the count', core.loc(f))


def r1117(ctx, rule='R11.17'):
    """a number of bytes derived from a number of bits (or of one-bit values) rounds up: (n + 7) // 8.  `n // 8 + 1` asks
    for a byte too many whenever n is a multiple of 8 (and for one byte when n is 0) - a buffer that holds exactly the
    values is then refused; `n // 8` alone drops the last partial byte"""
    n = 0
    for mn in ('encoding', 'core', 'writer'):
        m = ctx.repo[mn]
        for q, f in sorted(m.funcs.items()):
            for c in walk_no_nested(f):
                if not (isinstance(c, ast.Call) and (callee(c) or '').split('.')[-1] in ('frombuffer', 'empty', 'zeros', 'read')):
                    continue
                exprs = list(c.args) + [k.value for k in c.keywords if k.arg in ('count', 'shape')]
                for e in exprs:
                    for x in ast.walk(e):
                        if isinstance(x, ast.BinOp) and isinstance(x.op, ast.FloorDiv) and norm(x.right) == '8':
                            if isinstance(x.left, ast.BinOp) and isinstance(x.left.op, ast.Mult):
                                continue    # (count * width // 8: a whole number of bytes by construction of the run)
                            n += 1
                            up = isinstance(x.left, ast.BinOp) and isinstance(x.left.op, ast.Add) and '7' in (norm(x.left.left), norm(x.left.right))
                            ctx.ob(rule, '%s.%s:bytes-for-bits-round-up:%s' % (mn, q, norm(x)[:30]), up,
                                   '`%s` in `%s`' % (norm(x), norm(c)[:70]), m.loc(c))
    ctx.note('%s: byte counts derived from bit counts in buffer sizes: %d' % (rule, n))
