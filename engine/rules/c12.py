"""C12 - native code stays inside its buffers: a local, checkable discipline on the .pyx sources.

The property's own observation point is a sanitised execution (another family).  Decided here:
every raw *store* of the two Cython modules is covered by a capacity argument visible in the
same function, shift counts stay below the operand width on reachable states, narrow counters
stay in range, and every value stored in a 32-bit page-header field went through check_32."""
import ast

from ..model import AnalysisError, callee, norm, src, walk_no_nested, iter_child_stmts, kwarg
from .. import rawstores
from . import c11

# stores that are in range only for well-formed input (the property's domain); one reason each
ASSUMED = {
    ('_assemble_objects', 'assign[i] = None if have_null else part'):
        'row index i is bounded by the number of rows announced by the page headers; the caller allocates assign '
        'from the row-group row count (well-formed input)',
}


def run(ctx):
    ctx.technique = 'guarded-store inventory over the Cython front end, reachability over bit-loop control skeletons, who-must-call rule for check_32'
    ctx.explanation = (
        'Decides, for cencoding.pyx and speedups.pyx (compiled with boundscheck/wraparound/overflowcheck off - '
        'read from the directive table): (R12.1) every raw store through a C pointer, memcpy destination or '
        'unchecked array item is GUARDED by a capacity test/clamp, SIZED by construction, behind a checked '
        'NumpyIO writer, or listed with its well-formedness assumption; unguarded ones are known findings; '
        '(R12.2) on every reachable state of the bit loops shift counts are below the operand width and narrow '
        'counters stay inside their C type (shared with C11); (R12.3) every value stored in an i32 page-header '
        'field of the writer goes through check_32, which raises for values that do not fit.')
    ctx.not_decided = ('absence of undefined behaviour in the compiled artefact (what the C compiler makes of the code), '
                       'and raw *loads* from input buffers on malformed input (outside the property\'s domain)')
    ctx.assumptions += ['raw loads from input buffers are bounded by the format for well-formed input',
                        'read_unsigned_var_int: shift grows by 7 per byte without bound - safe for varints of <= 10 bytes',
                        'the .pyx sources are what is compiled (Cython absent)']
    ctx.trusted_base += ['engine/rawstores.py', 'engine/bitloops.py']
    for mn in ('cencoding', 'speedups'):
        m = ctx.repo[mn]
        d = m.pyx.directives
        ctx.ob('R12.1', '%s:directives-read' % mn, d.get('boundscheck') == 'False' and d.get('wraparound') == 'False',
               'bounds checks are off (%s): the discipline below is what keeps stores in range' % d, 'fastparquet/%s.pyx:1' % mn,
               nontrivial=False)
        inv = rawstores.inventory(m)
        ctx.stat('R12.1 raw stores in %s' % mn, len(inv))
        for s in inv:
            cls = s['class']
            why = s['why']
            if cls == 'UNGUARDED' and (s['func'], s['text']) in ASSUMED:
                cls, why = 'ASSUMED-WELL-FORMED', ASSUMED[(s['func'], s['text'])]
            ctx.ob('R12.1', '%s.%s:raw-store-covered:%s#%d' % (mn, s['func'], s['text'][:70], s['ordinal']),
                   cls != 'UNGUARDED', '%s: %s' % (cls, why), m.loc(s['node']))
    ctx.floor('R12.1', 'raw stores in cencoding', ctx.stats.get('R12.1 raw stores in cencoding', 0), 18)
    ctx.floor('R12.1', 'raw stores in speedups', ctx.stats.get('R12.1 raw stores in speedups', 0), 5)
    # the checked writers really check before storing and never move the cursor past the end
    m = ctx.repo['cencoding']
    for q, need in (('NumpyIO.write_byte', 'self.loc >= self.nbytes'), ('NumpyIO.write_int', 'self.nbytes - self.loc < 4'),
                    ('NumpyIO.write_long', 'self.nbytes - self.loc < 8'), ('NumpyIO.read_int', 'self.nbytes - self.loc < 4'),
                    ('NumpyIO.read_long', 'self.nbytes - self.loc < 8')):
        f = m.func(q)
        first = [s for s in f.body if isinstance(s, ast.If)]
        ok = bool(first) and norm(first[0].test) == need and isinstance(first[0].body[-1], ast.Return)
        ctx.ob('R12.1', 'cencoding.%s:capacity-test-before-access' % q, ok, need, m.loc(f))
    sk = m.func('NumpyIO.seek')
    ctx.ob('R12.1', 'cencoding.NumpyIO.seek:cursor-clamped-to-the-buffer', 'if self.loc > self.nbytes' in src(sk) and 'self.loc = self.nbytes' in src(sk), '', m.loc(sk))
    # R12.2
    c11.r112(ctx, m)
    vi = m.func('read_unsigned_var_int')
    ctx.note('R12.2 note: read_unsigned_var_int shifts by `shift` (int32_t, += 7 per byte) with no bound; defined for '
             'the <= 10-byte varints of well-formed input')
    # R12.3 who-must-call check_32
    wr = ctx.repo['writer']
    wc = wr.func('write_column')
    idl = ctx.idl
    n = 0
    for c in ast.walk(wc):
        if isinstance(c, ast.Call) and (callee(c) or '').startswith('parquet_thrift.') and callee(c).split('.')[1] in (
                'PageHeader', 'DataPageHeader', 'DataPageHeaderV2', 'DictionaryPageHeader'):
            struct = callee(c).split('.')[1]
            for k in c.keywords:
                if k.arg in ('i32',) or k.arg is None:
                    continue
                if idl.int_width(struct, k.arg) == 'i32' and not (isinstance(k.value, ast.Constant)):
                    n += 1
                    wrapped = isinstance(k.value, ast.Call) and callee(k.value) == 'check_32'
                    lenlike = isinstance(k.value, ast.Call) and callee(k.value) == 'len'
                    ctx.ob('R12.3', 'writer.write_column:%s.%s-goes-through-check_32' % (struct, k.arg),
                           wrapped or (lenlike and k.arg == 'definition_levels_byte_length'),
                           '%s=%s (a value >= 2**31 must end in an exception, not in a truncated 32-bit field)' % (k.arg, norm(k.value)[:50]),
                           wr.loc(c))
    ctx.floor('R12.3', 'i32 page-header fields with computed values', n, 8)
    ck = wr.func('check_32')
    tests = [x for x in ast.walk(ck) if isinstance(x, ast.If) and any(isinstance(r, ast.Raise) for r in x.body)]
    okb = False
    if len(tests) == 1 and isinstance(tests[0].test, ast.Compare) and len(tests[0].test.ops) == 1:
        t = tests[0].test
        try:
            bound = eval(compile(ast.Expression(t.comparators[0]), '<bound>', 'eval'), {'__builtins__': {}})
        except Exception:
            bound = None
        okb = (isinstance(t.ops[0], ast.GtE) and bound == 2 ** 31) or (isinstance(t.ops[0], ast.Gt) and bound == 2 ** 31 - 1)
    ctx.ob('R12.3', 'writer.check_32:raises-for-values-that-do-not-fit', okb and 'raise OverflowError' in src(ck),
           'the largest i32 is 2**31 - 1: `%s`' % (norm(tests[0].test) if tests else '?'), wr.loc(ck))
    from . import findings2 as _f2
    _f2.delta_capacity(ctx, 'R12.4')
    r125(ctx)
    ctx.exhaustive = True
    from . import findings3 as _f3
    _f3.thrift_reader_forms(ctx, None, 'R12.6')



def r125(ctx, rule='R12.5'):
    """cencoding.write_thrift: a value of a type none of the isinstance arms knows must be refused, not cast to dict
    (numpy integers are not `int`) - known finding K12d"""
    import ast as _ast
    from ..model import norm as _norm
    m = ctx.repo['cencoding']
    f = m.func('write_thrift')
    loops = [x for x in _ast.walk(f) if isinstance(x, _ast.For)]
    ok = False
    for lp in loops:
        chain = [st for st in lp.body if isinstance(st, _ast.If) and 'isinstance(val, bool)' in _norm(st.test)]
        if chain:
            node = chain[0]
            while node.orelse and len(node.orelse) == 1 and isinstance(node.orelse[0], _ast.If):
                node = node.orelse[0]
            last = node.orelse
            ok = any(isinstance(x, _ast.Raise) for st in last for x in _ast.walk(st))
    ctx.ob(rule, 'cencoding.write_thrift:unknown-value-type-refused', ok,
           'the final else of the type dispatch does `write_thrift(<dict>val, output)` for anything that is not bool/int/float/'
           'bytes/str/list/ThriftObject', m.loc(f))
