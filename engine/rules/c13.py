"""C13 - row-level filtering is exact (combinator discipline and completeness).

R13.1 kind discipline of the evaluator: conditions are AND-ed into a group accumulator
      (initialised all-true, only `&=`), groups are OR-ed into the result (initialised
      all-false, only `|=` of a group), a flat list is wrapped once.
R13.2 no condition silently skipped: the operator chain covers the grammar; a `continue`
      keyed on the column is reported (partition conditions skipped => known finding K13).
R13.3 sibling evaluators (to_pandas / count / read_row_group_file) build the first-pass
      frame and the mask from the same arguments.
R13.4 mask bookkeeping: per-row-group slices by cumulative rg.num_rows over the same pruned
      list; caller mask length validated.
R13.5 mask cursor inside the v1 page loop advances by the rows of the page.
"""
import ast

from ..model import AnalysisError, callee, norm, src, walk_no_nested, iter_child_stmts, module_table, kwarg, before, resolved
from ..cfg import CFG
from ..symwalk import Walker, State, Lin, Obj

GRAMMAR = ['==', '=', '!=', '<', '<=', '>', '>=', 'in', 'not in']


def run(ctx):
    ctx.technique = 'kind discipline of accumulators (ast), operator-chain exhaustiveness, sibling call-site agreement, value-numbered cursor advance'
    ctx.explanation = (
        'Decides: the predicate evaluator combines conditions by AND within a group and groups by OR, wraps a '
        'flat list once, has an arm for every operator of the grammar with the right polarity and operand '
        'order, skips no condition (the skip of partition-column conditions is known finding K13); the row '
        'count query, the read and the per-row-group read build the first-pass frame and the mask from the '
        'same arguments; masks are sliced by cumulative row-group sizes over the same pruned list; the mask '
        'cursor of the v1 page loop advances by the number of rows of each page.')
    ctx.not_decided = ('index arithmetic of mask application on runtime arrays inside read_data_page_v2 and the '
                       'null-scatter branches of read_col; alignment of the requested output columns')
    m = ctx.repo['api']
    r131_132(ctx, m)
    r133(ctx, m)
    r134(ctx, m)
    r135(ctx)
    r138(ctx)
    from . import c08 as _c08b
    _c08b.r87(ctx, ctx.repo['util'], 'R13.12')   # a filter constant and a directory text are typed by the same table
    from . import c04 as _c04
    _c04.r41(ctx, ctx.repo['writer'])
    from . import findings2 as _f2
    _f2.row_filter_nulls(ctx, 'R13.10')
    # row-level filtering runs on the row groups that survive pruning: the pruning rules are shared with C05
    from . import c05
    api = ctx.repo['api']
    c05.r52(ctx, api, api.func('filter_val'), api.func('filter_in'), api.func('filter_not_in'), api.func('_handle_np_array'))
    c05.r54(ctx, api)
    c05.r55(ctx, api)
    c05.r57(ctx, api, 'R13.7')
    c05.r59(ctx, api, 'R13.9')
    from . import c03
    c03.r313(ctx, ctx.repo['core'], 'R13.6')
    from . import callsigs as _cs
    from . import findings3 as _f3
    _f3.drill_conditions(ctx, 'R13.11')
    from . import c08 as _c08b
    _c08b.r83(ctx, ctx.repo['writer'], ctx.repo['api'], ctx.repo['util'], ctx.repo['core'])    # the pattern that finds the pairs to prune on
    _cs.general_rules(ctx, 'R13', ['api.ParquetFile.to_pandas', 'api.ParquetFile.count', 'api.ParquetFile.read_row_group_file', 'api.ParquetFile.iter_row_groups', 'core.read_row_group', 'core.read_row_group_arrays', 'core.read_col', 'api.ParquetFile._column_filter', 'api.filter_row_groups'])


def _stores(func, name):
    out = []
    for s in iter_child_stmts(func.body):
        if isinstance(s, ast.Assign) and any(isinstance(t, ast.Name) and t.id == name for t in s.targets):
            out.append(s)
        elif isinstance(s, ast.AugAssign) and isinstance(s.target, ast.Name) and s.target.id == name:
            out.append(s)
    return out


def r131_132(ctx, m):
    f = m.func('ParquetFile._column_filter')
    cfg = CFG(f)
    outer = [s for s in f.body if isinstance(s, ast.For) and norm(s.iter) == 'filters']
    if len(outer) != 1:
        raise AnalysisError('R13.1: cannot find the loop over filter groups in _column_filter')
    outer = outer[0]
    gvar = outer.target.id if isinstance(outer.target, ast.Name) else None
    inner = [s for s in outer.body if isinstance(s, ast.For) and norm(s.iter) == gvar]
    ctx.ob('R13.1', 'api._column_filter:one-condition-loop-per-group', len(inner) == 1,
           'each group is a list of conditions iterated once', m.loc(outer))
    if len(inner) != 1:
        return
    inner = inner[0]
    # result accumulator
    rets = [s for s in iter_child_stmts(f.body) if isinstance(s, ast.Return)]
    res = norm(rets[-1].value) if rets else None
    ctx.ob('R13.1', 'api._column_filter:returns-the-result-accumulator', len(rets) == 1 and isinstance(rets[0].value, ast.Name),
           'returns %s' % res, m.loc(f))
    rstores = _stores(f, res) if res else []
    init = [s for s in rstores if isinstance(s, ast.Assign)]
    ok = len(init) == 1 and init[0] in f.body and callee(init[0].value) == 'np.zeros' and 'bool' in norm(init[0].value)
    ctx.ob('R13.1', 'api._column_filter:result-initialised-all-false', ok,
           norm(init[0]) if init else 'no initialisation', m.loc(init[0]) if init else m.loc(f))
    augs = [s for s in rstores if isinstance(s, ast.AugAssign)]
    gacc = None
    ok = len(augs) == 1 and isinstance(augs[0].op, ast.BitOr) and isinstance(augs[0].value, ast.Name) \
        and before(outer.body, inner, augs[0])
    if augs and isinstance(augs[0].value, ast.Name):
        gacc = augs[0].value.id
    ctx.ob('R13.1', 'api._column_filter:result-updated-only-by-OR-of-a-finished-group', ok,
           '; '.join(norm(a) for a in augs) or 'no update', m.loc(augs[0]) if augs else m.loc(f))
    if gacc is None:
        return
    gstores = _stores(f, gacc)
    ginit = [s for s in gstores if isinstance(s, ast.Assign)]
    ok = len(ginit) == 1 and before(outer.body, ginit[0], inner) \
        and callee(ginit[0].value) == 'np.ones' and 'bool' in norm(ginit[0].value)
    ctx.ob('R13.1', 'api._column_filter:group-initialised-all-true-once-per-group', ok,
           '; '.join(norm(s) for s in ginit) or 'no initialisation', m.loc(ginit[0]) if ginit else m.loc(f))
    gaugs = [s for s in gstores if isinstance(s, ast.AugAssign)]
    bad = [norm(s) for s in gaugs if not isinstance(s.op, ast.BitAnd)]
    inner_stmts = set(iter_child_stmts(inner.body))
    bad += ['%s outside the condition loop' % norm(s) for s in gaugs if s not in inner_stmts]
    bad += ['plain store %s inside the condition loop' % norm(s) for s in ginit if s in inner_stmts]
    ctx.ob('R13.1', 'api._column_filter:group-updated-only-by-AND-of-a-condition', not bad and len(gaugs) >= 3,
           '; '.join(bad) or '%d AND-updates' % len(gaugs), m.loc(inner))
    # flat list
    flat = [s for s in f.body if isinstance(s, ast.If) and 'isinstance(filters[0][0], str)' in norm(s.test)]
    ok = len(flat) == 1 and [norm(x) for x in flat[0].body] == ['filters = [filters]'] and not flat[0].orelse \
        and before(f.body, flat[0], outer)
    ctx.ob('R13.1', 'api._column_filter:flat-list-wrapped-once-before-evaluation', ok,
           'a flat list means AND (as documented and as pruned by filter_row_groups)', m.loc(flat[0]) if flat else m.loc(f))
    # no arm may test the group for being a flat condition (OR of bare conditions)
    ctx.ob('R13.1', 'api._column_filter:no-bare-condition-arm-inside-the-group-loop',
           not any(isinstance(s, ast.If) and 'isinstance(%s[0], str)' % gvar in norm(s.test) for s in iter_child_stmts(outer.body)),
           'conditions must never be OR-ed into the result directly', m.loc(outer))

    # R13.2 ---------------------------------------------------------------
    ops = module_table(ctx.repo, 'util', 'ops')
    chain = [s for s in inner.body if isinstance(s, ast.If) and 'op' in norm(s.test) and 'self.cats' not in norm(s.test)]
    arms = {}
    if chain:
        node = chain[0]
        while True:
            arms[norm(node.test)] = node.body
            if len(node.orelse) == 1 and isinstance(node.orelse[0], ast.If):
                node = node.orelse[0]
            else:
                break
    covered = set()
    for t in arms:
        if t == "op == 'in'":
            covered.add('in')
        elif t == "op == 'not in'":
            covered.add('not in')
        elif t == 'op in ops':
            covered |= set(ops)
    for op in GRAMMAR:
        ctx.ob('R13.2', 'api._column_filter:operator-has-an-arm:%s' % op, op in covered,
               'a condition whose operator has no arm is silently ignored (the group stays all-true)', m.loc(inner))
    pol = {"op == 'in'": ('isin', False), "op == 'not in'": ('isin', True)}
    for t, (fn, neg) in pol.items():
        body = arms.get(t)
        ok = False
        d = 'arm missing'
        if body and len(body) == 1 and isinstance(body[0], ast.AugAssign):
            v = body[0].value
            d = norm(v)
            has_not = isinstance(v, ast.UnaryOp) and isinstance(v.op, ast.Invert)
            core = v.operand if has_not else v
            ok = has_not == neg and 'df[name].isin(val)' in norm(core)
        ctx.ob('R13.2', 'api._column_filter:polarity-of-%s' % t.split('==')[1].strip().strip("'").replace(' ', '-'), ok, d, m.loc(inner))
    body = arms.get('op in ops')
    ok = False
    d = 'arm missing'
    if body and len(body) == 1 and isinstance(body[0], ast.AugAssign):
        d = norm(body[0].value)
        v = body[0].value
        ok = isinstance(v, ast.Call) and norm(v.func) == 'ops[op]' and len(v.args) == 2 and \
            norm(v.args[0]).startswith('df[name]') and norm(v.args[1]) == 'val'
    ctx.ob('R13.2', 'api._column_filter:comparison-arm-applies-ops[op](column,constant)', ok, d, m.loc(inner))
    want = {'==': 'operator.eq', '=': 'operator.eq', '!=': 'operator.ne', '>': 'operator.gt', '>=': 'operator.ge',
            '<': 'operator.lt', '<=': 'operator.le'}
    for k, v in want.items():
        got = ops.get(k)
        ctx.ob('R13.2', 'util.ops:%s-is-%s' % (k, v), got is not None and getattr(got, 'text', None) == v,
               'ops[%r] = %r' % (k, got), 'fastparquet/util.py:1')
    # skipped conditions
    for s in iter_child_stmts(inner.body):
        if isinstance(s, ast.Continue):
            tests = [e for e, fld in cfg.enclosing_tests(s) if isinstance(e, ast.If)]
            t = norm(tests[-1].test) if tests else '?'
            ctx.ob('R13.2', 'api._column_filter:condition-skipped-when:%s' % t, False,
                   'conditions for which `%s` are skipped by the row evaluator; they are only enforced per row '
                   'group by filter_row_groups, which is exact for a single AND group and wrong for OR of ANDs' % t,
                   m.loc(s))


def _call_sig(c):
    return (callee(c), tuple(norm(a) for a in c.args), tuple(sorted((k.arg, norm(k.value)) for k in c.keywords)))


def r133(ctx, m):
    tp = m.func('ParquetFile.to_pandas')
    cnt = m.func('ParquetFile.count')
    rr = m.func('ParquetFile.read_row_group_file')

    def triple(func, fvar):
        cs = df = mask = None
        for s in iter_child_stmts(func.body):
            if isinstance(s, ast.Assign) and isinstance(s.value, ast.Call):
                c = callee(s.value)
                if c == 'self._columns_from_filters':
                    cs = s
                elif c in ('self.to_pandas', 'self.read_row_group_file') and norm(s.targets[0]) == 'df':
                    df = s
                elif c == 'self._column_filter':
                    mask = s
            if isinstance(s, ast.Return) and isinstance(s.value, ast.Call) and 'self._column_filter' in norm(s.value):
                mask = s
        return cs, df, mask

    a = triple(tp, 'filters')
    b = triple(cnt, 'filters')
    c = triple(rr, 'row_filter')
    for nm, t, func in (('to_pandas', a, tp), ('count', b, cnt), ('read_row_group_file', c, rr)):
        ctx.ob('R13.3', 'api.%s:first-pass-triple-present' % nm, all(x is not None for x in t),
               'columns_from_filters -> unfiltered first pass -> _column_filter', m.loc(func))
    if not all(x is not None for x in a + b + c):
        return
    ctx.ob('R13.3', 'api.count-vs-to_pandas:first-pass-read-identical',
           _call_sig(a[1].value) == _call_sig(b[1].value),
           'to_pandas: %s | count: %s' % (norm(a[1].value), norm(b[1].value)), m.loc(b[1]))
    ctx.ob('R13.3', 'api.count-vs-to_pandas:filter-columns-identical',
           _call_sig(a[0].value) == _call_sig(b[0].value), '%s | %s' % (norm(a[0].value), norm(b[0].value)), m.loc(b[0]))

    def mask_call(s):
        for x in ast.walk(s):
            if isinstance(x, ast.Call) and callee(x) == 'self._column_filter':
                return x
    ma, mb, mc = mask_call(a[2]), mask_call(b[2]), mask_call(c[2])
    ctx.ob('R13.3', 'api.count-vs-to_pandas:mask-evaluated-identically', _call_sig(ma) == _call_sig(mb),
           '%s | %s' % (norm(ma), norm(mb)), m.loc(b[2]))
    fp = a[1].value
    kws = {k.arg: norm(k.value) for k in fp.keywords}
    ctx.ob('R13.3', 'api.to_pandas:first-pass-is-pruned-by-the-same-filters-and-unmasked',
           kws.get('filters') == 'filters' and kws.get('row_filter') == 'False' and kws.get('index') == 'False'
           and kws.get('columns') == 'cs', str(kws), m.loc(a[1]))
    # count sums the mask, to_pandas uses it as selection
    ctx.ob('R13.3', 'api.count:returns-mask-sum', isinstance(b[2], ast.Return) and norm(b[2].value).endswith('.sum()'),
           norm(b[2]), m.loc(b[2]))
    # per-row-group arm: same evaluator on this row group's unfiltered frame
    kc = {k.arg: norm(k.value) for k in c[1].value.keywords}
    ca = [norm(x) for x in c[1].value.args]
    ctx.ob('R13.3', 'api.read_row_group_file:first-pass-is-this-row-group-unmasked',
           ca[:2] == ['rg', 'cs'] and kc.get('row_filter') == 'False' and kc.get('index') == 'False', '%s %s' % (ca, kc), m.loc(c[1]))
    ctx.ob('R13.3', 'api.read_row_group_file:mask-from-the-list-of-filters',
           norm(mc) == 'self._column_filter(df, filters=row_filter)', norm(mc), m.loc(c[2]))
    # _columns_from_filters drops partition columns only
    cf = m.func('ParquetFile._columns_from_filters')
    ctx.ob('R13.3', 'api._columns_from_filters:all-filter-columns-except-partitions',
           'if c not in self.cats' in norm(cf.body[-1]) and 'g[0] for g in f' in norm(cf.body[-1]) and '[f[0]]' in norm(cf.body[-1]),
           norm(cf.body[-1])[:160], m.loc(cf))


class _OffsetWalker(Walker):
    pass


def _prefix_slices(tp):
    """The mask cut at the row-group boundaries without a running cursor:
        selected = [sel[LO:HI] for a, b in zip(X, Y)]
    where, with L = the row counts of `rgs` in order, P = their prefix sums (P[i] = L[0] + .. + L[i-1]), the bounds
    are LO = P[i], HI = P[i+1].  Recognised spellings: accumulate(L, initial=0) is P[0..n]; accumulate(L) and P[1:] are
    P[1..n]; b - a for (a: L[i], b: P[i+1]) is P[i]; a + b for (a: P[i], b: L[i]) is P[i+1].  Returns (found, ok, detail)."""
    defs = {}
    for st in walk_no_nested(tp):
        if isinstance(st, ast.Assign) and len(st.targets) == 1 and isinstance(st.targets[0], ast.Name):
            defs.setdefault(st.targets[0].id, []).append(st.value)

    def is_len(e, depth=0):
        if isinstance(e, ast.Name) and len(defs.get(e.id, [])) == 1 and depth < 3:
            return is_len(defs[e.id][0], depth + 1)
        if isinstance(e, ast.Call) and callee(e) in ('list', 'tuple') and len(e.args) == 1:
            return is_len(e.args[0], depth)
        return isinstance(e, (ast.ListComp, ast.GeneratorExp)) and len(e.generators) == 1 and not e.generators[0].ifs \
            and norm(e.generators[0].iter) in ('rgs', 'rgs[:]') and isinstance(e.generators[0].target, ast.Name) \
            and norm(e.elt) == '%s.num_rows' % e.generators[0].target.id

    def seq(e, depth=0):
        # 'LEN' = L, 'P0' = P[0..n], 'P1' = P[1..n]
        if is_len(e):
            return 'LEN'
        if isinstance(e, ast.Name) and len(defs.get(e.id, [])) == 1 and depth < 3:
            return seq(defs[e.id][0], depth + 1)
        if isinstance(e, ast.Call) and callee(e) in ('list', 'tuple') and len(e.args) == 1:
            return seq(e.args[0], depth)
        if isinstance(e, ast.Call) and (callee(e) or '').split('.')[-1] == 'accumulate' and e.args and is_len(e.args[0]) and len(e.args) == 1:
            kws = {k.arg: k.value for k in e.keywords}
            if not kws:
                return 'P1'
            if set(kws) == {'initial'} and isinstance(kws['initial'], ast.Constant) and kws['initial'].value == 0:
                return 'P0'
            return None
        if isinstance(e, ast.Subscript) and isinstance(e.slice, ast.Slice) and norm(e.slice) == '1:' and seq(e.value, depth) == 'P0':
            return 'P1'
        return None
    for st in walk_no_nested(tp):
        if not (isinstance(st, ast.Assign) and len(st.targets) == 1 and norm(st.targets[0]) == 'selected' and isinstance(st.value, ast.ListComp)):
            continue
        c = st.value
        if len(c.generators) != 1 or c.generators[0].ifs:
            return True, False, norm(c)[:120]
        g = c.generators[0]
        if not (isinstance(g.iter, ast.Call) and callee(g.iter) == 'zip' and len(g.iter.args) == 2 and isinstance(g.target, ast.Tuple)
                and len(g.target.elts) == 2 and all(isinstance(t, ast.Name) for t in g.target.elts)):
            return True, False, norm(c)[:120]
        kinds = [seq(a) for a in g.iter.args]
        # (zip stops at the shorter sequence: P[0..n] paired with something of length n stands for P[0..n-1])
        env = {t.id: {'LEN': 'LEN', 'P0': 'PRE', 'P1': 'POST'}.get(k) for t, k in zip(g.target.elts, kinds)}

        def val(e):
            if isinstance(e, ast.Name):
                return env.get(e.id)
            if isinstance(e, ast.BinOp) and isinstance(e.op, ast.Sub) and val(e.left) == 'POST' and val(e.right) == 'LEN':
                return 'PRE'
            if isinstance(e, ast.BinOp) and isinstance(e.op, ast.Add) and {val(e.left), val(e.right)} == {'PRE', 'LEN'}:
                return 'POST'
            return None
        e = c.elt
        ok = isinstance(e, ast.Subscript) and norm(e.value) == 'sel' and isinstance(e.slice, ast.Slice) and e.slice.step is None \
            and e.slice.lower is not None and e.slice.upper is not None and val(e.slice.lower) == 'PRE' and val(e.slice.upper) == 'POST'
        return True, bool(ok), '%s with %s' % (norm(c)[:100], kinds)
    return False, False, ''


def r134(ctx, m):
    tp = m.func('ParquetFile.to_pandas')
    # selection loop
    loops = [s for s in iter_child_stmts(tp.body) if isinstance(s, ast.For)]
    sel_loop = [l for l in loops if 'selected.append' in src(l)]
    ok = False
    d = 'selection loop not found'
    if len(sel_loop) == 1:
        l = sel_loop[0]
        body = [norm(x) for x in l.body]
        ok = norm(l.iter) in ('rgs[:]', 'rgs') and body == ['selected.append(sel[start:start + rg.num_rows])', 'start += rg.num_rows']
        d = 'for %s in %s: %s' % (norm(l.target), norm(l.iter), body)
    prefix_form = False
    if not sel_loop:
        # (no running cursor: the slices are cut at prefix sums of the row counts)
        prefix_form, ok, d = _prefix_slices(tp)
    ctx.ob('R13.4', 'api.to_pandas:mask-sliced-by-cumulative-row-group-sizes', ok, d, m.loc(sel_loop[0]) if sel_loop else m.loc(tp))
    # start reset before each loop
    zero = [s for s in iter_child_stmts(tp.body) if isinstance(s, ast.Assign) and norm(s) == 'start = 0']
    ctx.ob('R13.4', 'api.to_pandas:cursor-reset-before-each-pass', len(zero) == (1 if prefix_form else 2), '%d resets' % len(zero), m.loc(tp))
    # custom mask validated
    val = [s for s in iter_child_stmts(tp.body) if isinstance(s, ast.If)
           and norm(s.test) == 'sum((rg.num_rows for rg in rgs)) != len(row_filter)']
    ok = len(val) == 1 and any(isinstance(x, ast.Raise) for x in val[0].body)
    ctx.ob('R13.4', 'api.to_pandas:caller-mask-length-validated', ok,
           'a mask of the wrong length must be refused', m.loc(val[0]) if val else m.loc(tp))
    # both passes iterate the same pruned list
    rg_def = [s for s in tp.body if isinstance(s, ast.Assign) and norm(s.targets[0]) == 'rgs']
    ctx.ob('R13.4', 'api.to_pandas:single-pruned-row-group-list',
           len(rg_def) == 1 and norm(rg_def[0].value) == 'filter_row_groups(self, filters) if filters else self.row_groups',
           norm(rg_def[0]) if rg_def else '', m.loc(tp))
    read_loop = [l for l in loops if 'read_row_group_file' in src(l)]
    ok = len(read_loop) == 1 and norm(read_loop[0].iter) == 'zip(rgs, selected)'
    ctx.ob('R13.4', 'api.to_pandas:read-loop-pairs-row-groups-with-their-mask-slices', ok,
           norm(read_loop[0].iter) if read_loop else '', m.loc(tp))
    if read_loop:
        rl = read_loop[0]
        call = [c for c in ast.walk(rl) if isinstance(c, ast.Call) and callee(c) == 'self.read_row_group_file']
        ctx.ob('R13.4', 'api.to_pandas:mask-slice-passed-to-the-row-group-read',
               len(call) == 1 and norm(kwarg(call[0], 'row_filter')) == 'sel', '', m.loc(rl))
        tl = [s for s in rl.body if isinstance(s, ast.Assign) and norm(s.targets[0]) == 'thislen']
        ctx.ob('R13.4', 'api.to_pandas:selected-row-count-per-row-group',
               len(tl) == 1 and norm(tl[0].value) == 'sel.sum() if sel is not None else rg.num_rows',
               norm(tl[0]) if tl else '', m.loc(rl))


def r135(ctx):
    m = ctx.repo['core']
    f = m.func('read_col')
    blk = [s for s in iter_child_stmts(f.body) if isinstance(s, ast.If) and norm(s.test) == 'isinstance(row_filter, np.ndarray)'
           and 'index_off' in src(s)]
    if len(blk) != 1:
        raise AnalysisError('R13.5: mask block of read_col not found')
    blk = blk[0]
    w = Walker()
    checked = 0
    for on_defi in (True, False):
        st = State()
        st.assume = {'defi is not None': on_defi, 'defi is None': not on_defi}
        st.env['index_off'] = Lin({('cursor', 'index_off'): 1})
        st.env['val'] = Obj('val', 0)
        st.env['defi'] = Obj('defi', 0)
        rows = Lin({('len', repr(Obj('defi' if on_defi else 'val', 0))): 1})
        want = Lin({('cursor', 'index_off'): 1}) + rows
        for fin in w.walk(blk.body, st):
            adv = fin.env.get('index_off')
            checked += 1
            kind = 'skipped-page' if fin.status == 'continue' else 'read-page'
            ctx.ob('R13.5', 'core.read_col:mask-cursor-advances-by-page-rows:%s:%s' % (
                'nullable' if on_defi else 'required', kind), adv == want,
                'after a %s the cursor is %r; the page holds %r rows' % (kind, adv, rows), m.loc(blk))
            if fin.status == 'continue':
                outs = [e for e in fin.events if e[0] == 'aug' and e[1] == 'num']
                ctx.ob('R13.5', 'core.read_col:output-position-unchanged-on-skipped-page:%s' % (
                    'nullable' if on_defi else 'required'), not outs,
                    'a page without selected rows writes nothing, so the output position must not move: %s' % (
                        [norm(e[4]) for e in outs]), m.loc(blk))
    ctx.floor('R13.5', 'cursor paths', checked, 2)
    # a page is passed over because none of its ROWS is selected: the test that skips it reads the page's slice of the
    # mask.  The count of non-null values left after masking says nothing about selected rows that are NULL.
    cfg = CFG(f)
    for c in ast.walk(blk):
        if isinstance(c, ast.Continue):
            tests = [e.test for e, fld in cfg.enclosing_tests(c) if isinstance(e, ast.If) and e is not blk and any(e is y for y in ast.walk(blk))]
            # (a temporary holding the page's slice of the mask is looked through)
            on_mask = any('row_filter' in resolved(f, t, depth=1) for t in tests)
            on_vals = [norm(t) for t in tests if any(isinstance(x, ast.Name) and x.id == 'val' for x in ast.walk(t))]
            ctx.ob('R13.5', 'core.read_col:page-skipped-only-when-the-mask-selects-none-of-its-rows', on_mask and not on_vals,
                   'guards of the skip: %s' % [norm(t) for t in tests], m.loc(c))


def r138(ctx, rule='R13.8'):
    """core.read_col, v1 page loop: the output cursor advances by the rows this page contributed to the output - the
    length of the (already mask-reduced) level or value array - never by a count from the page header, which counts
    the unselected rows too"""
    core = ctx.repo['core']
    f = core.func('read_col')
    augs = [st for st in iter_child_stmts(f.body) if isinstance(st, ast.AugAssign) and norm(st.target) == 'num' and isinstance(st.op, ast.Add)]
    plain = [a for a in augs if 'read_data_page_v2' not in norm(a.value)]
    ctx.ob(rule, 'core.read_col:one-cursor-advance-for-v1-pages', len(plain) == 1, str([norm(a) for a in augs]), core.loc(f))
    for a in plain:
        v = a.value
        ok = isinstance(v, ast.IfExp) and norm(v.test) == 'defi is not None' and norm(v.body) == 'len(defi)' and norm(v.orelse) == 'len(val)'
        hdr = any(isinstance(x, ast.Attribute) and x.attr in ('num_values', 'num_rows') for x in ast.walk(v))
        ctx.ob(rule, 'core.read_col:cursor-advances-by-the-rows-written', ok and not hdr,
               '`%s`' % norm(a), core.loc(a))
