"""C14 - opening or merging many files yields their concatenation."""
import ast

from ..model import AnalysisError, callee, norm, src, walk_no_nested, iter_child_stmts, kwarg, before
from ..cfg import CFG, ReachingDefs
from . import meta_rules


def run(ctx):
    ctx.technique = 'CFG dominance of the verification path, sibling agreement of the two footer-gathering arms and of the constructor call sites, reaching definitions for order provenance'
    ctx.explanation = (
        'Decides: (R14.1) when verification is requested the legacy arm with the schema comparison is the '
        'one taken, and it compares every file with the first and raises; (R14.2) both footer-gathering arms '
        're-path every chunk of every row group and recompute num_rows over the final list; (R14.3) the '
        'sequence iterated to extend the row-group list derives from the caller\'s file list, never from '
        'iterating the dict returned by fs.cat; (R14.4) every constructor arm that gathers many files passes '
        'the same verification/open/root/fs arguments, consolidates categories, stores fmd and builds the '
        'handle; (R14.5) category consolidation is a running maximum over all row groups.')
    ctx.not_decided = ('category dictionaries that differ between files (data-dependent relabelling in read_col) and '
                       'base-path inference from path shapes (string manipulation of runtime values)')
    ut, api, wr = ctx.repo['util'], ctx.repo['api'], ctx.repo['writer']
    f = ut.func('metadata_from_many')
    cfg = CFG(f)
    rd = ReachingDefs(cfg)
    leg, vs = r141(ctx)
    r145(ctx)
    r146(ctx)
    r147(ctx)
    r148(ctx)
    r149(ctx)
    r1410(ctx)
    from . import c08 as _c08
    _c08.r83(ctx, ctx.repo['writer'], ctx.repo['api'], ctx.repo['util'], ctx.repo['core'])    # one path grammar on every parser
    _c08.r86(ctx, ctx.repo['util'])     # directory text typed int before float
    from . import c08
    c08.r85(ctx)

    # R14.2
    n = meta_rules.filepath_rule(ctx, 'R14.2', only={'util'})
    meta_rules.filepath_text_rule(ctx, 'R14.2', only={'util', 'api'})
    # every chunk gets its path on either route: the legacy route once or per scheme arm, the concurrent-footer route
    # for the first file's chunks and for the chunks of every fetched footer
    leg = [st for st in iter_child_stmts(f.body) if isinstance(st, ast.If) and norm(st.test) == 'legacy']
    stores = [st for st in walk_no_nested(f) if isinstance(st, ast.Assign) and isinstance(st.targets[0], ast.Attribute) and st.targets[0].attr == 'file_path']
    in_leg = [st for st in stores if leg and any(st is y for y in ast.walk(leg[0]))]
    ctx.ob('R14.2', 'util.metadata_from_many:legacy-route-re-paths-the-chunks', len(leg) == 1 and len(in_leg) >= 1, '%d store(s)' % len(in_leg), ut.loc(f))
    ctx.ob('R14.2', 'util.metadata_from_many:concurrent-route-re-paths-first-file-and-fetched-footers', len(stores) - len(in_leg) >= 2,
           '%d store(s) outside the legacy block' % (len(stores) - len(in_leg)), ut.loc(f))
    meta_rules.rowcount_rule(ctx, 'R14.2', only_modules={'util'})
    sums = [norm(s) for s in iter_child_stmts(f.body) if isinstance(s, ast.Assign) and norm(s.targets[0]).endswith('.num_rows')]
    ctx.ob('R14.2', 'util.metadata_from_many:both-arms-recount-rows-over-the-final-list',
           sorted(sums) == ['fmd.num_rows = sum((rg.num_rows for rg in fmd.row_groups))',
                            'pf0.fmd.num_rows = sum((rg.num_rows for rg in pf0.fmd.row_groups))'], str(sums), ut.loc(f))
    rets = [norm(s.value) for s in iter_child_stmts(f.body) if isinstance(s, ast.Return)]
    ctx.ob('R14.2', 'util.metadata_from_many:both-arms-return-(basepath,fmd)', sorted(rets) == ['(basepath, fmd)', '(basepath, pf0.fmd)'], str(rets), ut.loc(f))
    # legacy: private copies before re-pathing
    if leg:
        # (per store of a chunk path: the row-group loop it sits in copies the row group and its chunk list first - however
        # many such loops the arm has)
        ok, d = bool(in_leg), []
        for st in in_leg:
            loops = [lp for lp in ast.walk(leg[0]) if isinstance(lp, ast.For) and norm(lp.target) == 'rg' and any(st is y for y in ast.walk(lp))]
            if not loops:
                ok = False; d.append('store outside a row-group loop: %s' % norm(st)[:60]); continue
            lp = loops[-1]
            pre = [norm(x) for x in lp.body if (x.lineno, x.col_offset) < (st.lineno, st.col_offset)]
            if 'rg = copy.copy(rg)' not in pre or 'rg.columns = [copy.copy(c) for c in rg.columns]' not in pre:
                ok = False; d.append('no private copies before `%s`' % norm(st)[:60])
        ctx.ob('R14.2', 'util.metadata_from_many:legacy-arm-re-paths-private-copies', ok,
               'row groups and chunks are copied before file_path is changed (the opened handles keep theirs) %s' % d, ut.loc(leg[0]))

    # R14.3
    final = [s for s in iter_child_stmts(f.body) if isinstance(s, ast.For) and norm(s.iter) == 'pieces' and 'rgs0.extend' in src(s)]
    ok = len(final) == 1
    d = 'final loop over pieces not found'
    if ok:
        defs = rd.defs_reaching(cfg.node_of(final[0]), 'pieces')
        texts = [norm(cfg.nodes[x].stmt) for x in defs if cfg.nodes[x].stmt is not None]
        d = str(texts)
        ok = len(texts) == 1 and isinstance(cfg.nodes[list(defs)[0]].stmt, ast.Assign)
        if ok:
            v = cfg.nodes[list(defs)[0]].stmt.value
            ok = isinstance(v, ast.ListComp) and norm(v.generators[0].iter) == 'file_list[1:]' and not v.generators[0].ifs \
                and isinstance(v.elt, ast.Tuple) and len(v.elt.elts) == 2 and norm(v.elt.elts[0]) == 'fn' \
                and all(isinstance(x, ast.Subscript) and norm(x.value) == 'pieces' and 'fn' in norm(x.slice)
                        for x in ast.walk(v.elt.elts[1]) if isinstance(x, ast.Subscript))
    ctx.ob('R14.3', 'util.metadata_from_many:fast-arm-order-derives-from-the-callers-list', ok,
           'definition of `pieces` reaching the extending loop: %s (fs.cat returns a dict whose order is not the caller\'s)' % d,
           ut.loc(final[0]) if final else ut.loc(f))
    cat = [c for c in ast.walk(f) if isinstance(c, ast.Call) and callee(c) == 'fs.cat']
    ctx.ob('R14.3', 'util.metadata_from_many:all-but-the-first-file-fetched', len(cat) == 2 and norm(cat[0].args[0]) == 'file_list[1:]'
           or any(norm(c.args[0]) == 'file_list[1:]' for c in cat), str([norm(c)[:60] for c in cat]), ut.loc(f))
    f0 = [norm(s) for s in iter_child_stmts(f.body) if isinstance(s, ast.Assign) and norm(s.targets[0]) in ('f0', 'pf0')]
    ctx.ob('R14.3', 'util.metadata_from_many:first-file-opened-first', 'f0 = file_list[0]' in f0 and 'pf0 = api.ParquetFile(f0, open_with=open_with)' in f0, str(f0), ut.loc(f))
    if leg:
        zl = [s for s in leg[0].body if isinstance(s, ast.For)]
        ctx.ob('R14.3', 'util.metadata_from_many:legacy-arm-iterates-handles-with-their-paths-in-list-order',
               any(norm(s.iter) == 'zip(pfs, file_list)' for s in zl), str([norm(s.iter) for s in zl]), ut.loc(leg[0]))
    pfs = [norm(s.value) for s in iter_child_stmts(f.body) if isinstance(s, ast.Assign) and norm(s.targets[0]) == 'pfs']
    ctx.ob('R14.3', 'util.metadata_from_many:handles-opened-in-list-order',
           all('for fn in file_list' in p or p == 'file_list' for p in pfs) and len(pfs) >= 3, str(pfs), ut.loc(f))
    ap = [s for s in iter_child_stmts(f.body) if isinstance(s, ast.Assign) and 'analyse_paths' in norm(s.value)]
    ctx.ob('R14.3', 'util.metadata_from_many:relative-paths-computed-once-for-the-whole-list',
           len(ap) == 1 and norm(ap[0]) == '(basepath, file_list) = analyse_paths(file_list, root=root)'.replace('(basepath, file_list)', 'basepath, file_list')
           or (len(ap) == 1 and 'analyse_paths(file_list, root=root)' in norm(ap[0])), norm(ap[0]) if ap else '', ut.loc(f))

    r144(ctx, api, wr)

    consolidate_rule(ctx, 'R14.5')
    from . import callsigs as _cs
    from . import findings3 as _f3
    _f3.open_routes(ctx, 'R14.11')
    _cs.general_rules(ctx, 'R14', ['api.ParquetFile.__init__', 'util.metadata_from_many', 'writer.merge', 'util.analyse_paths', 'api.ParquetFile.to_pandas', 'api.ParquetFile.row_group_filename', 'api.ParquetFile.read_row_group_file'])


def r144(ctx, api, wr):
    # R14.4
    init = api.func('ParquetFile.__init__')
    calls = [c for c in walk_no_nested(init) if isinstance(c, ast.Call) and callee(c) == 'metadata_from_many']
    ctx.floor('R14.4', 'metadata_from_many call sites in __init__', len(calls), 2)
    sigs = []
    for c in calls:
        kw = {k.arg: norm(k.value) for k in c.keywords}
        sigs.append(kw)
        ctx.ob('R14.4', 'api.__init__:many-files-arm-forwards-verify/open_with/root/fs:%s' % norm(c.args[0]),
               kw == {'verify_schema': 'verify', 'open_with': 'open_with', 'root': 'root', 'fs': 'fs'}, str(kw), api.loc(c))
    ctx.ob('R14.4', 'api.__init__:sibling-arms-pass-the-same-keywords', all(s == sigs[0] for s in sigs), str(sigs), api.loc(init))
    cfg_i = CFG(init)
    for c in calls:
        st = [s for s in iter_child_stmts(init.body) if isinstance(s, ast.Assign) and s.value is c]
        if not st:
            continue
        n0 = cfg_i.node_of(st[0])
        follow = []
        for s in iter_child_stmts(init.body):
            if s in cfg_i.stmt_node and not isinstance(s, (ast.If, ast.Try, ast.With, ast.For)) and \
                    cfg_i.dominates(n0, cfg_i.node_of(s)) and s is not st[0]:
                follow.append(norm(s))
        need = ['writer.consolidate_categories(fmd)', 'self.fmd = fmd', 'self._set_attrs()']
        pos = [follow.index(x) if x in follow else -1 for x in need]
        ctx.ob('R14.4', 'api.__init__:many-files-arm-consolidates-stores-and-builds:%s' % norm(c.args[0]),
               -1 not in pos and pos == sorted(pos),
               'categories must be consolidated before the handle is built from the metadata (the handle caches the pandas '
               'metadata): %s' % follow[:6], api.loc(c))
    # the directory arm defaults the root to the directory itself
    dflt = [s2 for s2 in iter_child_stmts(init.body) if isinstance(s2, ast.Assign) and norm(s2.targets[0]) == 'root' and 'fn' in norm(s2.value)]
    ctx.ob('R14.4', 'api.__init__:directory-without-summary-uses-itself-as-root-unless-given',
           len(dflt) == 1 and norm(dflt[0].value) == 'root or fn',
           '`%s`: without it the base path is inferred from the common prefix of the part files and a single-valued top '
           'partition level is swallowed' % (norm(dflt[0]) if dflt else 'no default'), api.loc(init))
    ctx.ob('R14.4', 'api.__init__:verify-parameter-defaults-to-False',
           any(a.arg == 'verify' for a in init.args.args), '', api.loc(init))
    mg = wr.func('merge')
    ctx.ob('R14.4', 'writer.merge:opens-the-list-with-the-callers-verification-choice',
           'out = ParquetFile(file_list, verify_schema, open_with, root)' in src(mg), '', wr.loc(mg))



def r141(ctx):
    ut = ctx.repo['util']
    f = ut.func('metadata_from_many')
    cfg = CFG(f)
    # R14.1
    sel = [s for s in iter_child_stmts(f.body) if isinstance(s, ast.If) and 'verify_schema' in norm(s.test) and 'len(file_list)' in norm(s.test)]
    ok = len(sel) == 1 and isinstance(sel[0].test, ast.BoolOp) and isinstance(sel[0].test.op, ast.Or) and \
        any(norm(v) == 'verify_schema' for v in sel[0].test.values)
    ctx.ob('R14.1', 'util.metadata_from_many:verification-request-selects-the-legacy-arm', ok,
           'arm selection `%s`' % (norm(sel[0].test) if sel else '?'), ut.loc(sel[0]) if sel else ut.loc(f))
    fast = [s for s in iter_child_stmts(f.body) if isinstance(s, ast.Assign) and norm(s) == 'legacy = False']
    ok = len(fast) == 1 and bool(sel) and any(x is fast[0] for x in iter_child_stmts(sel[0].orelse))
    ctx.ob('R14.1', 'util.metadata_from_many:fast-arm-only-without-verification', ok,
           'legacy = False is assigned only in the else-branch of the selection', ut.loc(fast[0]) if fast else ut.loc(f))
    leg = [s for s in iter_child_stmts(f.body) if isinstance(s, ast.If) and norm(s.test) == 'legacy']
    vs = [s for s in iter_child_stmts(f.body) if isinstance(s, ast.If) and norm(s.test) == 'verify_schema']
    ok = len(leg) == 1 and len(vs) == 1 and vs[0] in leg[0].body
    if ok:
        loop = [s for s in vs[0].body if isinstance(s, ast.For)]
        ok = len(loop) == 1 and norm(loop[0].iter) == 'pfs[1:]' and len(loop[0].body) == 1 and isinstance(loop[0].body[0], ast.If) \
            and norm(loop[0].body[0].test) in ('pf._schema != pfs[0]._schema', 'pfs[0]._schema != pf._schema') \
            and isinstance(loop[0].body[0].body[0], ast.Raise)
    ctx.ob('R14.1', 'util.metadata_from_many:every-file-compared-with-the-first-and-refused', ok,
           'for pf in pfs[1:]: if pf._schema != pfs[0]._schema: raise', ut.loc(vs[0]) if vs else ut.loc(f))
    if leg and vs:
        first_use = [s for s in leg[0].body if 'copy.copy(pfs[0].fmd)' in norm(s)]
        ctx.ob('R14.1', 'util.metadata_from_many:comparison-precedes-gathering',
               bool(first_use) and before(leg[0].body, vs[0], first_use[0]), '', ut.loc(vs[0]))
    mixed = [s for s in iter_child_stmts(f.body) if isinstance(s, ast.Raise) and 'all ParquetFile instances or none' in src(s)]
    ctx.ob('R14.1', 'util.metadata_from_many:mixed-inputs-refused', len(mixed) == 1, '', ut.loc(f))
    return leg, vs



def r145(ctx, rule='R14.5'):
    """concurrent footer fetch: a file's piece must hold footer + 8 trailer bytes (length word, magic), which is
    what _get_fmd seeks back over.  With F the length word: the quantity compared with the speculative window
    is F + 8, and the re-fetch reaches back max(F) + 8 bytes"""
    from .c17 import _poly
    ut = ctx.repo['util']
    f = ut.func('metadata_from_many')
    g = ut.func('_get_fmd')
    seeks = [c for c in ast.walk(g) if isinstance(c, ast.Call) and callee(c) == 'f.seek' and 'head_size' in norm(c)]
    back = _poly(seeks[0].args[0]) if seeks else None
    ctx.ob(rule, 'util._get_fmd:footer-starts-length+8-before-the-end', back == {('head_size',): -1, (): -8},
           'seek(%s, 2)' % (norm(seeks[0].args[0]) if seeks else '?'), ut.loc(g))
    sz = [st for st in iter_child_stmts(f.body) if isinstance(st, ast.Assign) and norm(st.targets[0]) == 'sizes'
          and isinstance(st.value, ast.DictComp)]
    ctx.ob(rule, 'util.metadata_from_many:needed-tail-length-per-file-computed', len(sz) == 1, '', ut.loc(f))
    if len(sz) != 1:
        return
    need = _poly(sz[0].value.value)
    atoms = [k for k in need if k]
    c1 = need.get((), 0)
    lenword = len(atoms) == 1 and need[atoms[0]] == 1 and 'from_bytes' in atoms[0][0] and '[-8:-4]' in atoms[0][0]
    ctx.ob(rule, 'util.metadata_from_many:footer-length-read-from-the-length-word', lenword, str(need), ut.loc(sz[0]))
    cmp_ = [c for c in ast.walk(f) if isinstance(c, ast.Compare) and norm(c) in ('s > size', 'size < s')]
    ctx.ob(rule, 'util.metadata_from_many:window-compared-with-footer+8', len(cmp_) == 1 and c1 == 8,
           'files whose needed tail (%s) exceeds the speculative window are re-fetched; the needed tail is the footer plus '
           '8 trailer bytes, otherwise a footer within 8 bytes of the window is parsed from a short piece' % need, ut.loc(sz[0]))
    cats = [c for c in ast.walk(f) if isinstance(c, ast.Call) and callee(c) == 'fs.cat' and 'not_bigenough' in norm(c)]
    ok = False
    d = 're-fetch call not found'
    if len(cats) == 1:
        st = kwarg(cats[0], 'start', 1)
        p = _poly(st) if st is not None else {}
        mx = [k for k in p if k and 'max(sizes.values())' in k[0]]
        c2 = -p.get((), 0)
        ok = len(mx) == 1 and p[mx[0]] == -1 and c1 + c2 == 8
        d = 'start=%s with sizes = F%+d: reaches back max(F)%+d bytes (need max(F)+8)' % (norm(st) if st is not None else '?', c1, c1 + c2)
    ctx.ob(rule, 'util.metadata_from_many:re-fetch-reaches-back-footer+8', ok, d, ut.loc(cats[0]) if cats else ut.loc(f))


def r146(ctx, rule='R14.6'):
    """metadata_from_many: every relative path cut off the common base (`x[len(basepath):]`) has its leading slash
    stripped - paths_to_cats counts directory levels, and one path with a leading slash makes the depths differ"""
    ut = ctx.repo['util']
    f = ut.func('metadata_from_many')
    n = 0
    for x in walk_no_nested(f):
        if isinstance(x, ast.Subscript) and isinstance(x.slice, ast.Slice) and x.slice.lower is not None and 'len(basepath)' in norm(x.slice.lower):
            n += 1
            par = [c for c in walk_no_nested(f) if isinstance(c, ast.Call) and isinstance(c.func, ast.Attribute) and c.func.value is x]
            ok = any(c.func.attr == 'lstrip' and c.args and isinstance(c.args[0], ast.Constant) and c.args[0].value == '/' for c in par) \
                and norm(x.slice.lower) == 'len(basepath)'
            ctx.ob(rule, 'util.metadata_from_many:relative-path-without-leading-slash:%d' % n, ok,
                   '`%s`: cut exactly the common base and strip the separator if there is one (an empty base has none: a fixed +1 '
                   'eats the first character of a bare file name)' % norm(x), ut.loc(x))
    ctx.floor(rule, 'relative path computations', n, 2)


def r147(ctx, rule='R14.7'):
    """metadata_from_many given handles: the location of a multi-file dataset is its directory (basepath), not the
    _metadata file the handle was opened on - row-group paths are relative to the directory; and the concurrently
    fetched footers are found under the file system's normalised paths"""
    ut = ctx.repo['util']
    f = ut.func('metadata_from_many')
    st = [s for s in iter_child_stmts(f.body) if isinstance(s, ast.Assign) and norm(s.targets[0]) == 'file_list' and 'for pf in pfs' in norm(s.value)]
    ok = len(st) == 1 and 'pf.basepath' in norm(st[0].value) and 'pf.file_scheme' in norm(st[0].value)
    ctx.ob(rule, 'util.metadata_from_many:handles-located-by-dataset-directory', ok,
           '`%s`: pf.fn of a hive/drill handle is .../_metadata' % (norm(st[0])[:110] if st else '?'), ut.loc(st[0]) if st else ut.loc(f))
    rec = [s for s in iter_child_stmts(f.body) if isinstance(s, ast.Assign) and norm(s.targets[0]) == 'pieces' and isinstance(s.value, ast.ListComp)]
    ok = len(rec) == 1 and '_strip_protocol(fn)' in norm(rec[0].value)
    ctx.ob(rule, 'util.metadata_from_many:fetched-footers-found-under-normalised-paths', ok,
           'fs.cat keys its result by absolute, protocol-less paths; the caller may have given relative ones', ut.loc(rec[0]) if rec else ut.loc(f))


def r148(ctx, rule='R14.8'):
    """analyse_paths splits every entry on '/' after normalising it with join_path (backslashes, duplicate and trailing
    separators): a directory given with a trailing slash must not produce an empty path level"""
    ut = ctx.repo['util']
    f = ut.func('analyse_paths')
    st = [x for x in walk_no_nested(f) if isinstance(x, ast.Assign) and norm(x.targets[0]) == 'path_parts_list']
    ok = len(st) == 1 and "join_path(fn).split('/')" in norm(st[0].value)
    ctx.ob(rule, 'util.analyse_paths:entries-normalised-before-splitting', ok, norm(st[0])[:100] if st else '', ut.loc(f))
    rt = [x for x in walk_no_nested(f) if isinstance(x, ast.Assign) and norm(x.targets[0]) == 'basepath' and 'root' in norm(x.value)]
    ctx.ob(rule, 'util.analyse_paths:root-normalised-the-same-way', len(rt) == 1 and "join_path(root).split('/')" in norm(rt[0].value), '', ut.loc(f))


def r149(ctx, rule='R14.9'):
    """(a) a path is taken for hive style as soon as it has one key=value level (plain levels above the dataset, e.g.
    sub-dataset directories, are allowed): the refusal test is "no key=value level at all"; (b) the dataset directory
    of a handle is its fn without a trailing `_metadata` - also when fn is exactly `_metadata` (empty base path): the
    constant pattern is evaluated on both shapes"""
    import re as _re
    api = ctx.repo['api']
    f = api.func('_path_to_cats')
    ref = [x for x in walk_no_nested(f) if isinstance(x, ast.If) and any(isinstance(r, ast.Raise) and 'hive' in norm(r) for r in x.body)]
    ctx.ob(rule, 'api._path_to_cats:not-hive-only-when-no-level-is-key=value', len(ref) == 1 and norm(ref[0].test) == 'not hivehits',
           '`if %s: raise` - demanding that every level be key=value turns sub-datasets in plainly named directories into drill '
           'datasets (the partition column is lost)' % (norm(ref[0].test) if ref else '?'), api.loc(ref[0]) if ref else api.loc(f))
    g = api.func('ParquetFile.basepath')
    subs = [c for c in ast.walk(g) if isinstance(c, ast.Call) and callee(c) == 're.sub' and c.args and isinstance(c.args[0], ast.Constant)]
    ok = False
    d = 're.sub with a constant pattern not found'
    if len(subs) == 1:
        pat = subs[0].args[0].value
        try:
            res = [_re.sub(pat, '', s).rstrip('/') for s in ('_metadata', 'a/b/_metadata', '/x/_metadata/', 'a/b.parquet')]
            ok = res == ['', 'a/b', '/x', 'a/b.parquet']
            d = 'pattern %r maps _metadata, a/b/_metadata, /x/_metadata/, a/b.parquet to %s' % (pat, res)
        except _re.error as e:
            d = 'pattern %r: %s' % (pat, e)
    ctx.ob(rule, 'api.ParquetFile.basepath:strips-the-summary-file-name-also-from-a-bare-name', ok, d, api.loc(g))


def r1410(ctx, rule='R14.10'):
    """ParquetFile.__init__, glob pattern: the files are the ones the caller's pattern selects - the list handed to
    metadata_from_many is the glob result itself.  (The suffix filter belongs to the directory listing, which sees
    every file of the tree; a pattern says for itself what it wants.)"""
    api = ctx.repo['api']
    f = api.func('ParquetFile.__init__')
    cfg = CFG(f)
    rd = ReachingDefs(cfg)
    calls = [st for st in walk_no_nested(f) if isinstance(st, ast.Assign) and callee(st.value) == 'metadata_from_many'
             and any(isinstance(c, ast.Call) and norm(c.func).endswith('.glob') for c in ast.walk(f))]
    globs = [st for st in walk_no_nested(f) if isinstance(st, ast.Assign) and isinstance(st.value, ast.Call) and norm(st.value.func).endswith('.glob')]
    ctx.ob(rule, 'api.ParquetFile.__init__:glob-branch-present', len(globs) == 1, '', api.loc(f))
    if len(globs) != 1:
        return
    gname = norm(globs[0].targets[0])
    ok, seen = False, []
    for st in calls:
        arg = st.value.args[0] if st.value.args else None
        if not isinstance(arg, ast.Name):
            continue
        defs = rd.defs_reaching(cfg.node_of(st), arg.id)
        seen = [norm(cfg.nodes[d].stmt)[:70] for d in defs if d != cfg.entry]
        if cfg.node_of(globs[0]) in defs and arg.id == gname:
            ok = True
    ctx.ob(rule, 'api.ParquetFile.__init__:glob-result-opened-as-it-is', ok,
           'definitions of the file list that reach metadata_from_many: %s; the glob result is `%s`' % (seen, norm(globs[0])[:60]), api.loc(globs[0]))


def consolidate_rule(ctx, rule):
    """writer.consolidate_categories: the recorded number of categories is the running (numeric) maximum over every row
    group and chunk, compared against the value that is updated"""
    wr = ctx.repo['writer']
    cc = wr.func('consolidate_categories')
    ifs = [s for s in iter_child_stmts(cc.body) if isinstance(s, ast.If) and '>' in norm(s.test) and 'num_categories' in norm(s.test)]
    ok = len(ifs) == 1
    d = ''
    if ok:
        t = ifs[0].test
        cmp_ = [x for x in ast.walk(t) if isinstance(x, ast.Compare) and isinstance(x.ops[0], ast.Gt)]
        ok = len(cmp_) == 1 and len(ifs[0].body) == 1 and isinstance(ifs[0].body[0], ast.Assign)
        if ok:
            bound = norm(cmp_[0].comparators[0])
            tgt = norm(ifs[0].body[0].targets[0])
            new = norm(cmp_[0].left)
            d = 'if %s > %s: %s = %s' % (new, bound, tgt, norm(ifs[0].body[0].value))
            ok = bound == tgt and norm(ifs[0].body[0].value) == new
    ctx.ob(rule, 'writer.consolidate_categories:running-maximum-against-the-stored-value', ok,
           '%s (the bound compared against must be the value that is updated, otherwise the result is not the maximum over all row groups)' % d, wr.loc(cc))
    s = src(cc)
    ctx.ob(rule, 'writer.consolidate_categories:covers-every-row-group-and-chunk',
           'for rg in fmd.row_groups' in s and 'for col in rg.columns' in s and "key_value[2] = json.dumps(meta, sort_keys=True).encode()" in s, '', wr.loc(cc))
