"""C15 - LIST / MAP record assembly: the structural part.

What is decided: the Python driver threads the assembly cursor through the pages of a chunk, hands the loop the
nullability flags of the right schema levels, recognises LIST / MAP columns by the shape the specification gives
them, and the assembly loop (cencoding._assemble_objects, read through the Cython front end) takes its five branch
decisions - new row, value, null element, null row, continuation of the previous page's row - on the conditions the
record-assembly algorithm prescribes.  What is not decided: the result of running that loop on arbitrary level arrays."""
import ast

from ..model import AnalysisError, callee, norm, walk_no_nested, iter_child_stmts, kwarg
from ..cfg import CFG


def run(ctx):
    ctx.technique = ('def-use threading of the assembly cursor across pages, argument-position agreement with the loop\'s '
                     'signature, specification shape of the LIST/MAP predicates, branch-condition table of the assembly loop '
                     '(Cython source through the front end)')
    ctx.explanation = (
        'Decides: (R15.1) in the v1 page loop the row cursor handed to the assembly loop is the one it returned for the '
        'previous page (+1), bound once before the loop - a row may continue across a page boundary; (R15.2) v2 pages '
        'assemble into the window starting at the cursor and advance it by the page\'s row count; (R15.3) the loop gets '
        '`null` from the requiredness of the outer field and `max_defi` from the full path, in the positions its signature '
        'declares; (R15.4) _is_list_like / _is_map_like test exactly the shape the specification gives LIST and MAP '
        '(annotated group, one repeated child, one / two grand-children, key required); (R15.5) the loop starts a new row '
        'exactly on repetition level 0, appends a value exactly on the maximum definition level (advancing the value cursor '
        'with it), appends a null element for levels above the outer field\'s own, makes the row None for level 0 of an '
        'optional field, and treats entries collected before the first row start as the continuation of the previous '
        'page\'s last row (known finding K15a: it tests the value cursor instead of the collected entries); (R15.6) map '
        'rows are dict(zip(keys, values)) or None; (R15.7) on v2 pages the definition levels of a repeated column are decoded '
        'whatever the page\'s null count; (R15.8) every value arm of the v2 reader that a repeated column can reach assembles '
        'records or refuses them (the PLAIN arm does neither: known finding K15b).')
    ctx.not_decided = ('the lists / dicts produced for arbitrary repetition and definition level arrays (the loop is data '
                       'dependent; only its branch conditions are compared with the algorithm), dictionary dereference, '
                       'nesting deeper than one level (refused elsewhere)')
    ctx.trusted_base.append('engine/pyxfront.py (Cython subset front end)')
    core, sch, cen = ctx.repo['core'], ctx.repo['schema'], ctx.repo['cencoding']
    r151(ctx, core)
    r152(ctx, core)
    r153(ctx, core, cen)
    r154(ctx, sch)
    r155(ctx, cen)
    r156(ctx, core)
    r157(ctx, core)
    r158(ctx, core)
    from . import callsigs as _cs
    from . import findings3 as _f3
    _f3.assembly_flags(ctx, 'R15.9')
    _cs.general_rules(ctx, 'R15', ['core.read_col', 'core.read_row_group_arrays', 'core.read_data_page', 'core.read_rep', 'core.read_def',
                                   'schema._is_list_like', 'schema._is_map_like', 'schema.SchemaHelper'])


def _asm_calls(f):
    return [c for c in walk_no_nested(f) if isinstance(c, ast.Call) and (callee(c) or '').endswith('_assemble_objects')]


def r151(ctx, core):
    f = core.func('read_col')
    calls = _asm_calls(f)
    ctx.floor('R15.1', 'assembly calls in the v1 page loop', len(calls), 1)
    loops = [x for x in f.body if isinstance(x, ast.While)]
    init = [st for st in f.body if isinstance(st, ast.Assign) and norm(st.targets[0]) == 'row_idx']
    ok_init = len(init) == 1 and norm(init[0].value) == '[0]' and bool(loops) and init[0].lineno < loops[0].lineno and \
        not any(isinstance(x, ast.Assign) and norm(x.targets[0]) == 'row_idx' for x in ast.walk(loops[0]))
    ctx.ob('R15.1', 'core.read_col:row-cursor-bound-once-before-the-page-loop', ok_init,
           'a cursor re-created per page forgets where the previous page\'s last row is', core.loc(f))
    for c in calls:
        st = [s for s in iter_child_stmts(f.body) if isinstance(s, ast.Assign) and any(y is c for y in ast.walk(s))]
        # the new cursor is the index the loop filled last plus one - plus nothing for a page that started no row (it
        # only continued the previous page's row; the loop then returns the cursor it was given)
        other = None
        if st and isinstance(st[0].value, ast.BinOp) and isinstance(st[0].value.op, ast.Add):
            other = st[0].value.right if any(y is c for y in ast.walk(st[0].value.left)) else st[0].value.left
        plus = other is not None and (norm(other) == '1' or (
            isinstance(other, ast.IfExp) and norm(other.body) == '1' and norm(other.orelse) == '0' and norm(other.test) in ('(rep == 0).any()', 'not rep.all()')))
        ok = bool(st) and norm(st[0].targets[0]) == 'row_idx[0]' and plus and norm(c.args[-1]) == 'row_idx[0]' and len(c.args) == 10
        ctx.ob('R15.1', 'core.read_col:a-page-that-starts-no-row-leaves-the-cursor-where-it-was',
               isinstance(other, ast.IfExp), '`%s`: the loop returns the cursor it was given when the page holds continuation '
               'entries only; adding 1 regardless shifts every later row (and writes past the output)' % (norm(st[0])[:90] if st else '?'), core.loc(c))
        ctx.ob('R15.1', 'core.read_col:cursor-is-one-past-the-row-the-previous-page-ended-in', ok,
               '`%s`: the loop returns the index of the last row it filled; the next page must be told 1 + that' % (norm(st[0])[:110] if st else norm(c)[:80]), core.loc(c))


def r152(ctx, core):
    f = core.func('read_data_page_v2')
    calls = _asm_calls(f)
    ctx.floor('R15.2', 'assembly calls in the v2 page reader', len(calls), 1)
    for c in calls:
        tgt = norm(c.args[0]) if c.args else ''
        ok = tgt == 'assign[idx[0]:idx[0] + data_header2.num_rows]'
        pi = kwarg(c, 'prev_i', 9)
        ok = ok and pi is not None and norm(pi) == '0'
        blk = [b for b in _blocks(f.body) if any(isinstance(x, ast.Expr) and x.value is c for x in b)]
        adv = False
        if blk:
            i = [k for k, x in enumerate(blk[0]) if isinstance(x, ast.Expr) and x.value is c][0]
            adv = i + 1 < len(blk[0]) and norm(blk[0][i + 1]) == 'idx[0] += data_header2.num_rows'
        ctx.ob('R15.2', 'core.read_data_page_v2:rows-assembled-into-the-cursor-window-then-cursor-advanced', ok and adv,
               'v2 pages hold whole rows: window assign[idx[0]:idx[0]+num_rows], prev_i=0, then idx[0] += num_rows (got `%s`)' % tgt, core.loc(c))
    rc = core.func('read_col')
    v2 = [c for c in walk_no_nested(rc) if isinstance(c, ast.Call) and callee(c) == 'read_data_page_v2']
    ctx.ob('R15.2', 'core.read_col:v2-reader-shares-the-row-cursor', len(v2) == 1 and any(norm(a) == 'row_idx' for a in v2[0].args), '', core.loc(rc))


def r153(ctx, core, cen):
    f = core.func('read_col')
    asm = cen.func('_assemble_objects')
    params = [a.arg for a in asm.args.args]
    want = ['assign', 'defi', 'rep', 'val', 'dic', 'd', 'null', 'null_val', 'max_defi', 'prev_i']
    ctx.ob('R15.3', 'cencoding._assemble_objects:signature', params == want, str(params), cen.loc(asm))
    for c in _asm_calls(f):
        got = [norm(a) for a in c.args]
        # (position 4 carries the values: dictionary indices, or plain values after conversion)
        ok = len(got) == 10 and got[:3] == ['assign', 'defi', 'rep'] and got[4:9] == ['dic', 'd', 'null', 'null_val', 'max_defi'] \
            and got[3] in ('val', 'val if d else convert(val, se)')
        ctx.ob('R15.3', 'core.read_col:plain-values-of-a-repeated-column-are-converted-like-dictionary-labels',
               got[3] == 'val if d else convert(val, se)' if len(got) == 10 else False,
               'values handed to the loop: `%s`; the dictionary was converted when its page was read, plain values must be '
               'converted here or the two kinds of page disagree within one chunk' % (got[3] if len(got) > 3 else '?'), core.loc(c))
        ctx.ob('R15.3', 'core.read_col:arguments-in-the-positions-the-loop-declares', ok, str(got), core.loc(c))
    defs = {norm(s.targets[0]): norm(s.value) for s in iter_child_stmts(f.body) if isinstance(s, ast.Assign) and len(s.targets) == 1}
    ctx.ob('R15.3', 'core.read_col:row-nullability-from-the-outer-field', defs.get('null') == 'not schema_helper.is_required(cmd.path_in_schema[0])',
           'null = %s' % defs.get('null'), core.loc(f))
    ctx.ob('R15.3', 'core.read_col:max-definition-level-of-the-full-path', defs.get('max_defi') == 'schema_helper.max_definition_level(cmd.path_in_schema)',
           'max_defi = %s' % defs.get('max_defi'), core.loc(f))


def _conds(f, module=None):
    """the `if <cond>: return False` conditions of a predicate, in order.  A shared front part moved into a helper
    counts too: `v = helper(..)` directly followed by `if v is None: return False` contributes the helper's
    `if <cond>: return None` conditions with the arguments written in for its parameters.  The single-assignment
    temporary `ct = se.converted_type` is written out."""
    import copy
    out = []

    def text(t, bound=None, fn=None):
        t = copy.deepcopy(t)

        class _S(ast.NodeTransformer):
            def visit_Name(self, n):
                if bound and n.id in bound and isinstance(n.ctx, ast.Load):
                    return copy.deepcopy(bound[n.id])
                if n.id == 'ct' and isinstance(n.ctx, ast.Load):
                    return ast.parse('se.converted_type', mode='eval').body
                return n
        return norm(_S().visit(t))
    body = f.body
    for i, st in enumerate(body):
        if isinstance(st, ast.If) and len(st.body) == 1 and isinstance(st.body[0], ast.Return) and norm(st.body[0].value) == 'False':
            prev = body[i - 1] if i else None
            m = None
            if isinstance(st.test, ast.Compare) and len(st.test.ops) == 1 and isinstance(st.test.ops[0], ast.Is) and \
                    isinstance(st.test.left, ast.Name) and norm(st.test.comparators[0]) == 'None' and isinstance(prev, ast.Assign) and \
                    len(prev.targets) == 1 and norm(prev.targets[0]) == st.test.left.id and isinstance(prev.value, ast.Call) and \
                    isinstance(prev.value.func, ast.Name) and module is not None and prev.value.func.id in module.funcs:
                m = module.funcs[prev.value.func.id]
            if m is None:
                out.append(text(st.test))
                continue
            params = [a.arg for a in m.args.args]
            bound = dict(zip(params, prev.value.args))
            bound.update({k.arg: k.value for k in prev.value.keywords if k.arg})
            for st2 in m.body:
                if isinstance(st2, ast.If) and len(st2.body) == 1 and isinstance(st2.body[0], ast.Return) and \
                        (st2.body[0].value is None or norm(st2.body[0].value) == 'None') and not st2.orelse:
                    out.append(text(st2.test, bound))
    return out


def r154(ctx, sch):
    lst, mp = sch.func('_is_list_like'), sch.func('_is_map_like')
    want_l = ['len(column.meta_data.path_in_schema) < 3', 'se.converted_type != parquet_thrift.ConvertedType.LIST', "len(se['children']) > 1",
              "len(se2['children']) > 1", 'se2.repetition_type != parquet_thrift.FieldRepetitionType.REPEATED',
              'se3.repetition_type == parquet_thrift.FieldRepetitionType.REPEATED']
    want_m = ['len(column.meta_data.path_in_schema) < 3', 'se.converted_type != parquet_thrift.ConvertedType.MAP', "len(se['children']) > 1",
              "len(se2['children']) != 2", 'se2.repetition_type != parquet_thrift.FieldRepetitionType.REPEATED',
              "set(se2['children']) != {'key', 'value'}", 'se3.repetition_type != parquet_thrift.FieldRepetitionType.REQUIRED',
              'se3.repetition_type == parquet_thrift.FieldRepetitionType.REPEATED']
    why = {0: 'outer group / repeated group / leaf: three path levels', 1: 'the outer group carries the annotation',
           2: 'the annotated group has exactly one child', 3: 'the repeated group has one element (LIST) / key and value (MAP)',
           4: 'the middle level is the repeated one'}
    import copy
    from .. import pathcond as pc
    for f, want, tag in ((lst, want_l, 'LIST'), (mp, want_m, 'MAP')):
        got = _conds(f, sch)
        # the condition under which the predicate says no, as a formula over its elementary tests: whichever way the
        # refusals are laid out (flat guard clauses, a front part in a helper, a sentinel tested afterwards), it must be
        # exactly "one of the listed shape tests holds"
        g = copy.deepcopy(f)

        class _Ct(ast.NodeTransformer):
            def visit_Name(self, n):
                if n.id == 'ct' and isinstance(n.ctx, ast.Load):
                    return ast.copy_location(ast.parse('se.converted_type', mode='eval').body, n)
                return n
        g = _Ct().visit(g)
        r = pc.reach(g)
        refuse = pc._or([r[id(x)] for x in ast.walk(g) if isinstance(x, ast.Return) and id(x) in r and x.value is not None and norm(x.value) == 'False'])
        refuse = pc._strip(pc.none_sentinels(g, refuse, r))
        wf = [pc._strip(pc.formula(ast.parse(w, mode='eval').body)) for w in want]
        names = sorted(pc.atoms(refuse) | set().union(*[pc.atoms(x) for x in wf]))
        flat_ok = all(w in got for w in want) and len(got) == len(want)
        for i, w in enumerate(want):
            if w in got:
                ok = True
            else:
                # only this test holds -> the predicate must say no
                ok = False
                # (set the atoms so that wf[i] is true and every other listed test is false, if that is possible)
                import itertools
                for vals in itertools.product((False, True), repeat=len(names)) if len(names) <= 14 else ():
                    e_ = dict(zip(names, vals))
                    if pc._eval(wf[i], e_) and not any(pc._eval(o, e_) for j, o in enumerate(wf) if j != i):
                        ok = pc._eval(refuse, e_)
                        if not ok:
                            break
            ctx.ob('R15.4', 'schema.%s:refuses-shape-%d:%s' % (f.name, i, w[:50]), ok,
                   '%s shape test `%s` (%s); present tests: %s; refusal condition: %s' % (
                       tag, w, why.get(i, 'leaf repetition / key requiredness'), got, pc.dumps(refuse)[:300]), sch.loc(f))
        other = len(got) == len(want) if flat_ok else (len(names) <= 14 and pc.implies(refuse, pc._or(wf)) is True)
        ctx.ob('R15.4', 'schema.%s:no-other-refusal' % f.name, other, '%d refusal tests; refusal condition: %s' % (len(got), pc.dumps(refuse)[:300]), sch.loc(f))
        ctx.ob('R15.4', 'schema.%s:accepts-otherwise' % f.name, norm(f.body[-1]) == 'return True', '', sch.loc(f))
        bodies = list(f.body)
        for st in f.body:          # (a shared front part in a helper of this module is looked into)
            if isinstance(st, ast.Assign) and isinstance(st.value, ast.Call) and isinstance(st.value.func, ast.Name) and st.value.func.id in sch.funcs \
                    and st.value.func.id.startswith('_'):
                bodies += list(sch.funcs[st.value.func.id].body)
        anc = [st for b_ in bodies for st in ast.walk(b_) if isinstance(st, ast.Assign) and norm(st.targets[0]) == 'se']
        ctx.ob('R15.4', 'schema.%s:annotation-read-from-the-grandparent-of-the-leaf' % f.name,
               len(anc) == 1 and 'column.meta_data.path_in_schema[:-2]' in norm(anc[0].value), '', sch.loc(f))


def r155(ctx, cen):
    f = cen.func('_assemble_objects')
    loops = [x for x in f.body if isinstance(x, ast.For)]
    if len(loops) != 1:
        raise AnalysisError('R15.5: assembly loop not found')
    lp = loops[0]
    ifs = [x for x in lp.body if isinstance(x, ast.If)]
    newrow = [x for x in ifs if norm(x.test) == 'not re']
    ctx.ob('R15.5', 'cencoding._assemble_objects:new-row-exactly-on-repetition-level-zero', len(newrow) == 1, str([norm(x.test) for x in ifs]), cen.loc(lp))
    val = [x for x in ifs if norm(x.test) == 'de == max_defi']
    ok = len(val) == 1 and [norm(s) for s in val[0].body] == ['part.append(val[vali])', 'vali += 1']
    ctx.ob('R15.5', 'cencoding._assemble_objects:value-appended-exactly-on-the-maximum-definition-level', ok,
           'and the value cursor advances with it', cen.loc(val[0]) if val else cen.loc(lp))
    nul = val[0].orelse if val else []
    ok = len(nul) == 1 and isinstance(nul[0], ast.If) and norm(nul[0].test) == 'de > null' and [norm(s) for s in nul[0].body] == ['part.append(None)'] and not nul[0].orelse
    ctx.ob('R15.5', 'cencoding._assemble_objects:null-element-for-levels-above-the-outer-fields-own', ok,
           'definition levels between the outer field\'s (0 required / 1 optional) and the maximum are null elements; the '
           'outer field\'s own level is an empty list and appends nothing', cen.loc(lp))
    hn = [s for s in lp.body if isinstance(s, ast.Assign) and norm(s.targets[0]) == 'have_null']
    ctx.ob('R15.5', 'cencoding._assemble_objects:row-is-None-exactly-for-level-zero-of-an-optional-field',
           len(hn) == 1 and norm(hn[0].value) == 'de == 0 and null', norm(hn[0]) if hn else '', cen.loc(lp))
    flush = [s for s in ast.walk(f) if isinstance(s, ast.Assign) and norm(s.targets[0]) == 'assign[i]']
    ctx.ob('R15.5', 'cencoding._assemble_objects:row-stored-as-None-or-the-collected-list',
           len(flush) == 2 and all(norm(s.value) == 'None if have_null else part' for s in flush), str([norm(s) for s in flush]), cen.loc(f))
    # continuation of the previous page's last row
    cont = None
    if newrow:
        st = [x for x in newrow[0].body if isinstance(x, ast.If) and norm(x.test) == 'started']
        if st and st[0].orelse:
            inner = [x for x in st[0].orelse if isinstance(x, ast.If)]
            cont = inner[0] if inner else None
    okc = cont is not None and 'assign[i - 1].extend(part)' in [norm(s) for s in cont.body]
    ctx.ob('R15.5', 'cencoding._assemble_objects:entries-before-the-first-row-start-extend-the-previous-row', okc, '', cen.loc(cont) if cont is not None else cen.loc(lp))
    t = norm(cont.test) if cont is not None else ''
    ctx.ob('R15.5', 'cencoding._assemble_objects:continuation-recognised-by-the-collected-entries', t in ('part', 'len(part) > 0', 'len(part)', 'part != []'),
           'the test is `%s`: entries collected before the first repetition-level-0 entry of a page belong to the previous '
           'page\'s last row whether or not one of them is a value; with `vali > 0` a continuation made of null elements only is '
           'not appended there and leaks into the next row' % t, cen.loc(cont) if cont is not None else cen.loc(lp))
    ret = [s for s in f.body if isinstance(s, ast.Return)]
    ctx.ob('R15.5', 'cencoding._assemble_objects:returns-the-index-of-the-last-row-filled', len(ret) == 1 and norm(ret[0].value) == 'i', '', cen.loc(f))
    start = [s for s in f.body if isinstance(s, ast.Assign) and norm(s.targets[0]) == 'i']
    ctx.ob('R15.5', 'cencoding._assemble_objects:starts-at-the-cursor-it-was-given', len(start) == 1 and norm(start[0].value) == 'prev_i', '', cen.loc(f))


def r156(ctx, core):
    f = core.func('read_row_group_arrays')
    comp = [x for x in walk_no_nested(f) if isinstance(x, ast.ListComp) and 'dict(zip(' in norm(x)]
    ok = len(comp) == 1 and norm(comp[0].elt) == 'dict(zip(k, v)) if k is not None else None' and norm(comp[0].generators[0].iter) == 'zip(key, value)'
    ctx.ob('R15.6', 'core.read_row_group_arrays:map-row-is-dict-of-keys-and-values-or-None', ok, norm(comp[0])[:100] if comp else '', core.loc(f))
    name = [st for st in walk_no_nested(f) if isinstance(st, ast.Assign) and norm(st.targets[0]) == 'name' and '[:-2]' in norm(st.value)]
    ctx.ob('R15.6', 'core.read_row_group_arrays:nested-column-named-by-its-outer-field', len(name) == 1, '', core.loc(f))


def _blocks(stmts):
    yield stmts
    for st in stmts:
        if isinstance(st, (ast.FunctionDef, ast.AsyncFunctionDef, ast.ClassDef)):
            continue
        for fld in ('body', 'orelse', 'finalbody'):
            sub = getattr(st, fld, None)
            if isinstance(sub, list) and sub:
                yield from _blocks(sub)
        for h in getattr(st, 'handlers', []) or []:
            yield from _blocks(h.body)


def r157(ctx, core, rule='R15.7'):
    """v2 pages: the definition levels of a repeated column are decoded whenever the column is repeated - record assembly
    needs them also for a page in which every value is present (num_nulls == 0); the block that decodes them is not
    conditional on the null count alone"""
    f = core.func('read_data_page_v2')
    blocks = [st for st in iter_child_stmts(f.body) if isinstance(st, ast.If) and 'max_def' in norm(st.test)
              and any(isinstance(a_, ast.Assign) and norm(a_.targets[0]) == 'defi' for a_ in ast.walk(st))]
    if len(blocks) != 1:
        raise AnalysisError('R15.7: the block that decodes the definition levels of a v2 page was not found')
    t = blocks[0].test
    # the test holds for a repeated column whatever num_nulls is: evaluate it with num_nulls = 0, max_def = max_rep = 1
    conj = t.values if isinstance(t, ast.BoolOp) and isinstance(t.op, ast.And) else [t]
    ok = True
    for c in conj:
        names = {norm(x) for x in ast.walk(c) if isinstance(x, (ast.Name, ast.Attribute))}
        if any(n_.endswith('num_nulls') for n_ in names) and 'max_rep' not in names:
            ok = False
    ctx.ob(rule, 'core.read_data_page_v2:levels-of-a-repeated-column-read-whatever-the-null-count', ok,
           '`if %s:` - with num_nulls == 0 the levels of a LIST / MAP column stay unread and assembly fails on the unbound '
           'name' % norm(t), core.loc(blocks[0]))


def r158(ctx, core, rule='R15.8'):
    """v2 pages: every arm of the value dispatch that a repeated column can reach either assembles records (calls
    _assemble_objects under `max_rep`) or refuses it; an arm that scatters values with the level-length null mask as if
    the column were flat fails (or mis-assigns) for LIST / MAP columns.  The PLAIN arm does so: known finding K15b."""
    f = core.func('read_data_page_v2')
    arms = []
    for st in iter_child_stmts(f.body):
        if isinstance(st, ast.If) and 'data_header2.encoding' in norm(st.test) and st in f.body:
            x = st
            while isinstance(x, ast.If):
                arms.append(x)
                x = x.orelse[0] if len(x.orelse) == 1 and isinstance(x.orelse[0], ast.If) else None
    if not arms:
        raise AnalysisError('R15.8: value dispatch of read_data_page_v2 not found')
    n = 0
    for a_ in arms:
        t = norm(a_.test)
        if 'max_rep == 0' in t or 'into' in t.split(' and ')[0:1] or 'use_cat' in t or ' not in ' in t:
            continue        # arms that exclude repeated columns by their own test (in-place / category outputs)
        enc = 'PLAIN' if t.endswith('Encoding.PLAIN') else 'DICTIONARY' if 'DICTIONARY' in t else 'DELTA' if 'DELTA' in t else None
        if enc is None:
            continue
        n += 1
        body = ast.Module(body=a_.body, type_ignores=[])
        assembles = any(isinstance(c, ast.Call) and (callee(c) or '').endswith('_assemble_objects') for c in ast.walk(body))
        refuses = any(isinstance(x, ast.If) and 'max_rep' in norm(x.test) and any(isinstance(r, ast.Raise) for r in x.body) for x in ast.walk(body))
        if enc == 'DELTA':
            continue        # integers only: a repeated delta column is refused by the dtype test upstream (object output)
        ctx.ob(rule, 'core.read_data_page_v2:%s-v2-page-of-a-repeated-column-is-assembled' % enc.lower().replace('dictionary', 'dictionary'),
               assembles or refuses, 'arm `%s` neither calls _assemble_objects nor refuses repeated columns' % t[:70], core.loc(a_))
    ctx.floor(rule, 'value arms of the v2 reader open to repeated columns', n, 2)
