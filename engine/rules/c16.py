"""C16 - user key-value metadata is kept verbatim; in-place updates touch nothing else."""
import ast

from ..model import AnalysisError, callee, norm, src, walk_no_nested, iter_child_stmts, kwarg, const_value
from ..cfg import CFG, ReachingDefs
from .. import effects as fx
from .c02 import _file_effect


def run(ctx):
    ctx.technique = 'typestate of the in-place footer rewrite on the CFG, field-store whitelist, reaching definitions for position agreement'
    ctx.explanation = (
        'Decides: (R16.1) a function that rewrites a footer in place ends, on every normal path and '
        'unconditionally, with truncate() after the closing magic; (R16.2) the update path stores only into '
        'the key-value field and mutates only the list loaded from it, keeping the parallel key list in step; '
        '(R16.3) the footer is written from exactly the offset it was parsed from (same reaching definition '
        'of the offset, 4 for metadata files or end-8-size with size read from the tail); (R16.4) key/value '
        'types are validated before any byte is written and the caller\'s dict always reaches the footer; '
        '(R16.5) the read side decodes key and value through the same helper and flag; (R16.6) None is the '
        'only removal sentinel. Cross-reference: re-serialising a foreign footer is subject to K10a/K10b.')
    ctx.not_decided = 'merge semantics for arbitrary update sequences beyond the None-sentinel rule; losslessness of the re-serialised footer (C10)'
    wr, ut, api = ctx.repo['writer'], ctx.repo['util'], ctx.repo['api']
    r161(ctx, wr)
    r162(ctx, wr, ut)
    r163(ctx, wr)
    r164(ctx, wr)
    r165(ctx, api)
    r166(ctx, ut)
    from . import c14
    r168(ctx, wr)
    r169(ctx)
    from . import append_route as _ar16
    _ar16.parts_first_rule(ctx, 'R16.10')   # _metadata then _common_metadata, the second named after the first
    from . import c02 as _c02
    _c02.r22(ctx)
    c14.r145(ctx, 'R16.7')
    from . import callsigs as _cs
    from . import findings3 as _f3o
    _f3o.open_routes(ctx, 'R16.9')      # a file whose key-values are to be read must open: the footer is found from the end
    _cs.who_may_call_rule(ctx, 'R16.CS16')
    _cs.general_rules(ctx, 'R16', ['writer.write', 'writer.update_file_custom_metadata', 'util.update_custom_metadata', 'writer.write_simple', 'writer.write_multi', 'writer.write_common_metadata', 'writer.consolidate_categories'])


def _inplace_sites(repo):
    """functions that open a file 'rb+' (or r+b) and write a footer into it"""
    wr = repo['writer']
    out = []
    for q, f in wr.funcs.items():
        for k, c in fx.direct_effects(f):
            if k == 'OPEN':
                mode = fx.mode_of(c)
                if mode is None:
                    # mode variable: look for its definition
                    marg = kwarg(c, 'mode', 1)
                    d = [s for s in iter_child_stmts(f.body) if isinstance(s, ast.Assign) and norm(s.targets[0]) == norm(marg)]
                    if d and "'rb+'" in norm(d[0].value):
                        out.append((q, f, c, 'rb+ (conditional: %s)' % norm(d[0].value)))
                elif '+' in mode and 'r' in mode:
                    out.append((q, f, c, mode))
    return out


def r161(ctx, wr):
    sites = _inplace_sites(ctx.repo)
    ctx.floor('R16.1', 'functions that open a file for in-place update', len(sites), 1)
    for q, f, c, mode in sites:
        if q == 'write_simple':
            # the append writer starts the new footer at the old footer start and writes the new row groups, the
            # re-serialised footer, its length and the magic.  What it writes can be SHORTER than the footer it
            # replaces (key-value entries removed on the handle before the append; K10a with nothing appended): on the
            # append path the closing magic is followed by truncate().  (The design round exempted this writer -
            # "the file can only grow" - which a hunting report refuted with a witness; repaired in 4192395.)
            g = wr.func('write_simple.write_to_file')
            trys = [t for t in iter_child_stmts(g.body) if isinstance(t, ast.Try)]
            okt, dt = False, 'no try block'
            if trys:
                body = trys[0].body
                mk = [i for i, st in enumerate(body) if norm(st) == 'f.write(MARKER)']
                dt = 'closing magic not found in the try body'
                if mk:
                    after = body[mk[-1] + 1:]
                    dt = 'after the closing magic: %s' % [norm(x)[:40] for x in after]
                    for x in after:
                        if norm(x) == 'f.truncate()':
                            okt = True
                        if isinstance(x, ast.If) and norm(x.test) == 'append' and any(norm(y) == 'f.truncate()' for y in x.body):
                            okt = True
            ctx.ob('R16.1', 'writer.write_to_file:append-ends-with-truncate', okt, dt, wr.loc(g))
            continue
        else:
            target = f
            w = [s for s in iter_child_stmts(f.body) if isinstance(s, ast.With) and any(i.context_expr is c for i in s.items)]
            fvar = norm(w[0].items[0].optional_vars) if w else 'f'
            key = 'writer.%s' % q
        cfg = CFG(target)
        handler_nodes = set()
        for n in cfg.nodes:
            if n.kind == 'handler':
                handler_nodes |= cfg.reach({n.id})
        magic, trunc = [], []
        for n in cfg.nodes:
            if n.stmt is None or n.kind == 'handler' or n.id in handler_nodes:
                continue
            e = _file_effect(n.stmt, fvar, wr)
            for kind, _ in e or []:
                if kind == 'magic':
                    magic.append(n.id)
                elif kind == 'truncate':
                    trunc.append(n.id)
        # closing magic = magic writes that follow a footer length write
        closing = [m_ for m_ in magic if any(
            any(k == 'length' for k, _ in (_file_effect(cfg.nodes[p].stmt, fvar, wr) or []))
            for p in cfg.reach({m_}, forward=False) if cfg.nodes[p].stmt is not None)]
        if not closing:
            raise AnalysisError('R16.1: closing magic of %s not found' % key)
        for m_ in closing:
            ok = cfg.must_pass_to_exit(m_, set(trunc)) and bool(trunc)
            # unconditional: the truncate has no enclosing test that the magic write does not share
            if ok:
                enc_m = [id(e) for e, _ in cfg.enclosing_tests(cfg.nodes[m_].stmt) if isinstance(e, (ast.If, ast.While, ast.For))]
                for t in trunc:
                    if t in cfg.reach({m_}):
                        enc_t = [e for e, _ in cfg.enclosing_tests(cfg.nodes[t].stmt) if isinstance(e, (ast.If, ast.While, ast.For))]
                        extra = [norm(e.test) for e in enc_t if id(e) not in enc_m and isinstance(e, ast.If)]
                        if extra:
                            ok = False
            early = [t for t in trunc if t not in cfg.reach({m_})]
            ctx.ob('R16.1', '%s:no-truncate-before-the-new-footer-is-written' % key, not early,
                   'truncate() before the new footer has been written (and validated) destroys the old footer when the update '
                   'is refused: %s' % [norm(cfg.nodes[t].stmt) for t in early], wr.loc(cfg.nodes[m_].stmt))
            appending_only = (q == 'write_simple')
            ctx.ob('R16.1', '%s:in-place-footer-rewrite-ends-with-unconditional-truncate' % key, ok,
                   'opened %s; after the closing magic every normal path must truncate() so that a footer that '
                   'shrinks leaves no stale tail%s' % (mode, ' (append: the new footer can be shorter than the old '
                                                        'one when no row group is added to a foreign file)' if appending_only else ''),
                   wr.loc(cfg.nodes[m_].stmt))


def r162(ctx, wr, ut):
    f = wr.func('update_file_custom_metadata')
    stores = [s for s in walk_no_nested(f) if isinstance(s, (ast.Assign, ast.AugAssign, ast.Delete))
              and any(isinstance(t, (ast.Attribute, ast.Subscript)) and 'fmd' in norm(t)
                      for t in (s.targets if not isinstance(s, ast.AugAssign) else [s.target]))]
    ctx.ob('R16.2', 'writer.update_file_custom_metadata:no-direct-store-into-the-parsed-footer', not stores,
           '; '.join(norm(s) for s in stores) or 'only update_custom_metadata(fmd, ...) touches it', wr.loc(f))
    calls = [c for c in walk_no_nested(f) if isinstance(c, ast.Call) and any(norm(a) == 'fmd' for a in c.args)]
    ctx.ob('R16.2', 'writer.update_file_custom_metadata:footer-passed-only-to-update-and-serialise',
           sorted(callee(c) for c in calls) == ['update_custom_metadata', 'write_thrift'],
           str(sorted(callee(c) or '?' for c in calls)), wr.loc(f))
    g = ut.func('update_custom_metadata')
    bad = []
    n = 0
    for s in iter_child_stmts(g.body):
        tg = []
        if isinstance(s, ast.Assign):
            tg = s.targets
        elif isinstance(s, ast.AugAssign):
            tg = [s.target]
        elif isinstance(s, ast.Delete):
            tg = s.targets
        for t in tg:
            if isinstance(t, ast.Attribute):
                n += 1
                if t.attr not in ('key_value_metadata', '_kvm') or norm(t.value) not in ('obj', 'obj.fmd'):
                    bad.append(norm(s))
            elif isinstance(t, ast.Subscript):
                n += 1
                if norm(t.value) not in ('kvm', 'kvm_keys'):
                    bad.append(norm(s))
    for c in walk_no_nested(g):
        if isinstance(c, ast.Call) and isinstance(c.func, ast.Attribute) and c.func.attr in (
                'append', 'extend', 'pop', 'remove', 'insert', 'clear', 'sort', 'update', 'setdefault'):
            n += 1
            if norm(c.func.value) not in ('kvm', 'kvm_keys'):
                bad.append(norm(c))
    ctx.floor('R16.2', 'stores/mutations in update_custom_metadata', n, 6)
    ctx.ob('R16.2', 'util.update_custom_metadata:only-the-key-value-field-is-modified', not bad,
           '; '.join(bad) or '%d stores, all on key_value_metadata / the list loaded from it' % n, ut.loc(g))
    src_def = [s for s in g.body if isinstance(s, ast.Assign) and norm(s.targets[0]) == 'kvm']
    ctx.ob('R16.2', 'util.update_custom_metadata:list-is-loaded-from-the-key-value-field',
           len(src_def) >= 1 and 'key_value_metadata' in norm(src_def[0].value), norm(src_def[0]) if src_def else '', ut.loc(g))
    # parallel key list stays in step: each del kvm[idx] is paired with del kvm_keys[idx] in the same block
    dels = [s for s in iter_child_stmts(g.body) if isinstance(s, ast.Delete)]
    pm = {}
    for parent in ast.walk(g):
        for fld in ('body', 'orelse'):
            sub = getattr(parent, fld, None)
            if isinstance(sub, list):
                for ch in sub:
                    if isinstance(ch, ast.AST):
                        pm[ch] = (parent, fld)
    ok = True
    why = []
    loops = [s for s in g.body if isinstance(s, ast.For) and 'custom_metadata.items()' in norm(s.iter)]
    inner = set(iter_child_stmts(loops[0].body)) if loops else set()
    for d in dels:
        t = norm(d.targets[0])
        if t.startswith('kvm['):
            par, fld = pm.get(d, (None, None))
            sibs = [norm(x) for x in getattr(par, fld, [])] if par is not None else []
            idx = t[4:-1]
            if 'del kvm_keys[%s]' % idx not in sibs:
                ok = False
                why.append('%s not paired with del kvm_keys[%s]' % (norm(d), idx))
            if d not in inner:
                ok = False
                why.append('%s happens outside the per-key loop (positions found earlier are stale after a deletion)' % norm(d))
    idxdef = [s for s in iter_child_stmts(g.body) if isinstance(s, ast.Assign) and norm(s.targets[0]) == 'idx']
    ok = ok and len(idxdef) == 1 and norm(idxdef[0].value) == 'kvm_keys.index(key_b)' and idxdef[0] in inner
    ctx.ob('R16.2', 'util.update_custom_metadata:removal-keeps-key-index-in-step', ok and len(dels) >= 2,
           '; '.join(why) or 'del kvm[idx]; del kvm_keys[idx] with idx = kvm_keys.index(key_b) of this iteration', ut.loc(g))
    # every stored entry is a KeyValue of bytes key/value derived from the caller's pair
    kv = [c for c in walk_no_nested(g) if isinstance(c, ast.Call) and callee(c) == 'parquet_thrift.KeyValue']
    ok = len(kv) == 2 and all(norm(kwarg(c, 'key')) == 'key_b' and norm(kwarg(c, 'value')) == 'ensure_bytes(value)' for c in kv)
    ctx.ob('R16.2', 'util.update_custom_metadata:entries-built-from-the-callers-pair', ok, '; '.join(norm(c) for c in kv), ut.loc(g))


def r163(ctx, wr):
    f = wr.func('update_file_custom_metadata')
    cfg = CFG(f)
    rd = ReachingDefs(cfg)
    seeks = [s for s in iter_child_stmts(f.body) if isinstance(s, ast.Expr) and norm(s.value) == 'f.seek(loc)']
    ctx.ob('R16.3', 'writer.update_file_custom_metadata:two-seeks-to-loc', len(seeks) == 2,
           'one before parsing the old footer, one before writing the new one', wr.loc(f))
    if len(seeks) == 2:
        d0 = rd.defs_reaching(cfg.node_of(seeks[0]), 'loc')
        d1 = rd.defs_reaching(cfg.node_of(seeks[1]), 'loc')
        ctx.ob('R16.3', 'writer.update_file_custom_metadata:write-offset-is-the-read-offset', d0 == d1 and bool(d0),
               'definitions of loc reaching the read seek %s and the write seek %s' % (sorted(d0), sorted(d1)), wr.loc(seeks[1]))
        # nothing between the write seek and write_thrift moves the handle
        wt = [s for s in iter_child_stmts(f.body) if isinstance(s, ast.Assign) and callee(s.value) == 'write_thrift']
        ok = len(wt) == 1
        if ok:
            a, b = cfg.node_of(seeks[1]), cfg.node_of(wt[0])
            between = cfg.reach(cfg.succ[a], avoid={b}) & cfg.reach({b}, forward=False)
            moved = [norm(cfg.nodes[n].stmt) for n in between if cfg.nodes[n].stmt is not None
                     and _file_effect(cfg.nodes[n].stmt, 'f', wr)]
            ok = not moved and cfg.dominates(a, b)
        ctx.ob('R16.3', 'writer.update_file_custom_metadata:footer-written-directly-after-positioning', ok, '', wr.loc(f))
        # the data parsed is everything from loc
        rdata = [s for s in iter_child_stmts(f.body) if isinstance(s, ast.Assign) and norm(s.targets[0]) == 'data']
        ctx.ob('R16.3', 'writer.update_file_custom_metadata:footer-parsed-from-loc',
               len(rdata) == 1 and norm(rdata[0].value) == 'f.read()' and
               cfg.dominates(cfg.node_of(seeks[0]), cfg.node_of(rdata[0])), norm(rdata[0]) if rdata else '', wr.loc(f))
    defs = {norm(s.targets[0]): norm(s.value) for s in iter_child_stmts(f.body) if isinstance(s, ast.Assign)
            and norm(s.targets[0]) in ('loc0', 'size')}
    locs = sorted(norm(s.value) for s in iter_child_stmts(f.body) if isinstance(s, ast.Assign) and norm(s.targets[0]) == 'loc')
    ok = locs == ['4', 'loc0 - size'] and defs.get('loc0') == 'f.seek(-8, 2)' and \
        defs.get('size') == "int.from_bytes(f.read(4), 'little')"
    ctx.ob('R16.3', 'writer.update_file_custom_metadata:loc-is-4-or-end-minus-8-minus-size', ok,
           'loc in %s with %s' % (locs, defs), wr.loc(f))
    auto = [s for s in iter_child_stmts(f.body) if isinstance(s, ast.If) and 'is_metadata_file is None' in norm(s.test)]
    ok = len(auto) == 1
    d = ''
    if ok:
        inner = [s for s in iter_child_stmts(auto[0].body) if isinstance(s, ast.If)]
        tests = [norm(s.test) for s in inner] + [norm(s.value.test) for s in iter_child_stmts(auto[0].body)
                                                 if isinstance(s, ast.Assign) and isinstance(s.value, ast.IfExp)]
        d = str(tests)
        ok = any(t in ("path[-9:] == '_metadata'", "path.endswith('_metadata')", "path.endswith('/_metadata')") for t in tests)
    ctx.ob('R16.3', 'writer.update_file_custom_metadata:metadata-file-recognised-by-name-suffix', ok,
           'a pure metadata file (thrift starts at byte 4) is recognised by the path *ending* in _metadata: %s' % d, wr.loc(f))
    opens = [c for k, c in fx.direct_effects(f) if k == 'OPEN']
    ctx.ob('R16.3', 'writer.update_file_custom_metadata:file-opened-for-update-not-truncation',
           len(opens) == 1 and fx.mode_of(opens[0]) in ('rb+', 'r+b'), str([fx.mode_of(o) for o in opens]), wr.loc(f))


def r164(ctx, wr):
    f = wr.func('write_thrift')
    cfg = CFG(f)
    raises = [s for s in iter_child_stmts(f.body) if isinstance(s, ast.Raise)]
    ret = [s for s in iter_child_stmts(f.body) if isinstance(s, ast.Return)]
    ok = len(raises) == 2 and len(ret) == 1 and all(
        not cfg.exists_path(cfg.node_of(ret[0]), cfg.node_of(r)) for r in raises)
    tests = sorted(norm(e.test) for r in raises for e, fld in cfg.enclosing_tests(r) if isinstance(e, ast.If) and fld == 'body'
                   and 'isinstance' in norm(e.test))
    ok = ok and tests == ['not isinstance(kv.key, (bytes, str))', 'not isinstance(kv.value, (bytes, str))']
    loops = [s for s in iter_child_stmts(f.body) if isinstance(s, ast.For)]
    ok = ok and len(loops) == 1 and norm(loops[0].iter) in ('obj.key_value_metadata', 'obj.key_value_metadata or []', 'obj.key_value_metadata or ()') and \
        cfg.dominates(cfg.node_of(loops[0]), cfg.node_of(ret[0])) is not None
    ctx.ob('R16.4', 'writer.write_thrift:key-value-types-validated-before-the-write', ok,
           'TypeError for non-str/bytes keys and values before f.write(obj.to_bytes()): tests %s' % tests, wr.loc(f))
    w = wr.func('write')
    cfg = CFG(w)
    # custom_metadata is only ever extended
    rebinds = [s for s in iter_child_stmts(w.body) if isinstance(s, ast.Assign) and
               any(isinstance(t, ast.Name) and t.id == 'custom_metadata' for t in s.targets)]
    bad = [norm(s) for s in rebinds if 'custom_metadata' not in {n.id for n in ast.walk(s.value) if isinstance(n, ast.Name)}]
    ctx.ob('R16.4', 'writer.write:callers-key-values-never-replaced', not bad and len(rebinds) >= 1,
           'rebinding custom_metadata to a value that does not contain the caller\'s dict loses the user keys: %s' % (bad or 'none'),
           wr.loc(rebinds[0]) if rebinds else wr.loc(w))
    ext = [s for s in iter_child_stmts(w.body) if isinstance(s, ast.Expr) and norm(s.value).startswith('kvm.extend(')]
    attach = [s for s in iter_child_stmts(w.body) if isinstance(s, ast.Assign) and norm(s) == 'fmd.key_value_metadata = kvm']
    writers = [s for s in iter_child_stmts(w.body) if isinstance(s, ast.Expr) and callee(s.value) in ('write_simple', 'write_multi')]
    ok = len(ext) == 1 and len(attach) == 1 and len(writers) == 2 and \
        'in custom_metadata.items()' in norm(ext[0]) and \
        'parquet_thrift.KeyValue(key=key, value=value)' in norm(ext[0]) and \
        all(cfg.exists_path(cfg.node_of(attach[0]), cfg.node_of(x)) and not cfg.exists_path(cfg.node_of(x), cfg.node_of(attach[0]))
            for x in writers)
    ctx.ob('R16.4', 'writer.write:every-user-pair-attached-verbatim-before-any-file-is-opened', ok,
           norm(ext[0])[:140] if ext else 'kvm.extend(...) not found', wr.loc(w))
    guard = [e for s in attach for e, fld in cfg.enclosing_tests(s) if isinstance(e, ast.If)]
    ctx.ob('R16.4', 'writer.write:attachment-conditional-only-on-non-empty-metadata-and-fresh-write',
           sorted(norm(e.test) for e in guard) == ['append', 'custom_metadata'], str([norm(e.test) for e in guard]), wr.loc(w))


def r165(ctx, api):
    f = api.func('ParquetFile.key_value_metadata')
    comps = [n for n in ast.walk(f) if isinstance(n, ast.DictComp)]
    ok = len(comps) == 1
    d = ''
    if ok:
        c = comps[0]
        d = norm(c)
        ok = norm(c.key) == 'ensure_str(k.key, ignore_error=True)' and norm(c.value) == 'ensure_str(k.value, ignore_error=True)' \
            and norm(c.generators[0].iter) == 'self.fmd.key_value_metadata or []' and not c.generators[0].ifs
    ctx.ob('R16.5', 'api.key_value_metadata:key-and-value-decoded-by-the-same-helper-and-flag', ok, d[:200], api.loc(f))
    es = ctx.repo['util'].func('ensure_str')
    s = src(es)
    ctx.ob('R16.5', 'util.ensure_str:undecodable-bytes-returned-verbatim',
           'return b' in s and 'if not ignore_error' in s and "b.decode('utf-8')" in s, '', ctx.repo['util'].loc(es))


def r166(ctx, ut):
    g = ut.func('update_custom_metadata')
    tests = []
    for n in ast.walk(g):
        if isinstance(n, (ast.If, ast.IfExp, ast.While)):
            t = n.test
            for sub in ast.walk(t):
                if isinstance(sub, ast.Name) and sub.id == 'value':
                    tests.append(t)
                    break
    bad = []
    for t in tests:
        parts = t.values if isinstance(t, ast.BoolOp) else [t]
        for p in parts:
            if 'value' not in {x.id for x in ast.walk(p) if isinstance(x, ast.Name)}:
                continue
            ok = isinstance(p, ast.Compare) and len(p.ops) == 1 and isinstance(p.ops[0], (ast.Is, ast.IsNot)) and \
                isinstance(p.comparators[0], ast.Constant) and p.comparators[0].value is None and norm(p.left) == 'value'
            if not ok:
                bad.append(norm(p))
    ctx.floor('R16.6', 'tests on the new value', len(tests), 2)
    ctx.ob('R16.6', 'util.update_custom_metadata:None-is-the-only-removal-sentinel', not bad,
           'tests on value that are not `is None` / `is not None`: %s (an empty string is a value, not a removal)' % (bad or 'none'),
           ut.loc(g))


def r168(ctx, wr, rule='R16.8'):
    """update_file_custom_metadata: once the in-memory update has run, every normal path writes the footer back - an
    early exit (e.g. "nothing left to store") leaves the removed keys in the file.  And: keys of key-value entries are
    arbitrary bytes; a comparison that decodes them must tolerate undecodable ones (ignore_error=True)"""
    f = wr.func('update_file_custom_metadata')
    cfg = CFG(f)
    upd = [st for st in iter_child_stmts(f.body) if isinstance(st, ast.Expr) and callee(st.value) == 'update_custom_metadata']
    wrt = [st for st in iter_child_stmts(f.body) if any(isinstance(c, ast.Call) and callee(c) == 'write_thrift' for c in ast.walk(st))
           and not isinstance(st, (ast.With, ast.If, ast.For, ast.Try))]
    ok = len(upd) == 1 and len(wrt) == 1 and cfg.must_pass_to_exit(cfg.node_of(upd[0]), {cfg.node_of(wrt[0])})
    ctx.ob(rule, 'writer.update_file_custom_metadata:footer-rewritten-on-every-path-after-the-update', bool(ok),
           'a return between update_custom_metadata(...) and write_thrift(...) skips the rewrite', wr.loc(f))
    n = 0
    for mname in ('writer', 'util', 'api'):
        m = ctx.repo[mname]
        for q, g in m.funcs.items():
            for c in walk_no_nested(g):
                if isinstance(c, ast.Call) and callee(c) == 'ensure_str' and c.args and isinstance(c.args[0], ast.Attribute) \
                        and c.args[0].attr in ('key', 'value'):
                    n += 1
                    kw = kwarg(c, 'ignore_error', 1)
                    ctx.ob(rule, '%s.%s:key-value-text-decoded-tolerantly:%s' % (mname, q, norm(c)[:40]),
                           isinstance(kw, ast.Constant) and kw.value is True,
                           '`%s`: user keys and values are arbitrary bytes; a strict decode raises on the first non-UTF-8 one' % norm(c), m.loc(c))
    ctx.stat('%s decodes of key-value text' % rule, n)
    # the decoder itself: it hands its argument back undecoded only when that argument is text already, or when the
    # decode failed and the caller asked for tolerance - never because the value is empty (b'' must become '')
    ut = ctx.repo['util']
    es = ut.func('ensure_str')
    arg = es.args.args[0].arg
    cfg2 = CFG(es)
    for r in walk_no_nested(es):
        if isinstance(r, ast.Return) and isinstance(r.value, ast.Name) and r.value.id == arg:
            in_handler = any(any(r is y for y in ast.walk(h)) for t in ast.walk(es) if isinstance(t, ast.Try) for h in t.handlers)
            tests = [e.test for e, fld in cfg2.enclosing_tests(r) if isinstance(e, ast.If) and fld == 'body']
            typed = bool(tests) and all(norm(t) == 'isinstance(%s, str)' % arg for t in tests)
            ctx.ob(rule, 'util.ensure_str:argument-returned-undecoded-only-if-text-or-undecodable:%s' % ('handler' if in_handler else 'early'),
                   in_handler or typed, 'returned as it is under %s' % ([norm(t) for t in tests] or 'no test'), ut.loc(r))


def r169(ctx, rule='R16.9'):
    """ParquetFile.key_value_metadata hands out the handle's cached dict: no code of the package mutates it (a reader
    that pops an entry changes what the handle reports from then on); the cache is dropped by assigning None - the
    class-level default - never by `del`, which raises when the cache was not filled yet"""
    n = 0
    for mname in ('api', 'util', 'writer', 'core'):
        m = ctx.repo[mname]
        for q, f in m.funcs.items():
            for x in walk_no_nested(f):
                if isinstance(x, ast.Call) and isinstance(x.func, ast.Attribute) and x.func.attr in ('pop', 'popitem', 'clear', 'update', 'setdefault') \
                        and norm(x.func.value).endswith('.key_value_metadata'):
                    n += 1
                    ctx.ob(rule, '%s.%s:cached-key-value-dict-not-mutated:%s' % (mname, q, norm(x)[:40]), False,
                           '`%s` changes the dict every later key_value_metadata call returns' % norm(x)[:80], m.loc(x))
                if isinstance(x, ast.Delete):
                    for t in x.targets:
                        if isinstance(t, ast.Attribute) and t.attr in ('_kvm', '_pdm', '_statistics', '_categories'):
                            n += 1
                            ctx.ob(rule, '%s.%s:cache-dropped-by-assignment-not-del:%s' % (mname, q, norm(t)), False,
                                   '`del %s`: the attribute exists on the instance only once the cache was filled (the default is a class '
                                   'attribute); a second reset in a row raises AttributeError half-way through the update' % norm(t), m.loc(x))
    ut = ctx.repo['util']
    f = ut.func('update_custom_metadata')
    resets = [st for st in walk_no_nested(f) if isinstance(st, ast.Assign) and norm(st.targets[0]).endswith('._kvm') and norm(st.value) == 'None']
    ctx.ob(rule, 'util.update_custom_metadata:handle-cache-reset-after-the-update', len(resets) == 1, '', ut.loc(f))
