"""C17 - metadata-only answers (columns, dtypes, counts) match the data actually read."""
import ast

from ..model import AnalysisError, callee, norm, src, walk_no_nested, iter_child_stmts, kwarg
from ..cfg import CFG, ReachingDefs
from . import c06


def run(ctx):
    ctx.technique = 'who-may-call / single-source-of-truth def-use for dtype prediction, enumerated deviations of the allocator, sibling row-count rules'
    ctx.explanation = (
        'Decides: (R17.1) the frame is allocated from the same prediction the handle reports: '
        'dataframe.empty is called only by _pre_allocate, which is called only by pre_allocate with dt being '
        'the caller\'s explicit override or the value returned by self._dtypes(categories) for the very '
        'categories argument also given to check_categories; self.dtypes is stored only by _dtypes and '
        'columns is derived from it minus the partition columns; (R17.2) every deviation between dt[name] and '
        'the allocated type inside get_type is enumerated (known finding K17: masked index -> int64); '
        '(R17.3) counts derive from rg.num_rows of the selected list, default columns are columns + partitions, '
        'list arguments are not mutated so the same option means the same thing on the next call.')
    ctx.not_decided = ('that pandas realises the predicted dtype (dataframe.empty patches block managers) and the '
                       'schema x pandas-metadata x null-statistics logic inside _dtypes')
    api = ctx.repo['api']
    r171(ctx, api)
    r172(ctx, api)
    r173(ctx, api)
    from . import callsigs as _cs
    from . import findings3 as _f3
    _f3.dtype_lookup(ctx, 'R17.13')
    r1714(ctx, api)
    from . import c14 as _c14b
    _c14b.consolidate_rule(ctx, 'R17.16')    # the recorded number of categories is the numeric maximum over the chunks
    from . import append_route as _ar
    _ar.forget_then_rebuild_rule(ctx, 'R17.15')
    _cs.general_rules(ctx, 'R17', ['api.ParquetFile', 'api._pre_allocate', 'core.read_row_group_arrays', 'core.read_row_group', 'dataframe'])


def _callers(ctx, name):
    out = []
    for m, q, f in ctx.repo.functions():
        if m.name in ('cencoding', 'speedups'):
            continue
        for c in walk_no_nested(f):
            if isinstance(c, ast.Call) and (callee(c) or '').split('.')[-1] == name:
                out.append((m.name, q, c))
    return out


def r171(ctx, api):
    callers = _callers(ctx, 'empty')
    callers = [(m, q) for m, q, c in callers if callee(c) in ('dataframe.empty', 'empty')]
    ctx.ob('R17.1', 'dataframe.empty:called-only-by-_pre_allocate', callers == [('api', '_pre_allocate')], str(callers), 'fastparquet/api.py:1')
    callers = [(m, q) for m, q, c in _callers(ctx, '_pre_allocate')]
    ctx.ob('R17.1', 'api._pre_allocate:called-only-by-pre_allocate', callers == [('api', 'ParquetFile.pre_allocate')], str(callers), 'fastparquet/api.py:1')
    f = api.func('ParquetFile.pre_allocate')
    cfg = CFG(f)
    rd = ReachingDefs(cfg)
    call = [s for s in iter_child_stmts(f.body) if isinstance(s, ast.Assign) and callee(s.value) == '_pre_allocate']
    if len(call) != 1:
        raise AnalysisError('R17.1: _pre_allocate call not found in pre_allocate')
    c = call[0].value
    args = [norm(a) for a in c.args]
    ctx.ob('R17.1', 'api.pre_allocate:passes-(size,columns,categories,index,cats,dtypes,tz)',
           args == ['size', 'columns', 'categories', 'index', 'cats', 'dtypes', 'self.tz'] and
           norm(kwarg(c, 'columns_dtype')) == 'self._columns_dtype', str(args), api.loc(c))
    defs = rd.defs_reaching(cfg.node_of(call[0]), 'dtypes')
    texts = []
    for d in defs:
        texts.append('<argument>' if d == cfg.entry else norm(cfg.nodes[d].stmt))
    ok = sorted(texts) == ['<argument>', 'dtypes = self._dtypes(categories)']
    if not ok and 'dtypes = self.dtypes' in texts and sorted(t for t in texts if t != 'dtypes = self.dtypes') == \
            ['<argument>', 'dtypes = self._dtypes(categories)']:
        # the stored default answer (self.dtypes = self._dtypes(), set once in _set_attrs - checked below) may stand in
        # for the call exactly when the call would be the default one
        sd = [s_ for s_ in iter_child_stmts(f.body) if isinstance(s_, ast.Assign) and norm(s_) == 'dtypes = self.dtypes']
        ok = all([(norm(e.test), fld) for e, fld in cfg.enclosing_tests(s_) if isinstance(e, ast.If)][-1:] == [('categories is None', 'body')]
                 for s_ in sd)
    ctx.ob('R17.1', 'api.pre_allocate:dtypes-is-the-override-or-self._dtypes(categories)', ok,
           'definitions of dtypes reaching the allocation: %s (a cached self.dtypes is overwritten by every call '
           'with other categories and must not be reused)' % sorted(texts), api.loc(call[0]))
    # the override arm only applies when an override was given
    dd = [s for s in iter_child_stmts(f.body) if isinstance(s, ast.Assign) and norm(s) == 'dtypes = self._dtypes(categories)']
    if dd:
        tests = [(norm(e.test), fld) for e, fld in cfg.enclosing_tests(dd[0]) if isinstance(e, ast.If)]
        ctx.ob('R17.1', 'api.pre_allocate:prediction-computed-whenever-no-override',
               tests == [('dtypes is not None', 'orelse')] or tests == [('dtypes is not None', 'orelse'), ('categories is None', 'orelse')],
               str(tests), api.loc(dd[0]))
    # categories: same definition for _dtypes and check_categories
    cc = [s for s in iter_child_stmts(f.body) if isinstance(s, ast.Assign) and norm(s) == 'categories = self.check_categories(categories)']
    ok = len(cc) == 1 and bool(dd) and rd.defs_reaching(cfg.node_of(dd[0]), 'categories') == {cfg.entry} and \
        rd.defs_reaching(cfg.node_of(cc[0]), 'categories') == {cfg.entry}
    ctx.ob('R17.1', 'api.pre_allocate:same-categories-argument-for-prediction-and-allocation', ok, '', api.loc(f))
    ov = [s for s in iter_child_stmts(f.body) if isinstance(s, ast.Assign) and norm(s) == 'columns = list(dtypes)']
    cats0 = [s for s in iter_child_stmts(f.body) if isinstance(s, ast.Assign) and norm(s.targets[0]) == 'cats']
    ok = len(ov) == 1 and len(cats0) == 1 and cfg.node_of(ov[0]) in rd.defs_reaching(cfg.node_of(cats0[0]), 'columns')
    ctx.ob('R17.1', 'api.pre_allocate:partition-columns-selected-from-the-final-column-list', ok,
           'a dtypes override replaces the column list; the partition columns that go into the frame must be chosen from '
           'that final list', api.loc(cats0[0]) if cats0 else api.loc(f))
    cats = [s for s in iter_child_stmts(f.body) if isinstance(s, ast.Assign) and norm(s.targets[0]) == 'cats']
    ctx.ob('R17.1', 'api.pre_allocate:partition-columns-from-self.cats-restricted-to-requested',
           len(cats) == 1 and norm(cats[0].value) == '{k: v for k, v in self.cats.items() if k in columns}', norm(cats[0]) if cats else '', api.loc(f))
    # self.dtypes stored only by _dtypes
    stores = []
    for m, q, g in ctx.repo.functions():
        for s in walk_no_nested(g):
            if isinstance(s, ast.Assign):
                for t in s.targets:
                    if isinstance(t, ast.Attribute) and t.attr == 'dtypes' and norm(t.value) == 'self':
                        stores.append('%s.%s' % (m.name, q))
    # what the handle reports is what the default read allocates with: self.dtypes is stored once, where the handle is set
    # up, from the very function the allocation calls (no second computation, no per-call overwrite)
    ctx.ob('R17.1', 'api.ParquetFile.dtypes:stored-only-when-the-handle-is-set-up', stores == ['api.ParquetFile._set_attrs'], str(stores), 'fastparquet/api.py:1')
    sa = api.func('ParquetFile._set_attrs')
    st = [x for x in walk_no_nested(sa) if isinstance(x, ast.Assign) and norm(x.targets[0]) == 'self.dtypes']
    ctx.ob('R17.1', 'api._set_attrs:reported-dtypes-are-the-default-answer-of-_dtypes',
           len(st) == 1 and norm(st[0].value) == 'self._dtypes()', norm(st[0]) if st else '', api.loc(sa))
    d = api.func('ParquetFile._dtypes')
    ctx.ob('R17.1', 'api._dtypes:returns-the-mapping-it-computed', norm(d.body[-1]) == 'return dtype', norm(d.body[-1]), api.loc(d))
    ctx.ob('R17.1', 'api._dtypes:categories-and-partitions-reported-as-category',
           "for field in categories: dtype[field] = 'category'" in norm(ast.Module(body=d.body, type_ignores=[])).replace('\n', ' ')
           or ("dtype[field] = 'category'" in s and "dtype[cat] = 'category'" in s), '', api.loc(d))
    col = api.func('ParquetFile.columns')
    ctx.ob('R17.1', 'api.columns:derived-from-dtypes-minus-partitions',
           norm(col.body[-1]) == 'return [_ for _ in self.dtypes if _ not in self.cats]', norm(col.body[-1]), api.loc(col))


def r172(ctx, api):
    g = api.func('_pre_allocate.get_type')
    rets = [s for s in iter_child_stmts(g.body) if isinstance(s, ast.Return)]
    cfg = CFG(g)
    seen = 0
    for r in rets:
        tests = [norm(e.test) for e, fld in cfg.enclosing_tests(r) if isinstance(e, ast.If) and fld == 'body']
        val = norm(r.value)
        seen += 1
        if val == 't' and any(norm(s) == 't = dt[name]' for s in g.body):
            ctx.ob('R17.2', 'api._pre_allocate.get_type:returns-the-predicted-dtype', not tests, 'return dt[name]', api.loc(r))
        elif val == "'category'" and tests == ['name in categories']:
            ctx.ob('R17.2', 'api._pre_allocate.get_type:deviation:requested-category', True,
                   'mirrored by _dtypes (dtype[field] = "category"), no disagreement', api.loc(r))
        elif val == "'int64'" and tests and 'BaseMaskedDtype' in tests[0] and 'index' in tests[0]:
            ctx.ob('R17.2', 'api._pre_allocate.get_type:deviation:masked-index-allocated-as-int64', False,
                   'an index column whose predicted dtype is a pandas masked dtype is allocated as int64 while '
                   'ParquetFile.dtypes reports the masked dtype', api.loc(r))
        else:
            ctx.ob('R17.2', 'api._pre_allocate.get_type:deviation:%s-when-%s' % (val, tests), False,
                   'allocation type %s under %s differs from the reported dt[name] and is not enumerated' % (val, tests), api.loc(r))
    ctx.floor('R17.2', 'returns of get_type', seen, 2)
    pa = api.func('_pre_allocate')
    s = src(pa)
    ctx.ob('R17.2', 'api._pre_allocate:every-column-and-index-typed-through-get_type',
           'dtypes = [get_type(c) for c in cols]' in s and 'index_types = [get_type(i, index=True) for i in index]' in s
           and "dtypes.extend(['category'] * len(cs))" in s, '', api.loc(pa))


def r173(ctx, api):
    r175(ctx)
    r176(ctx)
    r177(ctx)
    r179(ctx)
    r1712(ctx)
    from . import simple_append as _sa
    _sa.commit_after_loop_rule(ctx, 'R17.10')
    _sa.commit_after_loop_multi_rule(ctx, 'R17.10')
    from . import c14 as _c14, c08 as _c08
    _c14.r147(ctx, 'R17.11')    # the row groups a list-opened handle reports belong to the files they are attributed to
    _c08.r83(ctx, ctx.repo['writer'], ctx.repo['api'], ctx.repo['util'], ctx.repo['core'])   # reported partition columns are readable ones
    from . import c01 as _c01d
    _c01d.r125(ctx, 'R17.8')
    from . import c20 as _c20
    _c20.r202(ctx)
    from . import c14, meta_rules, c01
    c01.r11(ctx)
    c14.r144(ctx, api, ctx.repo['writer'])
    meta_rules.rowcount_rule(ctx, 'R17.4', only_modules={'api', 'writer', 'util'})
    w = api.func('ParquetFile.write_row_groups')
    last = [s for s in w.body if not isinstance(s, ast.Pass)]
    ctx.ob('R17.4', 'api.write_row_groups:handle-rebuilt-after-the-append', bool(last) and norm(last[-1]) == 'self._set_attrs()',
           'metadata-only answers of a live handle (cats, columns, dtypes) must be rebuilt after an append', api.loc(w))
    c06.r63(ctx, api)
    c06.r64(ctx, api)
    tp = api.func('ParquetFile.to_pandas')
    dflt = [norm(s) for s in iter_child_stmts(tp.body) if isinstance(s, ast.Assign) and norm(s.targets[0]) == 'columns']
    ctx.ob('R17.3', 'api.to_pandas:default-columns-are-columns-plus-partitions',
           sorted(dflt) == ['columns = columns[:]', 'columns = self.columns + list(self.cats)'], str(dflt), api.loc(tp))
    inf = api.func('ParquetFile.info')
    ctx.ob('R17.3', 'api.info:columns-and-partitions-from-the-same-sources',
           "'columns': self.columns" in norm(inf.body[-1]) and "'partitions': list(self.cats)" in norm(inf.body[-1]), '', api.loc(inf))
    gi = api.func('ParquetFile._get_index')
    ctx.ob('R17.3', 'api._get_index:inferred-from-pandas-metadata-excluding-range-indexes',
           "self.pandas_metadata.get('index_columns', [])" in src(gi) and "i.get('kind') != 'range'" in src(gi), '', api.loc(gi))
    ck = [c for c in ast.walk(tp) if isinstance(c, ast.Call) and callee(c) == 'check_column_names']
    ctx.ob('R17.3', 'api.to_pandas:requested-columns-validated-against-reported-columns',
           len(ck) == 1 and norm(ck[0].args[0]) == 'self.columns + list(self.cats)', norm(ck[0]) if ck else '', api.loc(tp))


def _poly(e):
    """integer polynomial over opaque atoms: {sorted tuple of atom texts: coefficient}"""
    if isinstance(e, ast.Constant) and isinstance(e.value, int) and not isinstance(e.value, bool):
        return {(): e.value} if e.value else {}
    if isinstance(e, ast.BinOp) and isinstance(e.op, (ast.Add, ast.Sub)):
        a, b = _poly(e.left), _poly(e.right)
        out = dict(a)
        for k, v in b.items():
            out[k] = out.get(k, 0) + (v if isinstance(e.op, ast.Add) else -v)
        return {k: v for k, v in out.items() if v}
    if isinstance(e, ast.BinOp) and isinstance(e.op, ast.Mult):
        a, b = _poly(e.left), _poly(e.right)
        out = {}
        for k1, v1 in a.items():
            for k2, v2 in b.items():
                k = tuple(sorted(k1 + k2))
                out[k] = out.get(k, 0) + v1 * v2
        return {k: v for k, v in out.items() if v}
    if isinstance(e, ast.UnaryOp) and isinstance(e.op, ast.USub):
        return {k: -v for k, v in _poly(e.operand).items()}
    return {(norm(e),): 1}


def r175(ctx, rule='R17.5'):
    """the automatic range index regenerated from the metadata has exactly as many labels as rows are read, for
    steps of either sign: RangeIndex(start, stop, step) with stop - start == size * step"""
    api = ctx.repo['api']
    f = api.func('ParquetFile.pre_allocate')
    calls = [c for c in ast.walk(f) if isinstance(c, ast.Call) and (callee(c) or '').split('.')[-1] == 'RangeIndex']
    ctx.ob(rule, 'api.pre_allocate:range-index-regenerated', len(calls) == 1, '%d RangeIndex constructions' % len(calls), api.loc(f))
    for c in calls:
        start, stop, step = kwarg(c, 'start', 0), kwarg(c, 'stop', 1), kwarg(c, 'step', 2)
        if None in (start, stop, step):
            ctx.ob(rule, 'api.pre_allocate:range-index-has-size-labels-for-any-step', False, norm(c), api.loc(c))
            continue
        diff = _poly(ast.BinOp(left=stop, op=ast.Sub(), right=start))
        want = _poly(ast.BinOp(left=ast.Name(id='size', ctx=ast.Load()), op=ast.Mult(), right=step))
        ctx.ob(rule, 'api.pre_allocate:range-index-has-size-labels-for-any-step', diff == want,
               'stop - start = %s, size*step = %s: a range has ceil((stop-start)/step) labels, which is `size` for every '
               'non-zero step only when they are equal (an extra +1 loses a label for step -1; a missing `* step` '
               'mislabels every stepped range)' % (diff, want), api.loc(c))


def r176(ctx, rule='R17.6'):
    """_dtypes, foreign metadata: (a) a chunk whose statistics lack a null count may hold nulls - the scan that decides
    on a nullable dtype treats a missing count like a positive one; (b) the numpy_type of the pandas metadata replaces
    the dtype implied by the schema only when it is a datetime64 spelling, and is looked up without assuming the
    column is listed"""
    api = ctx.repo['api']
    f = api.func('ParquetFile._dtypes')
    tests = [x for x in walk_no_nested(f) if isinstance(x, ast.If) and 'st.get(3)' in norm(x.test)]
    cfgd = CFG(f)
    # the scan for files whose metadata is not trusted (the arm not under `if trusted`)
    untrusted = [x for x in tests if not any(isinstance(e, ast.If) and norm(e.test) == 'trusted' and fld == 'body' for e, fld in cfgd.enclosing_tests(x))]
    ok = len(untrusted) == 1 and 'st.get(3) is None' in norm(untrusted[0].test)
    tests = untrusted or tests
    ctx.ob(rule, 'api._dtypes:missing-null-count-counts-as-possible-nulls', ok,
           '`if %s:` - statistics without null_count say nothing about nulls' % (norm(tests[0].test) if tests else '?'), api.loc(tests[0]) if tests else api.loc(f))
    uses = [st for st in walk_no_nested(f) if isinstance(st, ast.Assign) and norm(st.targets[0]) == 'dt' and 'numpy_type' in norm(st.value)]
    direct = [st for st in uses if "md[col]['numpy_type']" in norm(st.value)]
    ctx.ob(rule, 'api._dtypes:pandas-metadata-resolution-taken-only-when-it-is-a-datetime', not direct,
           '`%s`: other writers record "object" for DATE columns and may not list a column at all' % (norm(direct[0]) if direct else 'guarded'),
           api.loc(direct[0]) if direct else api.loc(f))
    guard = [x for x in walk_no_nested(f) if isinstance(x, ast.If) and "'datetime64' in" in norm(x.test)]
    ctx.ob(rule, 'api._dtypes:datetime-resolution-override-is-guarded', len(guard) == 1, '', api.loc(f))


def r177(ctx, rule='R17.7'):
    """_dtypes looks a column's statistics up in the chunk of that column (by path), never by the column's position
    among the top-level fields - nested columns have several chunks"""
    api = ctx.repo['api']
    f = api.func('ParquetFile._dtypes')
    pos = [x for x in walk_no_nested(f) if isinstance(x, ast.Subscript) and norm(x.value) == 'rg[1]' and isinstance(x.slice, ast.Name)]
    # an integer type named by the pandas metadata is believed only as long as no chunk counts nulls: the shortcut
    # must not leave the column before the chunks were looked at
    short = [x for x in walk_no_nested(f) if isinstance(x, ast.If) and "'int' in tt" in norm(x.test)]
    early = [x for x in short if any(isinstance(y, ast.Continue) for y in x.body)]
    ctx.ob(rule, 'api._dtypes:metadata-integer-type-believed-only-while-no-chunk-counts-nulls', len(short) == 1 and not early,
           'a `continue` right under `if %s:` keeps the plain integer dtype although an appended chunk may count nulls' % (
               norm(short[0].test) if short else '?'), api.loc(short[0]) if short else api.loc(f))
    s12 = [x for x in walk_no_nested(f) if isinstance(x, ast.If) and norm(x.test) == "dt == 'S12'"]
    ctx.ob(rule, 'api._dtypes:int96-columns-reported-in-their-recorded-zone', len(s12) == 1 and any('tz.get(col' in norm(y) for y in ast.walk(s12[0]) if isinstance(y, ast.If)),
           'INT96 data come back zone-aware when the pandas metadata records a zone', api.loc(s12[0]) if s12 else api.loc(f))
    ctx.ob(rule, 'api._dtypes:chunk-statistics-found-by-column-path', not pos and "c[3][3] == [col]" in norm(ast.Module(body=f.body, type_ignores=[])),
           'positional look-ups: %s' % [norm(x) for x in pos], api.loc(f))


def r179(ctx, rule='R17.9'):
    """_pre_allocate hands dataframe.empty the zone map and the partition categories it was given: the maps describe
    every column that may be allocated - data columns, partition columns *and index columns* - so they are passed
    through unchanged (a map narrowed to the data columns strips the zone of an index column)"""
    api = ctx.repo['api']
    f = api.func('_pre_allocate')
    rebound = []
    for st in walk_no_nested(f):
        tg = st.targets if isinstance(st, ast.Assign) else ([st.target] if isinstance(st, (ast.AugAssign, ast.AnnAssign)) else [])
        for t in tg:
            if isinstance(t, ast.Name) and t.id in ('tz', 'columns_dtype', 'size'):
                rebound.append(norm(st)[:70])
    ctx.ob(rule, 'api._pre_allocate:zone-map-passed-through-unchanged', not rebound, str(rebound), api.loc(f))
    calls = [c for c in walk_no_nested(f) if isinstance(c, ast.Call) and callee(c) == 'dataframe.empty']
    ok = len(calls) == 1 and norm(kwarg(calls[0], 'timezones', 99)) == 'tz'
    ctx.ob(rule, 'api._pre_allocate:allocator-gets-the-zone-map', ok, '', api.loc(f))


HANDLE_CACHES = {
    '_base_dtype': 'null-aware dtypes, from the row groups\' statistics',
    '_kvm': 'decoded key-values of the footer (the writer updates the pandas entry: number of categories)',
    '_pdm': 'pandas metadata decoded from the key-values',
    '_categories': 'category columns and their sizes, from the pandas metadata',
}


def r1712(ctx, rule='R17.12'):
    """(a) a method that changes the row groups of a handle in place (write_row_groups, remove_row_groups) drops what the
    handle had derived from the old row groups and key-values before it rebuilds its attributes, so the same handle
    answers like a fresh one; (b) every value _dtypes stores for a column is a dtype, never an instance built by
    calling a scalar type (`np.float64()` is the number 0.0)"""
    api = ctx.repo['api']
    for q in ('ParquetFile.write_row_groups', 'ParquetFile.remove_row_groups'):
        f = api.func(q)
        cfg = CFG(f)
        sa = [st for st in walk_no_nested(f) if isinstance(st, ast.Expr) and callee(st.value) == 'self._set_attrs']
        ctx.ob(rule, 'api.%s:handle-rebuilt-after-the-mutation' % q.split('.')[-1], len(sa) >= 1, '', api.loc(f))
        for attr in sorted(HANDLE_CACHES):
            resets = [st for st in walk_no_nested(f) if isinstance(st, ast.Assign) and isinstance(st.value, ast.Constant) and st.value.value is None
                      and any(norm(t) == 'self.%s' % attr for t in st.targets)]
            ok = bool(sa) and all(any(cfg.dominates(cfg.node_of(r), cfg.node_of(x)) for r in resets) for x in sa)
            ctx.ob(rule, 'api.%s:%s-dropped-before-the-handle-is-rebuilt' % (q.split('.')[-1], attr), ok,
                   'self.%s (%s) survives the mutation: the handle that wrote keeps answering for the old row groups' % (attr, HANDLE_CACHES[attr]),
                   api.loc(sa[0]) if sa else api.loc(f))
    d = api.func('ParquetFile._dtypes')
    n = 0
    for st in walk_no_nested(d):
        if isinstance(st, ast.Assign) and isinstance(st.targets[0], ast.Subscript) and norm(st.targets[0].value) == 'dtype':
            n += 1
            v = st.value
            scalar = isinstance(v, ast.Call) and not v.args and not v.keywords and norm(v.func) in (
                'np.float64', 'np.float32', 'np.int64', 'np.int32', 'np.bool_', 'float', 'int', 'bool')
            ctx.ob(rule, 'api._dtypes:value-stored-for-a-column-is-a-dtype:%s' % norm(v)[:30], not scalar,
                   '`%s` stores the scalar %s, not a dtype: what the handle reports does not compare equal to the dtype of the '
                   'frame it reads' % (norm(st), norm(v)), api.loc(st))
    ctx.floor(rule, 'dtype stores in _dtypes', n, 4)


def r1714(ctx, api, rule='R17.14'):
    """count() (and info['rows'] through it) reports what a read would give: the rows of the row groups that a read
    selects - summed from the row groups, or counted from the row mask - never the total stored in the footer, which a
    file from another writer (or an edited handle) may carry out of step with its row groups"""
    from ..model import return_values
    f = api.func('ParquetFile.count')
    vals = [norm(v) for v in return_values(f)]
    bad = [v for v in vals if 'fmd.num_rows' in v or v.endswith('.num_rows') and 'for rg in' not in v]
    summed = [v for v in vals if v.startswith('sum(') and 'rg.num_rows for rg in' in v]
    masked = [v for v in vals if v.endswith('.sum()')]
    ctx.ob(rule, 'api.count:rows-counted-from-the-selected-row-groups-or-the-mask', not bad and bool(summed) and len(summed) + len(masked) == len(vals),
           'count() returns: %s' % vals, api.loc(f))
    # ... and the row groups it sums are the ones the filters select
    srcs = [norm(s_.value) for s_ in ast.walk(f) if isinstance(s_, ast.Assign) and norm(s_.targets[0]) == 'rgs']
    ctx.ob(rule, 'api.count:row-groups-selected-by-the-filters', any(v == 'filter_row_groups(self, filters)' for v in srcs) or
           any('filter_row_groups(self, filters)' in v for v in summed), str(srcs), api.loc(f))
    inf = api.func('ParquetFile.info')
    ctx.ob(rule, 'api.info:rows-is-count()', "'rows': self.count()" in norm(inf.body[-1]), '', api.loc(inf))
