"""C18 - rejected operations raise and leave an existing dataset as it was.

R18.1 every refusal kind the property lists has a raise site in the function that owns it;
R18.2 no refusal is reachable between the first destructive effect on an existing dataset
      and commit unless a restoring handler encloses it (single-file append), and the
      multi-file routes have no destructive effect before the summary rewrite;
R18.3 shape-of-request refusals dominate the first write of their route.
"""
import ast

from ..model import AnalysisError, callee, norm, src, walk_no_nested, iter_child_stmts, before
from ..cfg import CFG
from .. import effects as fx
from . import append_route as ar
from . import simple_append as sa

REFUSALS = [
    # kind, module, function, exception, fragment of the message (to tell the raise sites apart)
    ('unsupported-dtype', 'writer', 'find_type', 'ValueError', "Don't know how to convert data type"),
    ('unknown-object-encoding', 'writer', 'find_type', 'ValueError', 'Object encoding'),
    ('bad-times-option', 'writer', 'find_type', 'ValueError', 'Parameter times must be'),
    ('duplicate-column-names', 'writer', 'make_metadata', 'ValueError', 'duplicate'),
    ('non-text-column-name', 'util', 'get_column_metadata', 'TypeError', 'Column name must be a string'),
    ('non-text-column-name-rowgroup', 'writer', 'make_row_group', 'ValueError', 'Column names must be'),
    ('unencodable-values', 'writer', 'convert', 'ValueError', 'Error converting column'),
    ('nulls-in-required-or-uncastable', 'writer', 'write_column', 'ValueError', 'Error converting column'),
    ('page-too-large', 'writer', 'check_32', 'OverflowError', ''),
    ('append-different-columns', 'api', 'ParquetFile.write_row_groups', 'ValueError', 'Column names of new data'),
    ('append-different-scheme-simple', 'writer', 'write', 'ValueError', 'File scheme requested is simple'),
    ('append-different-scheme-multi', 'writer', 'write', 'ValueError', 'Requested file scheme'),
    ('append-different-partitioning', 'writer', 'write', 'ValueError', 'partitioning columns must'),
    ('bad-file-scheme', 'writer', 'write', 'ValueError', 'File scheme should be'),
    ('unknown-column-in-selection', 'util', 'check_column_names', 'ValueError', 'not available'),
    ('unknown-column-in-filter', 'api', 'filter_row_groups', 'ValueError', 'nonexistent column'),
    ('unknown-codec', 'compression', 'compress_data', 'RuntimeError', 'not available'),
    ('unknown-codec-read', 'compression', 'decompress_data', 'RuntimeError', 'not available'),
    ('all-columns-partitioned', 'writer', 'partition_on_columns', 'ValueError', 'Cannot include all columns'),
    ('bad-key-value-type', 'writer', 'write_thrift', 'TypeError', 'KeyValue key expected'),
    ('overwrite-simple-scheme', 'writer', 'overwrite', 'ValueError', 'Not possible to overwrite'),
    ('overwrite-no-partitions', 'writer', 'overwrite', 'ValueError', 'No partitioning column'),
    ('remove-from-simple', 'api', 'ParquetFile.remove_row_groups', 'ValueError', 'Not possible to remove row groups'),
    ('remove-partial-file', 'api', 'ParquetFile.remove_row_groups', 'ValueError', 'contains row groups both'),
]


def run(ctx):
    ctx.technique = 'raise-site inventory, destructive-region analysis with restoring-handler typestate, CFG dominance of validations'
    ctx.explanation = (
        'Decides: (R18.1) each refusal kind has a raise site; (R18.2) in the single-file append everything '
        'that overwrites the old footer is enclosed by a handler for BaseException that seeks to the saved '
        'footer offset, rewrites the saved tail, truncates and re-raises, and the handle metadata is committed '
        'only after all row groups were written; the multi-file append and the partition overwrite perform '
        'no remove/rename/summary write before all new parts are written, and open only fresh part files; '
        '(R18.3) refusals that depend only on the shape of the request (columns, names, scheme, partitioning, '
        'dtype) dominate the first write of their route.')
    ctx.not_decided = ('readability after failure for every input (value-dependent failures inside pandas/numpy); '
                       'write(append=False) replaces a dataset by contract and is outside the clause')
    repo = ctx.repo
    # R18.1
    for kind, mod, q, exc, frag in REFUSALS:
        m = repo[mod]
        f = m.func(q)
        hits = [s for s in walk_no_nested(f) if isinstance(s, ast.Raise) and s.exc is not None
                and (callee(s.exc) == exc or norm(s.exc) == exc) and frag in src(s)]
        ctx.ob('R18.1', '%s.%s:refusal-raised:%s' % (mod, q, kind), len(hits) >= 1,
               'raise %s(... %s ...)' % (exc, frag), m.loc(hits[0]) if hits else m.loc(f))
    ctx.floor('R18.1', 'refusal kinds', len(REFUSALS), 20)
    # refusals inside convert() must be ValueError for any underlying error (documented behaviour)
    cv = repo['writer'].func('convert')
    trys = [t for t in iter_child_stmts(cv.body) if isinstance(t, ast.Try)]
    conv = [t for t in trys if 'array_encode_utf8' in src(t)]
    ok = len(conv) >= 2 and all(len(t.handlers) == 1 and norm(t.handlers[0].type) == 'Exception'
                                and isinstance(t.handlers[0].body[-1], ast.Raise)
                                and callee(t.handlers[0].body[-1].exc) == 'ValueError' for t in conv)
    ctx.ob('R18.1', 'writer.convert:object-conversion-errors-become-ValueError', ok,
           'each conversion try has `except Exception` ending in raise ValueError', repo['writer'].loc(cv))

    # R18.2 single file
    sa.restore_rule(ctx, 'R18.2')
    sa.commit_after_loop_rule(ctx, 'R18.2')
    sa.commit_after_loop_multi_rule(ctx, 'R18.2')
    sa.seek_ownership_rule(ctx, 'R18.2s')
    # R18.2 multi-file: fresh parts, nothing destructive before the summary
    ar.fresh_part_rule(ctx, 'R18.2m')
    ar.parts_first_rule(ctx, 'R18.2m')
    ar.no_remove_rename_rule(ctx, 'R18.2m')
    r188(ctx)
    from . import c01 as _c01e
    _c01e.r121(ctx, 'R18.9')     # an index level never replaces a column of the same name (refused instead)
    _overwrite_order(ctx)
    # R18.3
    ar.compat_checks_rule(ctx, 'R18.3')
    ar.kind_checks_rule(ctx, 'R18.3')
    ar.index_normalisation_rule(ctx, 'R18.3b')
    from . import c01 as _c01, c08 as _c08
    _c01.r124(ctx, 'R18.6')
    _c08.r81(ctx, ctx.repo['writer'])
    from . import findings2 as _f2
    _f2.destructive_order(ctx, 'R18.5')
    ar.mode_params_rule(ctx, 'R18.3c')
    _validate_early(ctx)
    _filter_validation(ctx)
    # refused metadata updates and refused merges must leave the target as it was (shared with C16 / C14)
    from . import c16, c14
    c16.r161(ctx, wr_mod(ctx))
    c16.r163(ctx, wr_mod(ctx))
    c16.r164(ctx, wr_mod(ctx))
    c14.r141(ctx)
    from . import callsigs as _cs
    from . import findings3 as _f3
    _f3.kind_of_appended_values(ctx, 'R18.7')
    _f3.write_conversions(ctx, 'R18.10')
    _cs.general_rules(ctx, 'R18', ['writer.write', 'writer.overwrite', 'writer.write_simple', 'writer.write_multi', 'writer.partition_on_columns', 'writer.make_part_file', 'writer.make_row_group', 'api.ParquetFile.write_row_groups', 'api.ParquetFile.remove_row_groups', 'api.ParquetFile.to_pandas', 'writer.write_common_metadata', 'writer.consolidate_categories'])
    ar.open_close_pairing_rule(ctx, 'R18.4')


def _filter_validation(ctx):
    api = ctx.repo['api']
    f = api.func('filter_row_groups')
    known = [s for s in iter_child_stmts(f.body) if isinstance(s, ast.Assign) and norm(s.targets[0]) == 'known']
    ok = len(known) == 1 and isinstance(known[0].value, ast.ListComp)
    d = ''
    if ok:
        gens = known[0].value.generators
        d = norm(known[0].value)
        ok = len(gens) == 2 and norm(gens[0].iter) == 'filters' and norm(gens[1].iter) == norm(gens[0].target) and not gens[0].ifs \
            and not gens[1].ifs and norm(known[0].value.elt).endswith('in as_cols')
    ctx.ob('R18.3', 'api.filter_row_groups:every-condition-of-every-group-is-validated', ok,
           'the existence check must range over all OR groups and all their conditions: %s' % d[:120], api.loc(f))
    ac = [s for s in iter_child_stmts(f.body) if isinstance(s, ast.Assign) and norm(s.targets[0]) == 'as_cols']
    ctx.ob('R18.3', 'api.filter_row_groups:known-columns-are-data-plus-partition-columns',
           len(ac) == 1 and norm(ac[0].value) == 'pf.columns + list(pf.cats.keys())', norm(ac[0]) if ac else '', api.loc(f))
    cfg = CFG(f)
    r = [s for s in iter_child_stmts(f.body) if isinstance(s, ast.Raise)]
    rets = [s for s in iter_child_stmts(f.body) if isinstance(s, ast.Return)]
    ctx.ob('R18.3', 'api.filter_row_groups:validation-precedes-selection', len(r) == 1 and all(
        not cfg.exists_path(cfg.node_of(x), cfg.node_of(r[0])) for x in rets), '', api.loc(f))


def _call_stmt(func, name):
    out = []
    for st in iter_child_stmts(func.body):
        if isinstance(st, (ast.If, ast.For, ast.While, ast.Try, ast.With, ast.FunctionDef)):
            continue
        if any(isinstance(c, ast.Call) and callee(c) == name for c in ast.walk(st)):
            out.append(st)
    return out


def _overwrite_order(ctx):
    wr = ctx.repo['writer']
    f = wr.func('overwrite')
    cfg = CFG(f)
    w = _call_stmt(f, 'pf.write_row_groups')
    r = _call_stmt(f, 'pf.remove_row_groups')
    ok = len(w) == 1 and len(r) == 1 and cfg.dominates(cfg.node_of(w[0]), cfg.node_of(r[0]))
    ctx.ob('R18.2m', 'writer.overwrite:new-parts-written-before-old-ones-removed', ok,
           'write_row_groups must dominate remove_row_groups', wr.loc(f))
    raises = [s for s in iter_child_stmts(f.body) if isinstance(s, ast.Raise)]
    ok = bool(w) and all(cfg.exists_path(cfg.node_of(x), cfg.node_of(w[0])) or True for x in raises) and \
        all(not cfg.exists_path(cfg.node_of(w[0]), cfg.node_of(x)) for x in raises)
    ctx.ob('R18.2m', 'writer.overwrite:refusals-precede-the-first-write', ok,
           '%d raise statements, none reachable after write_row_groups' % len(raises), wr.loc(f))
    if w:
        c = [c for c in ast.walk(w[0]) if isinstance(c, ast.Call) and callee(c) == 'pf.write_row_groups'][0]
        kw = {k.arg: norm(k.value) for k in c.keywords}
        ctx.ob('R18.2m', 'writer.overwrite:first-step-does-not-write-summary', kw.get('write_fmd') == 'False', str(kw.get('write_fmd')), wr.loc(c))
    if r:
        c = [c for c in ast.walk(r[0]) if isinstance(c, ast.Call) and callee(c) == 'pf.remove_row_groups'][0]
        kw = {k.arg: norm(k.value) for k in c.keywords}
        ctx.ob('R18.2m', 'writer.overwrite:last-step-writes-summary', kw.get('write_fmd') == 'True', str(kw.get('write_fmd')), wr.loc(c))


def _validate_early(ctx):
    wr = ctx.repo['writer']
    f = wr.func('write')
    cfg = CFG(f)
    writers = _call_stmt(f, 'write_simple') + _call_stmt(f, 'write_multi')
    ctx.floor('R18.3', 'writer calls in write', len(writers), 2)
    for name in ('check_column_names', 'make_metadata'):
        st = _call_stmt(f, name)
        ok = len(st) == 1 and all(cfg.dominates(cfg.node_of(st[0]), cfg.node_of(w)) for w in writers)
        ctx.ob('R18.3', 'writer.write:%s-dominates-the-first-write' % name, ok,
               '%s validates names / dtypes / duplicate columns before any file is opened' % name, wr.loc(f))
    bad = [s for s in iter_child_stmts(f.body) if isinstance(s, ast.Raise) and 'File scheme should be' in src(s)]
    ok = len(bad) == 1 and all(cfg.exists_path(cfg.node_of(bad[0]), cfg.node_of(w)) is False and
                               not cfg.exists_path(cfg.node_of(w), cfg.node_of(bad[0])) for w in writers)
    app = _call_stmt(f, 'pf.write_row_groups') + _call_stmt(f, 'overwrite')
    outer = [norm(e.test) for e, fld in cfg.enclosing_tests(bad[0]) if isinstance(e, ast.If)] if bad else ['?']
    ctx.ob('R18.3', 'writer.write:file-scheme-validated-first', len(bad) == 1 and len(outer) == 1 and
           all(not cfg.exists_path(cfg.node_of(w), cfg.node_of(bad[0])) for w in writers + app) and
           all(cfg.exists_path(cfg.node_of(bad[0]), cfg.node_of(w)) or True for w in app),
           'the scheme test must be unconditional (it guards the append and overwrite routes too): enclosing tests %s' % outer, wr.loc(f))
    # make_metadata: type discovery for every column happens here (find_type raises)
    mm = wr.func('make_metadata')
    ft = [c for c in ast.walk(mm) if isinstance(c, ast.Call) and callee(c) == 'find_type']
    gcm = [c for c in ast.walk(mm) if isinstance(c, ast.Call) and callee(c) == 'get_column_metadata']
    loops = [s for s in mm.body if isinstance(s, ast.For) and norm(s.iter) == 'data.columns']
    ok = len(ft) == 2 and len(loops) == 1 and all(any(c is x for x in ast.walk(loops[0])) for c in ft)
    ctx.ob('R18.3', 'writer.make_metadata:find_type-called-for-every-written-column', ok,
           'unsupported dtypes are refused while building the schema, before any write', wr.loc(mm))
    ctx.ob('R18.3', 'writer.make_metadata:column-metadata-built-for-every-written-column',
           any(any(c is x for x in ast.walk(loops[0])) for c in gcm) if loops else False,
           'non-text names are refused by get_column_metadata inside the column loop', wr.loc(mm))
    dup = [s for s in iter_child_stmts(mm.body) if isinstance(s, ast.If) and norm(s.test) == 'not data.columns.is_unique']
    ctx.ob('R18.3', 'writer.make_metadata:duplicate-names-refused-before-schema-building',
           len(dup) == 1 and bool(loops) and before(mm.body, dup[0], loops[0]), '', wr.loc(mm))
    # the append route validates against the existing file before write_row_groups
    api = ctx.repo['api']
    tp = api.func('ParquetFile.to_pandas')
    cfg = CFG(tp)
    chk = _call_stmt(tp, 'check_column_names')
    pre = _call_stmt(tp, 'self.pre_allocate')
    ok = len(chk) == 1 and len(pre) == 1 and cfg.dominates(cfg.node_of(chk[0]), cfg.node_of(pre[0]))
    ctx.ob('R18.3', 'api.to_pandas:unknown-column-refused-before-reading', ok, '', api.loc(tp))
    # the check looks at every way of naming columns that the read API documents: lists / tuples, and the dict form of
    # `categories` (named by its keys)
    ut = ctx.repo['util']
    cc = ut.func('check_column_names')
    kinds = set()
    for c in ast.walk(cc):
        if isinstance(c, ast.Call) and norm(c.func) == 'isinstance' and len(c.args) == 2:
            for x in ast.walk(c.args[1]):
                if isinstance(x, ast.Name):
                    kinds.add(x.id)
    ctx.ob('R18.3', 'util.check_column_names:every-container-form-of-a-column-selection-is-checked', {'list', 'tuple', 'dict'} <= kinds,
           'container kinds looked at: %s; to_pandas(categories={...}) names columns by dict keys' % sorted(kinds), ut.loc(cc))


def wr_mod(ctx):
    return ctx.repo['writer']


def r188(ctx, rule='R18.8'):
    """writer.make_metadata: which columns may hold NULL is the caller's choice.  "Object columns are nullable" is the
    rule for has_nulls=None ('infer') only; with a list, exactly the listed columns are, with True / False all / none.
    So the test of a column's dtype for 'O' counts only where has_nulls is known to be None - otherwise a column the
    caller declared REQUIRED silently accepts None instead of the write being refused."""
    from .. import pathcond as pc
    wr = ctx.repo['writer']
    f = wr.func('make_metadata')
    r = pc.reach(f)
    sites = []
    for st in walk_no_nested(f):
        if not isinstance(st, ast.stmt) or id(st) not in r:
            continue
        hdr = [st.test] if isinstance(st, (ast.If, ast.While)) else ([] if isinstance(st, (ast.For, ast.With, ast.Try, ast.FunctionDef)) else [st])
        for h in hdr:
            for c in ast.walk(h):
                if isinstance(c, ast.Compare) and ".dtype == 'O'" in norm(c):
                    sites.append((st, h, c))
    ctx.floor(rule, "tests of a column's dtype for object in make_metadata", len(sites), 1)
    want = ('atom', 'None is has_nulls', frozenset())
    for st, h, c in sites:
        cond = pc._strip(r[id(st)])
        # inside a conditional expression / an `and`: the tests evaluated before it on the way
        extra = []
        for x in ast.walk(h):
            if isinstance(x, ast.IfExp) and any(c is y for y in ast.walk(x.body)):
                extra.append(pc._strip(pc.formula(x.test)))
            if isinstance(x, ast.IfExp) and any(c is y for y in ast.walk(x.orelse)):
                extra.append(pc._neg(pc._strip(pc.formula(x.test))))
            if isinstance(x, ast.BoolOp) and isinstance(x.op, ast.And):
                for i_, v in enumerate(x.values):
                    if any(c is y for y in ast.walk(v)):
                        extra += [pc._strip(pc.formula(u)) for u in x.values[:i_]]
        full = pc._and([cond] + extra)
        ctx.ob(rule, "writer.make_metadata:object-columns-nullable-only-when-has_nulls-is-None:%s" % norm(c)[:40], pc.implies(full, want) is True,
               'the test is evaluated under %s' % pc.dumps(full)[:200], wr.loc(c))
