"""C19 - an append interrupted before the summary update leaves the old dataset intact.

The property rests on ordering; the ordering is a path property of four functions."""
from . import append_route as ar


def run(ctx):
    ctx.technique = 'CFG dominance for parts-first/summary-last, def-use of part numbering, handler scan, I/O ownership of callables'
    ctx.explanation = (
        'Decides, on the multi-file append route (writer.write(append=True) -> write_row_groups -> write_multi '
        '-> partition_on_columns/make_part_file -> _write_common_metadata): (R19.1) every part-file effect '
        'precedes the first effect on _metadata, the part writer is called with write_fmd=False/append=True, '
        '_metadata is written before _common_metadata and is the last file-system step; (R19.2) every part '
        'file is opened "wb" under a name part.(i + offset).parquet with offset = max existing id + 1; '
        '(R19.3) no handler on the route swallows an error raised by a write-side step; (R19.4) all I/O goes '
        'through the caller-supplied open_with/mkdirs; (R19.5) rename/remove/seek/truncate are unreachable.')
    ctx.not_decided = ('what a real file system does at a crash; atomicity of the summary rewrite itself '
                       '(the property only covers interruption before it starts)')
    ctx.assumptions.append('file-system callables mean what their names say (engine/effects.py vocabulary)')
    ctx.trusted_base.append('engine/effects.py (effect vocabulary)')
    ar.parts_first_rule(ctx, 'R19.1')
    ar.fresh_part_rule(ctx, 'R19.2')
    ar.single_file_route_rule(ctx, 'R19.14')
    ar.error_discipline_rule(ctx, 'R19.3')
    ar.io_ownership_rule(ctx, 'R19.4')
    ar.no_remove_rename_rule(ctx, 'R19.5')
    from . import callsigs as _cs
    from . import meta_rules
    meta_rules.rowcount_rule(ctx, 'R19.5', only_modules={'api', 'writer'})
    ar.mode_params_rule(ctx, 'R19.6')
    ar.compat_checks_rule(ctx, 'R19.7')
    ar.kind_checks_rule(ctx, 'R19.7')
    from . import c07 as _c07, c01 as _c01
    _c07.r712(ctx, 'R19.8')
    _c01.r121(ctx, 'R19.9')
    from . import c08 as _c08
    _c08.r84(ctx, ctx.repo['util'])
    # "a fresh open sees exactly the new content": what the part writer puts into the new files (partition groups, unit
    # conversions) and what a fresh handle predicts for them (null-aware dtypes) are part of that
    _c08.r81(ctx, ctx.repo['writer'])
    _c01.r19_floored(ctx, 'R19.10')
    from . import c17 as _c17
    _c17.r176(ctx, 'R19.11')
    from . import findings3 as _f3
    _f3.kind_of_appended_values(ctx, 'R19.12')
    _f3.write_conversions(ctx, 'R19.13')
    _cs.general_rules(ctx, 'R19', ['writer.write', 'writer.write_multi', 'writer.partition_on_columns', 'writer.make_part_file', 'api.ParquetFile.write_row_groups', 'api.ParquetFile._write_common_metadata', 'writer.write_common_metadata', 'api.ParquetFile._dtypes'])
    ar.open_close_pairing_rule(ctx, 'R19.6')
    ar.single_pass_data_rule(ctx, 'R19.7')
