"""C20 - concurrent reads and derived handles: which state is shared and who writes it.

R20.1 shared-write inventory: every store to an object that is not created in the same call,
      in any function reachable from the read-only API, matches a frozen classification
      (per-call output, handle construction, idempotent memo, schema-tree build);
R20.1b the per-call output arrays really are per call (allocated by pre_allocate in the same call);
R20.2 deriving a handle gives the new handle fresh copies of every object that handle
      construction mutates (all schema elements) before _set_attrs runs;
R20.3 the part-file writer mutates only its own copy of the file metadata and never its schema;
R20.4 a memo is published once, in its final form.
"""
import ast
import re

from ..model import AnalysisError, callee, norm, src, walk_no_nested, iter_child_stmts, kwarg
from ..cfg import CFG
from .. import sharedstate as ss

ENTRY = ['to_pandas', 'iter_row_groups', 'head', 'count', 'info', '__len__', 'columns', 'statistics', 'categories',
         'read_row_group_file', 'pre_allocate', '__getitem__', '__getstate__', '__setstate__', 'key_value_metadata',
         'pandas_metadata', 'has_pandas_metadata', 'partition_meta', 'check_categories', 'row_group_filename',
         '_get_index', '_dtypes', 'basepath', '_columns_from_filters', '_column_filter', 'helper', '__str__']

# parameters that carry per-call objects (allocated or parsed during the same API call)
OUTPUT_PARAMS = {
    'core.read_col': {'assign', 'catdef'},
    'core.read_data_page_v2': {'assign', 'idx', 'data_header2'},
    'core.read_row_group': {'assign'},
    'core.read_row_group_arrays': {'assign'},
    'converted_types.convert': {'data'},
}
# (function, origin root, regex on the access suffix) -> (class, reason)
TABLE = [
    ('api.ParquetFile.__getstate__', 'self', r'\.fmd\.row_groups$', 'MEMO', 'normalises None to [] (idempotent)'),
    ('api.ParquetFile.__setstate__', 'self', r'\.__dict__$', 'CONSTRUCT', 'fills the new object'),
    ('api.ParquetFile.__setstate__', 'self', r'\[1\]$', 'MEMO', 'decodes file_path bytes->str in place (idempotent)'),
    ('api.ParquetFile._dtypes', 'self', r'\.(_base_dtype|tz)$', 'MEMO', 'derived from immutable metadata only (no call argument flows in)'),
    ('api.ParquetFile._read_partitions', 'self', r'\.(file_scheme|cats)$', 'CONSTRUCT', 'runs in _set_attrs of a handle being built'),
    ('api.ParquetFile._set_attrs', 'self', r'\.(selfmade|schema|created_by|row_groups|_schema|version|dtypes|_statistics)$', 'CONSTRUCT', 'handle being built (the statistics cache is reset with the row groups)'),
    ('api.ParquetFile.categories', 'self', r'\.(_categories|_columns_dtype)$', 'MEMO', 'idempotent'),
    ('api.ParquetFile.key_value_metadata', 'self', r'\._kvm$', 'MEMO', 'idempotent'),
    ('api.ParquetFile.pandas_metadata', 'self', r'\._pdm$', 'MEMO', 'idempotent'),
    ('api.ParquetFile.statistics', 'self', r'\._statistics$', 'MEMO', 'idempotent'),
    ('api.filter_out_stats', 'rg', r"\['converted_(min|max)'\]$", 'MEMO', 'decoded bound cached on the statistics object (idempotent)'),
    ('json.CodecCache.update', 'self', r'\.(instance|env)$', 'MEMO', 'codec cache'),
    ('json._get_cached_codec', 'global:_codec_cache', r'$', 'MEMO', 'codec cache'),
    ('util.ex_from_sep', 'global:seps', r'\[sep\]$', 'MEMO', 'compiled regex cache (idempotent)'),
    ('schema.SchemaHelper.__init__', 'self', r'\.(_text|schema_elements_by_name|root|schema_elements)$', 'CONSTRUCT', 'helper being built'),
    ('schema.SchemaHelper.__init__', 'schema_elements', r'\.name$', 'TREE', 'decodes element names in place'),
    ('schema._legacy_annotation', 'se', r'\.(converted_type|scale|precision)$', 'TREE', 'fills in the legacy spelling of an annotation given only as logicalType, while the handle is built (idempotent: only when unset)'),
    ('schema.schema_tree', 'schema', r"\['children'\]", 'TREE', 'clears and refills the children dict of every group element'),
    ('schema.flatten', 'root', r"\['children'\]", 'TREE', 'adds flattened paths to the root'),
    ('schema.flatten', 'schema', r"\['isflat'\]$", 'TREE', 'marks flattened groups'),
]


def run(ctx):
    ctx.technique = 'origin-tracked store inventory over the call graph of the read API, frozen classification, CFG single-publication, freshness of derived handles'
    ctx.explanation = (
        'Decides: (R20.1) the complete set of stores to objects not created in the same call, in all '
        'functions reachable from the read-only API, is known and each is a per-call output, handle '
        'construction, an idempotent memo or the schema-tree build; (R20.1b) output arrays are allocated by '
        'pre_allocate in the same call; (R20.2) every derivation site (pf[i], used by head and iter_row_groups) '
        'gives the new handle fresh copies of all schema elements before handle construction mutates them; '
        '(R20.3) make_part_file stores into file metadata only after rebinding it to its own copy and never '
        'into the schema; (R20.4) each memo is published once per path, in its final form.')
    ctx.not_decided = ('freedom from races inside pandas/numpy/fsspec/cramjam; atomicity of the individual memo '
                       'stores under the interpreter; copy.copy(handle), which shares the file metadata by design '
                       'of __getstate__ (not in the property\'s operation list; noted)')
    ctx.trusted_base += ['engine/sharedstate.py (origin tracking)',
                         'frozen classification table TABLE/OUTPUT_PARAMS in engine/rules/c20.py']
    r201(ctx)
    r201b(ctx)
    r202(ctx)
    r203(ctx)
    r206(ctx)
    r208(ctx)
    r209(ctx)
    r2010(ctx)
    from . import c06 as _c06, meta_rules as _mr
    _c06.r64(ctx, ctx.repo['api'])
    _c06.r65(ctx, ctx.repo['api'])
    _mr.filepath_rule(ctx, 'R20.7', only={'util'})
    from . import callsigs as _cs2
    _cs2.scratch_buffer_rule(ctx, 'R20.5')
    from . import callsigs as _cs
    from . import findings3 as _f3
    _f3.mutable_defaults(ctx, 'R20.11')
    _cs.who_may_call_rule(ctx, 'R20.CS16')
    _cs.general_rules(ctx, 'R20', ['api.ParquetFile', 'writer.make_part_file', 'writer.make_row_group', 'core.read_row_group', 'core.read_row_group_arrays', 'writer.write_common_metadata', 'writer.consolidate_categories', 'util.metadata_from_many', 'compression'])


def _reachable(ctx):
    roots = [('api', 'ParquetFile.' + e) for e in ENTRY] + [('api', 'statistics'), ('api', 'sorted_partitioned_columns'),
                                                          ('api', 'filter_row_groups')]
    for k in roots:
        ctx.repo[k[0]].func(k[1])
    return ctx.cg.reachable(roots)


def r201(ctx):
    repo = ctx.repo
    seen = _reachable(ctx)
    ctx.floor('R20.1', 'functions reachable from the read API', len(seen), 80)
    nst = nfresh = 0
    memo_sites = {}
    for k in sorted(seen):
        if k[0] in ('cencoding', 'speedups'):
            continue
        m = repo[k[0]]
        f = m.funcs[k[1]]
        fname = '%s.%s' % k
        if k[0] == 'writer':
            ctx.ob('R20.1', '%s:writer-code-not-reachable-from-read-API' % fname, False,
                   'a function of the writer is reachable from the read-only API', m.loc(f))
            continue
        for s in ss.classified_stores(f, m):
            nst += 1
            o = s['origins'] - {'fresh'}
            if not o:
                nfresh += 1
                continue
            outp = OUTPUT_PARAMS.get(fname, set())
            if o <= outp:
                continue
            cls = None
            for fn, root, pat, c, why in TABLE:
                if fn == fname and root in o and re.search(pat, s['suffix']):
                    cls = c
                    if c == 'MEMO':
                        memo_sites.setdefault((fname, re.sub(r'\s+', '', s['suffix'])), []).append((f, s['node'], m))
                    break
            ctx.ob('R20.1', '%s:%s:%s%s' % (fname, ','.join(sorted(o)), s['kind'], s['suffix'][:60]), cls is not None,
                   'store `%s` to an object derived from %s %s' % (
                       s['target'][:80], sorted(o), 'is classified %s' % cls if cls else
                       'is NOT in the classification of shared-state writes reachable from the read API'),
                   m.loc(s['node']), nontrivial=True)
    ctx.stat('R20.1 stores examined', nst)
    ctx.stat('R20.1 stores on objects created in the same call', nfresh)
    ctx.floor('R20.1', 'stores examined', nst, 120)
    # R20.4 single publication of memos
    for (fname, suffix), sites in sorted(memo_sites.items()):
        f, _, m = sites[0]
        cfg = CFG(f)
        nodes = []
        for _, node, _ in sites:
            st = node
            if not isinstance(st, ast.stmt):
                continue
            if st in cfg.stmt_node:
                nodes.append(cfg.node_of(st))
        multi = [(a, b) for a in nodes for b in nodes if a != b and cfg.exists_path(a, b)]
        # a loop around a single store is not a re-publication of the same memo slot per object
        ctx.ob('R20.4', '%s:memo%s:published-once-per-path' % (fname, suffix[:50]), not multi,
               '%d store site(s); a memo stored in two steps lets another thread observe the intermediate value' % len(nodes),
               m.loc(sites[0][1]))


def r201b(ctx):
    api, core = ctx.repo['api'], ctx.repo['core']
    tp = api.func('ParquetFile.to_pandas')
    # views come from self.pre_allocate in the same call; parts are slices of views
    pa = [s for s in iter_child_stmts(tp.body) if isinstance(s, ast.Assign) and callee(s.value) == 'self.pre_allocate']
    ok = len(pa) == 1 and norm(pa[0].targets[0]) == '(df, views)'
    parts = [s for s in iter_child_stmts(tp.body) if isinstance(s, ast.Assign) and norm(s.targets[0]) == 'parts']
    ok = ok and len(parts) == 1 and 'views.items()' in norm(parts[0].value)
    call = [c for c in ast.walk(tp) if isinstance(c, ast.Call) and callee(c) == 'self.read_row_group_file']
    ok = ok and len(call) == 1 and norm(kwarg(call[0], 'assign')) == 'parts'
    ctx.ob('R20.1b', 'api.to_pandas:output-views-allocated-in-this-call', ok,
           'df, views = self.pre_allocate(...); parts = slices of views; read_row_group_file(assign=parts)', api.loc(tp))
    rr = api.func('ParquetFile.read_row_group_file')
    pa = [s for s in iter_child_stmts(rr.body) if isinstance(s, ast.Assign) and callee(s.value) == 'self.pre_allocate']
    cfg = CFG(rr)
    ok = len(pa) == 1 and norm(pa[0].targets[0]) == '(df, assign)' and \
        [norm(e.test) for e, fld in cfg.enclosing_tests(pa[0]) if isinstance(e, ast.If)] == ['assign is None']
    ctx.ob('R20.1b', 'api.read_row_group_file:allocates-when-no-output-given', ok, '', api.loc(rr))
    c = [c for c in ast.walk(rr) if isinstance(c, ast.Call) and callee(c) == 'core.read_row_group']
    ctx.ob('R20.1b', 'api.read_row_group_file:passes-the-per-call-output', len(c) == 1 and norm(kwarg(c[0], 'assign')) == 'assign', '', api.loc(rr))
    # no caching of outputs or open files on the handle
    for q in ('ParquetFile.to_pandas', 'ParquetFile.read_row_group_file', 'ParquetFile.pre_allocate'):
        f = api.func(q)
        bad = [norm(s)[:60] for s in walk_no_nested(f) if isinstance(s, (ast.Assign, ast.AugAssign))
               and any(isinstance(t, ast.Attribute) and norm(t.value) == 'self' for t in (s.targets if isinstance(s, ast.Assign) else [s.target]))]
        ctx.ob('R20.1b', 'api.%s:no-per-call-scratch-stored-on-the-handle' % q, not bad, str(bad or 'none'), api.loc(f))
    f = api.func('ParquetFile.read_row_group_file')
    opens = [norm(s) for s in iter_child_stmts(f.body) if isinstance(s, ast.Assign) and 'self.open(' in norm(s)]
    ctx.ob('R20.1b', 'api.read_row_group_file:file-handle-is-per-call', opens == ["f = infile or self.open(fn, mode='rb')"], str(opens), api.loc(f))
    pm = _pre = ctx.repo['api'].func('_pre_allocate')
    c = [c for c in ast.walk(pm) if isinstance(c, ast.Call) and callee(c) == 'dataframe.empty']
    ctx.ob('R20.1b', 'api._pre_allocate:allocates-a-new-frame', len(c) == 1, '', api.loc(pm))
    ctx.ob('R20.1b', 'api._pre_allocate:copies-the-partition-category-dict',
           any(isinstance(s, ast.Assign) and norm(s) == 'cats = cs.copy()' for s in pm.body),
           'cats.update(categories) must not write into the handle\'s dict', api.loc(pm))


def _copies_all(expr, src_text):
    """does expr build fresh copies of every element of <src_text>.schema ?"""
    t = norm(expr)
    if 'deepcopy' in t:
        return True
    if isinstance(expr, ast.ListComp) and len(expr.generators) == 1 and not expr.generators[0].ifs:
        g = expr.generators[0]
        elt = norm(expr.elt)
        v = norm(g.target)
        if norm(g.iter).endswith('.schema') and elt in ('%s.copy()' % v, 'copy.copy(%s)' % v, 'copy(%s)' % v,
                                                          'copy.deepcopy(%s)' % v):
            return True
    return False


def r202(ctx):
    api = ctx.repo['api']
    f = api.func('ParquetFile.__getitem__')
    cfg = CFG(f)
    sa = [s for s in iter_child_stmts(f.body) if isinstance(s, ast.Expr) and callee(s.value) in ('new_pf._set_attrs', 'new_pf.__setstate__')]
    st = [s for s in iter_child_stmts(f.body) if isinstance(s, ast.Assign) and norm(s.targets[0]).endswith('.schema')]
    fm = [s for s in iter_child_stmts(f.body) if isinstance(s, ast.Assign) and norm(s.targets[0]) == 'fmd']
    ok = len(fm) == 1 and norm(fm[0].value) in ('copy.copy(self.fmd)', 'copy.deepcopy(self.fmd)', 'self.fmd.copy()')
    ctx.ob('R20.2', 'api.__getitem__:new-handle-gets-its-own-metadata-object', ok, norm(fm[0]) if fm else '', api.loc(f))
    deep = bool(fm) and 'deepcopy' in norm(fm[0].value)
    fresh = deep or (len(st) == 1 and norm(st[0].targets[0]) == 'fmd.schema' and _copies_all(st[0].value, 'fmd'))
    before = deep or (fresh and sa and all(cfg.dominates(cfg.node_of(st[0]), cfg.node_of(x)) for x in sa))
    ctx.ob('R20.2', 'api.__getitem__:fresh-copies-of-every-schema-element-before-handle-construction', bool(fresh and before),
           'handle construction (SchemaHelper/schema_tree/flatten) rewrites name/children/isflat of every schema element '
           'in place; the sliced handle must own copies of all of them: %s' % (norm(st[0]) if st else 'no schema copy'),
           api.loc(st[0]) if st else api.loc(f))
    state = [c for c in ast.walk(f) if isinstance(c, ast.Call) and callee(c) == 'new_pf.__setstate__']
    from .c06 import state_form
    form, given = state_form(state[0]) if len(state) == 1 else (None, {})
    ok = form is not None and 'fmd' in given and norm(given['fmd']) == 'fmd'
    ctx.ob('R20.2', 'api.__getitem__:new-handle-built-from-the-private-metadata', ok, '', api.loc(f))
    if ok and form == 'literal':
        keys = sorted(given)
        allowed = {'fn', 'open', 'fmd', 'pandas_nulls', '_base_dtype', 'tz', '_columns_dtype'}
        from .c06 import _must_assign
        rebuilt = _must_assign(api, 'ParquetFile._set_attrs')    # whatever is forwarded under these names is replaced at once
        extra = [k for k in keys if k not in allowed and k not in rebuilt]
        ctx.ob('R20.2', 'api.__getitem__:derived-handle-inherits-only-dataset-level-state', not extra,
               'state forwarded to the sliced handle: %s; anything computed from the parent\'s row groups (statistics, '
               'category caches ...) is stale for the slice: %s' % (keys, extra or 'none'), api.loc(f))
    if ok:
        from .c06 import _must_assign
        rebuilt = _must_assign(api, 'ParquetFile._set_attrs')
        for k_, v_ in sorted(given.items()):
            if k_ != 'fmd' and k_ not in rebuilt:
                ctx.ob('R20.2', 'api.__getitem__:forwarded-state-%s-is-the-parents-own' % k_, norm(v_) == 'self.%s' % k_,
                       '"%s": %s - a sliced handle answers metadata questions (dtypes, time zones, column index type) from the '
                       'state of the handle it came from; anything else makes partial reads disagree with the full read' % (k_, norm(v_)), api.loc(v_))
    rets = [s for s in iter_child_stmts(f.body) if isinstance(s, ast.Return)]
    ctx.ob('R20.2', 'api.__getitem__:always-returns-the-newly-built-handle',
           len(rets) == 1 and norm(rets[0]) == 'return new_pf' and rets[0] in f.body,
           'returns: %s; a shortcut that hands back the parent (or anything not built from the selection) ignores order, '
           'step and multiplicity of the selection and shares the parent\'s state' % [norm(r) for r in rets], api.loc(f))
    rg = [s for s in iter_child_stmts(f.body) if isinstance(s, ast.Assign) and norm(s.targets[0]) == 'fmd.row_groups']
    ctx.ob('R20.2', 'api.__getitem__:row-group-selection-stored-on-the-private-metadata-only',
           len(rg) == 1 and bool(fm) and cfg.dominates(cfg.node_of(fm[0]), cfg.node_of(rg[0])), '', api.loc(f))
    # users of derivation go through __getitem__
    for q, pat in (('ParquetFile.head', 'self[:i + 1]'), ('ParquetFile.iter_row_groups', 'self[i]')):
        g = api.func(q)
        ctx.ob('R20.2', 'api.%s:derives-through-__getitem__' % q, pat in src(g), pat, api.loc(g))
    # the TREE stores are reachable only through handle construction
    ctx.note('R20.2 note: copy.copy(handle) and pickle share/rebuild state through __getstate__/__setstate__; '
             'copy.copy shares fmd by design and re-runs handle construction on it (not in the property\'s operation list)')
    gs = api.func('ParquetFile.__getstate__')
    ret = [s for s in gs.body if isinstance(s, ast.Return)]
    keys = sorted(norm(k) for k in ret[0].value.keys) if ret and isinstance(ret[0].value, ast.Dict) else []
    # (the zone map may travel with the state or be left out: _dtypes computes it again whenever it is None;
    # without that recomputation it must travel)
    dt = api.func('ParquetFile._dtypes')
    tz_recomputed = any(isinstance(x, ast.If) and 'self.tz is None' in norm(x.test) and any(
        isinstance(y, ast.Assign) and norm(y.targets[0]) == 'self.tz' for y in ast.walk(x)) for x in dt.body)
    need = ["'fn'", "'open'", "'fmd'", "'pandas_nulls'", "'_base_dtype'"]
    ctx.ob('R20.2', 'api.__getstate__:pickled-state-is-metadata-only',
           keys == sorted(need + ["'tz'"]) or (tz_recomputed and keys == sorted(need)), str(keys), api.loc(gs))


def r203(ctx):
    wr = ctx.repo['writer']
    f = wr.func('make_part_file')
    cfg = CFG(f)
    rebinding = [s for s in iter_child_stmts(f.body) if isinstance(s, ast.Assign) and norm(s.targets[0]) == 'fmd'
                 and (norm(s.value) in ('copy(fmd)', 'copy.copy(fmd)', 'fmd.copy()', 'copy.deepcopy(fmd)', 'deepcopy(fmd)')
                      or callee(s.value) in ('parquet_thrift.FileMetaData', 'ThriftObject.from_fields'))]
    stores = [s for s in iter_child_stmts(f.body) if isinstance(s, (ast.Assign, ast.AugAssign)) and
              any(isinstance(t, (ast.Attribute, ast.Subscript)) and ss.root_name(t) == 'fmd'
                  for t in (s.targets if isinstance(s, ast.Assign) else [s.target]))]
    ctx.floor('R20.3', 'stores into file metadata in make_part_file', len(stores), 1)
    for s in stores:
        ok = bool(rebinding) and cfg.set_dominates({cfg.node_of(r) for r in rebinding}, cfg.node_of(s))
        ctx.ob('R20.3', 'writer.make_part_file:store-follows-private-copy:%s' % norm(s)[:40], ok,
               'the file metadata passed in is shared by all part files (and threads); `%s` must act on a copy' % norm(s), wr.loc(s))
        tgt = s.targets[0] if isinstance(s, ast.Assign) else s.target
        ctx.ob('R20.3', 'writer.make_part_file:store-is-top-level-field:%s' % norm(s)[:40],
               isinstance(tgt, ast.Attribute) and norm(tgt.value) == 'fmd',
               'a shallow copy shares nested objects; only top-level fields may be replaced', wr.loc(s))
    # the footer must be serialised from that private object
    wt = [c for c in ast.walk(f) if isinstance(c, ast.Call) and callee(c) == 'write_thrift']
    ctx.ob('R20.3', 'writer.make_part_file:footer-serialised-from-the-private-object',
           all(norm(c.args[1]) == 'fmd' for c in wt) and len(wt) >= 1, '', wr.loc(f))
    for q, shared in (('make_part_file', ['schema']), ('make_row_group', ['schema', 'column']),
                      ('write_column', ['selement'])):
        g = wr.func(q)
        bad = []
        for s in ss.classified_stores(g, wr):
            if s['origins'] & set(shared):
                bad.append(s['target'][:50])
        ctx.ob('R20.3', 'writer.%s:schema-objects-only-read' % q, not bad,
               'stores into the shared schema: %s' % (bad or 'none'), wr.loc(g))


HANDLE_INIT = {'ParquetFile.__init__', 'ParquetFile._set_attrs', 'ParquetFile._parse_header', 'ParquetFile.__setstate__'}
# loads of call-dependent attributes that do not observe the call-dependent part
CALLDEP_LOAD_OK = {
    ('ParquetFile.columns', 'dtypes'): 'iterates the key set only; every value stored by _dtypes has the same keys in the same order',
}


def _taint_at_stores(f):
    """forward pass in source order: yields (store statement on self, is the stored value dependent on a
    parameter other than self).  An assignment from an independent value kills the dependence of its target;
    a subscript store under a loop or branch controlled by a dependent name makes the container dependent."""
    params = {a.arg for a in f.args.args + f.args.kwonlyargs if a.arg != 'self'}
    t = set(params)
    out = []

    def uses(e):
        return any(isinstance(x, ast.Name) and x.id in t for x in ast.walk(e))

    def names(tg):
        return {x.id for x in ast.walk(tg) if isinstance(x, ast.Name)}

    def visit(stmts, controlled):
        for st in stmts:
            if isinstance(st, (ast.FunctionDef, ast.AsyncFunctionDef, ast.ClassDef)):
                continue
            if isinstance(st, ast.Assign):
                dep = uses(st.value) or controlled
                for tg in st.targets:
                    if isinstance(tg, ast.Attribute) and isinstance(tg.value, ast.Name) and tg.value.id == 'self':
                        out.append((st, tg.attr, uses(st.value)))
                    elif isinstance(tg, ast.Subscript) and isinstance(tg.value, ast.Name):
                        if dep:
                            t.add(tg.value.id)
                    elif isinstance(tg, (ast.Name, ast.Tuple, ast.List)):
                        if uses(st.value):
                            t.update(names(tg))
                        else:
                            t.difference_update(names(tg) - params)
            elif isinstance(st, ast.AugAssign):
                if uses(st.value) or controlled:
                    t.update(names(st.target))
            elif isinstance(st, ast.For):
                c = uses(st.iter)
                if c:
                    t.update(names(st.target))
                visit(st.body, controlled or c)
                visit(st.orelse, controlled)
            elif isinstance(st, (ast.If, ast.While)):
                c = uses(st.test)
                visit(st.body, controlled or c)
                visit(st.orelse, controlled or c)
            elif isinstance(st, ast.Try):
                visit(st.body, controlled)
                for h in st.handlers:
                    visit(h.body, controlled)
                visit(st.orelse, controlled)
                visit(st.finalbody, controlled)
            elif isinstance(st, ast.With):
                visit(st.body, controlled)
    visit(f.body, False)
    return out


def r206(ctx):
    """a handle attribute whose stored value depends on the arguments of one call (not only on the file) is an
    output of that call: no read-path code may load it back from the handle, where a concurrent call with
    other arguments may have replaced it"""
    api = ctx.repo['api']
    calldep = {}
    n = 0
    for q, f in api.funcs.items():
        if not q.startswith('ParquetFile.') or q in HANDLE_INIT:
            continue
        for st, attr, dep in _taint_at_stores(f):
            n += 1
            if dep:
                calldep.setdefault(attr, []).append((q, st))
    ctx.floor('R20.6', 'per-call stores on the handle examined', n, 8)
    ctx.stat('R20.6 call-dependent handle attributes', sorted(calldep))
    for attr, sites in sorted(calldep.items()):
        for q, f in api.funcs.items():
            for x in walk_no_nested(f):
                if isinstance(x, ast.Attribute) and x.attr == attr and isinstance(x.ctx, ast.Load) \
                        and isinstance(x.value, ast.Name) and x.value.id in ('self', 'pf'):
                    if (q, attr) in CALLDEP_LOAD_OK:
                        ctx.note('R20.6 exemption %s reads self.%s: %s' % (q, attr, CALLDEP_LOAD_OK[(q, attr)]))
                        continue
                    ctx.ob('R20.6', 'api.%s:does-not-read-back-call-dependent-attribute:%s' % (q, attr), False,
                           'self.%s is stored by %s from values that depend on that call\'s arguments; reading it back here '
                           'observes whichever call stored last' % (attr, sorted({a for a, _ in sites})), api.loc(x))
    for attr, sites in sorted(calldep.items()):
        ctx.ob('R20.6', 'api:call-dependent-attribute-%s-is-write-only-on-the-read-path' % attr, True,
               'stored in %s' % sorted({a for a, _ in sites}), api.loc(sites[0][1]))


def r209(ctx, rule='R20.9'):
    """The statistics objects of the row groups are shared by a handle and everything derived from it, and the pruning
    code adds decoded bounds to them while it runs (a classified memo).  Code of the read API therefore never walks
    those objects in Python: a recursive copy (copy.deepcopy) of the footer, of row groups or of chunks iterates the
    very dicts another thread may be inserting into ("dictionary changed size during iteration").  Shallow copies
    (copy.copy, .copy(), list(...)) are single C-level operations and are what the derivations use."""
    api = ctx.repo['api']
    roots = [('api', 'ParquetFile.' + e) for e in ENTRY] + [('api', 'filter_row_groups'), ('api', 'statistics')]
    seen = ctx.cg.reachable(roots)
    n = 0
    for k in sorted(seen):
        if k[0] not in ('api', 'core', 'util', 'schema', 'dataframe'):
            continue
        m = ctx.repo[k[0]]
        g = m.funcs.get(k[1])
        if g is None:
            continue
        for c in walk_no_nested(g):
            if isinstance(c, ast.Call) and (callee(c) or '').split('.')[-1] == 'deepcopy':
                n += 1
                ctx.ob(rule, '%s.%s:no-recursive-copy-of-shared-metadata-on-the-read-API' % k, False,
                       '`%s` walks metadata that other threads annotate while they prune' % norm(c)[:70], m.loc(c))
    ctx.ob(rule, 'read-API:no-recursive-copies', n == 0, '%d deepcopy call(s) reachable from the read API' % n, 'fastparquet/api.py:1', nontrivial=False)


def r2010(ctx, rule='R20.10'):
    """Every read opens its own file object: `self.open` is the caller's opener or fsspec's, and each to_pandas call
    calls it afresh.  The one exception is a dataset given as an already open file-like object, for which __init__
    installs an opener that returns that very object - all reads, also concurrent ones, then seek and read the same
    object (known finding K20a)."""
    api = ctx.repo['api']
    f = api.func('ParquetFile.__init__')
    shared = []
    for st in walk_no_nested(f):
        if isinstance(st, ast.Assign) and isinstance(st.value, ast.Lambda) and norm(st.targets[0]) in ('open_with', 'self.open'):
            body = st.value.body
            if isinstance(body, ast.Name) and body.id in {a.arg for a in f.args.args}:
                shared.append(st)
    ctx.ob(rule, 'api.ParquetFile.__init__:every-read-gets-its-own-file-object', not shared,
           '%s: the opener hands the caller\'s one file object to every read' % [norm(x)[:60] for x in shared],
           api.loc(shared[0]) if shared else api.loc(f))


def r208(ctx, rule='R20.8'):
    """copy.copy(handle) and pickling go through __getstate__: the state handed to the new handle carries a private
    metadata object with copied schema elements (handle construction rebuilds the schema tree in place on them)"""
    api = ctx.repo['api']
    f = api.func('ParquetFile.__getstate__')
    ret = [s for s in f.body if isinstance(s, ast.Return) and isinstance(s.value, ast.Dict)]
    ok = False
    d = 'no dict returned'
    if ret:
        kv = {norm(k): norm(v) for k, v in zip(ret[0].value.keys, ret[0].value.values)}
        v = kv.get("'fmd'")
        d = "'fmd': %s" % v
        if v and v != 'self.fmd':
            asg = [s for s in f.body if isinstance(s, ast.Assign) and norm(s.targets[0]) == v]
            sch = [s for s in f.body if isinstance(s, ast.Assign) and norm(s.targets[0]) == v + '.schema']
            ok = any('copy' in norm(a.value) and 'self.fmd' in norm(a.value) for a in asg) and any(_copies_all(s.value, v) for s in sch)
    ctx.ob(rule, 'api.__getstate__:new-handle-gets-private-metadata-with-copied-schema-elements', ok, d, api.loc(f))
