"""General regression rules over call sites and parameter objects (today's tree is the reference).

CS.1 dropped argument: for every resolved call site of a repository function, the set of callee
     parameters bound at the site on the pinned tree is frozen in engine/callsigs.json; a site that
     binds fewer of them than the reference passes a default where the caller used to pass its own
     value (file_scheme, compression, filters, verify_schema ...).  Flagged unless the dropped
     argument was the callee's default anyway.
CS.2 explicit argument wins: `p = p or default` keeps the parameter first.
CS.3 ownership of parameter objects: a function stores into an object it received as a parameter
     only if it is a listed owner; everything else must act on a private copy."""
import ast
import json
import os

from ..model import norm, walk_no_nested, iter_child_stmts, callee
from .. import sharedstate as ss
from ..cfg import CFG
from .. import pathcond

REF = os.path.join(os.path.dirname(os.path.dirname(os.path.abspath(__file__))), 'callsigs.json')


def _params(f):
    a = f.args
    return [x.arg for x in a.posonlyargs + a.args + a.kwonlyargs]


def _defaults(f):
    a = f.args
    pos = a.posonlyargs + a.args
    d = {}
    for p, v in zip(pos[len(pos) - len(a.defaults):], a.defaults):
        d[p.arg] = norm(v)
    for p, v in zip(a.kwonlyargs, a.kw_defaults):
        if v is not None:
            d[p.arg] = norm(v)
    return d


def current(ctx):
    """{caller: {callee: [ {param: expr-text} per site in source order ]}}"""
    repo, cg = ctx.repo, ctx.cg
    out = {}
    for (mod, q), edges in cg.edges.items():
        if mod in ('cencoding', 'speedups'):
            continue
        sites = {}
        for call, tgt, text in sorted(edges, key=lambda e: (e[0].lineno, e[0].col_offset)):
            if not tgt:
                continue
            g = repo[tgt[0]].funcs[tgt[1]]
            pg = [p for p in _params(g) if p != 'self']
            if any(k.arg is None for k in call.keywords) or any(isinstance(a, ast.Starred) for a in call.args):
                continue
            bound = {}
            for i, a in enumerate(call.args):
                if i < len(pg):
                    bound[pg[i]] = norm(a)
            for k in call.keywords:
                if k.arg:
                    bound[k.arg] = norm(k.value)
            sites.setdefault('%s.%s' % tgt, []).append((bound, call))
        if sites:
            out['%s.%s' % (mod, q)] = sites
    return out


# functions that rewrite, in place, metadata their callers share (key-value entries, derived handle state): the set of
# functions that call them is part of the design - a new caller makes that caller's argument change under its own callers
WATCHED_MUTATORS = {
    'writer.consolidate_categories': 'rewrites the pandas key-value entry of the metadata it is given',
    'util.update_custom_metadata': 'rewrites the key-value list of the metadata / handle it is given',
}


def who_may_call_rule(ctx, rule):
    """the callers of the watched in-place mutators are those of the reference tree"""
    if not os.path.exists(REF):
        return 0
    ref = json.load(open(REF))
    cur = current(ctx)
    n = 0
    for callee_, why in sorted(WATCHED_MUTATORS.items()):
        ref_callers = {c for c, by in ref.items() if callee_ in by}
        now = {c for c, by in cur.items() if callee_ in by}
        for c in sorted(now):
            n += 1
            # (a nested function counts as its enclosing function, whichever way round)
            known = c in ref_callers or any(c.startswith(r_ + '.') or r_.startswith(c + '.') for r_ in ref_callers)
            mod, q = c.split('.', 1)
            f = ctx.repo[mod].funcs.get(q)
            ctx.ob(rule, '%s:calls-%s-as-on-the-reference-tree' % (c, callee_.split('.')[-1]), known,
                   '%s %s; on the reference tree it is called from %s only' % (callee_, why, sorted(ref_callers)),
                   ctx.repo[mod].loc(f) if f is not None else 'fastparquet/%s.py:1' % mod)
    return n


def dropped_argument_rule(ctx, rule, callers=None):
    if not os.path.exists(REF):
        ctx.note('%s: engine/callsigs.json missing, rule skipped' % rule)
        return 0
    ref = json.load(open(REF))
    cur = current(ctx)
    repo = ctx.repo
    n = 0
    for caller, by_callee in sorted(ref.items()):
        if callers is not None and not any(caller == c or caller.startswith(c + '.') for c in callers):
            continue
        mod = caller.split('.')[0]
        if caller not in cur:
            continue
        for callee_, ref_sites in sorted(by_callee.items()):
            cur_sites = cur[caller].get(callee_, [])
            if len(cur_sites) != len(ref_sites):
                continue          # sites added/removed: not comparable one to one
            tmod, tq = callee_.split('.', 1)
            dflt = _defaults(repo[tmod].funcs[tq]) if tq in repo[tmod].funcs and tmod not in ('cencoding', 'speedups') else {}
            for i, (rb, (cb, call)) in enumerate(zip(ref_sites, cur_sites)):
                n += 1
                dropped = [p for p in rb if p not in cb and dflt.get(p) != rb[p]]
                ctx.ob(rule, '%s->%s#%d:no-argument-dropped' % (caller, callee_, i + 1), not dropped,
                       'arguments no longer passed: %s (on the reference tree this site passed %s); the callee now '
                       'uses its defaults %s' % (dropped, {p: rb[p] for p in dropped}, {p: dflt.get(p) for p in dropped}),
                       repo[mod].loc(call), nontrivial=bool(rb))
    return n


def or_default_rule(ctx, rule, modules=('api', 'writer', 'util', 'core'), callers=None):
    n = 0
    for m, q, f in ctx.repo.functions():
        if m.name not in modules:
            continue
        if callers is not None and not any(('%s.%s' % (m.name, q)) == c or ('%s.%s' % (m.name, q)).startswith(c + '.') or c == m.name for c in callers):
            continue
        params = set(_params(f))
        for s in walk_no_nested(f):
            if isinstance(s, ast.Assign) and len(s.targets) == 1 and isinstance(s.targets[0], ast.Name) \
                    and s.targets[0].id in params and isinstance(s.value, ast.BoolOp) and isinstance(s.value.op, ast.Or):
                p = s.targets[0].id
                ops = [norm(v) for v in s.value.values]
                if p in ops or any(p in {x.id for x in ast.walk(v) if isinstance(x, ast.Name)} for v in s.value.values):
                    n += 1
                    ctx.ob(rule, '%s.%s:explicit-%s-wins-over-default' % (m.name, q, p), ops[0] == p,
                           '`%s`: the caller\'s value must be the first operand of `or`' % norm(s), m.loc(s))
    return n


# functions that may store into an object received as a parameter (in-place by contract)
PARAM_OWNERS = {
    ('writer', 'write_multi', 'fmd'): 'documented: "fmd is modified inplace"',
    ('writer', 'consolidate_categories', 'fmd'): 'updates the pandas key-value entry of the metadata it is given',
    ('util', 'update_custom_metadata', 'obj'): 'the purpose of the function',
    ('writer', 'make_metadata', 'data'): None,
    ('util', 'metadata_from_many', 'file_list'): None,
}


# parameters that carry shared metadata objects (the file metadata, schema elements, row groups, handles)
METADATA_PARAMS = {'fmd', 'schema', 'selement', 'se', 'rg', 'rgs', 'row_groups', 'row_group', 'column', 'chunk', 'obj',
                   'pf', 'pfs', 'file_list', 'schema_elements', 'root', 'helper', 'schema_helper', 'cmd', 'metadata'}


def param_mutation_rule(ctx, rule, modules=('writer', 'util'), callers=None):
    repo = ctx.repo
    n = 0
    for m, q, f in repo.functions():
        if m.name not in modules:
            continue
        if callers is not None and not any(('%s.%s' % (m.name, q)) == c or ('%s.%s' % (m.name, q)).startswith(c + '.') or c == m.name for c in callers):
            continue
        params = set(_params(f))
        cfg = None
        for s in ss.classified_stores(f, m):
            o = (s['origins'] - {'fresh'}) & params
            if not o or s['kind'] == 'global':
                continue
            # only attribute / subscript stores on metadata-like parameters
            for p in sorted(o):
                if p not in METADATA_PARAMS:
                    continue
                n += 1
                owner = (m.name, q.split('.')[0] if False else q, p) in PARAM_OWNERS or (m.name, q, p) in PARAM_OWNERS
                ok = owner
                why = 'listed owner' if owner else ''
                if not ok:
                    # acceptable when the name was rebound to a private copy before the store
                    cfg = cfg or CFG(f)
                    st = s['node'] if isinstance(s['node'], ast.stmt) else None
                    reb = [x for x in iter_child_stmts(f.body) if isinstance(x, ast.Assign) and norm(x.targets[0]) == s['root']
                           and ('copy' in norm(x.value) or callee(x.value) in ('parquet_thrift.FileMetaData', 'ThriftObject.from_fields', 'list', 'dict'))]
                    if st is not None and st in cfg.stmt_node and reb and cfg.set_dominates({cfg.node_of(r) for r in reb}, cfg.node_of(st)):
                        ok, why = True, 'acts on a private copy (%s)' % norm(reb[0])[:40]
                ctx.ob(rule, '%s.%s:stores-into-parameter-%s-only-as-owner-or-on-a-copy:%s' % (m.name, q, p, s['suffix'][:40]), ok,
                       '`%s` writes into the object passed as `%s`%s' % (s['target'][:60], p, ': ' + why if why else
                                                                       ' - callers keep using that object (shared file metadata, '
                                                                       'schema, row groups); mutate a copy instead'), m.loc(s['node']))
    return n

# identity tests against True/False on parameters that exist on the pinned tree (tri-state options)
IDENTITY_TESTS_REF = {
    ('writer.make_metadata', 'has_nulls', 'True'), ('writer.make_metadata', 'has_nulls', 'False'),   # True / False / None / list
    ('api.ParquetFile.to_pandas', 'row_filter', 'True'), ('api.ParquetFile.to_pandas', 'row_filter', 'False'),  # False / True / mask
    ('api.ParquetFile.pre_allocate', 'index', 'False'),   # None / False / names
    ('util.analyse_paths', 'root', 'False'),              # False (infer) / path
}


def flag_identity_rule(ctx, rule, modules=('api', 'writer', 'util', 'core'), callers=None):
    n = 0
    for m, q, f in ctx.repo.functions():
        if m.name not in modules:
            continue
        name = '%s.%s' % (m.name, q)
        if callers is not None and not any(name == c or name.startswith(c + '.') or c == m.name for c in callers):
            continue
        params = set(_params(f))
        # closures see the parameters of the enclosing function as well
        if '.' in q and q.rsplit('.', 1)[0] in m.funcs:
            params |= set(_params(m.funcs[q.rsplit('.', 1)[0]]))
        for c in walk_no_nested(f):
            if isinstance(c, ast.Compare) and len(c.ops) == 1 and isinstance(c.ops[0], (ast.Is, ast.IsNot)) \
                    and isinstance(c.left, ast.Name) and c.left.id in params \
                    and isinstance(c.comparators[0], ast.Constant) and isinstance(c.comparators[0].value, bool):
                n += 1
                key = (name, c.left.id, str(c.comparators[0].value))
                ctx.ob(rule, '%s:%s-tested-by-identity-with-%s' % key, key in IDENTITY_TESTS_REF,
                       '`%s`: a truthy value that is not the literal (numpy.bool_, 1, a non-empty list) silently takes '
                       'the other branch; flags are tested by truthiness on the reference tree' % norm(c), m.loc(c))
    return n


MUTABLE_CTORS = ('np.empty', 'np.zeros', 'np.ones', 'bytearray', 'np.frombuffer', 'NumpyIO', 'cencoding.NumpyIO',
                 'encoding.NumpyIO', 'io.BytesIO', 'np.full')


def scratch_buffer_rule(ctx, rule, modules=('api', 'writer', 'util', 'core', 'encoding', 'converted_types', 'dataframe', 'schema', 'compression')):
    """no module-level array / buffer objects: a buffer shared by all calls is shared by all threads"""
    n = 0
    for mn in modules:
        m = ctx.repo[mn]
        for name, vals in m.assigns.items():
            for v in vals:
                if isinstance(v, tuple):
                    continue
                n += 1
                bad = (isinstance(v, ast.Call) and (callee(v) in MUTABLE_CTORS)) or (
                    isinstance(v, (ast.List, ast.Tuple, ast.Dict, ast.Set)) and any(
                        isinstance(c, ast.Call) and callee(c) in MUTABLE_CTORS for c in ast.walk(v)))
                ctx.ob(rule, '%s.%s:module-level-name-is-not-a-shared-buffer' % (mn, name), not bad,
                       '%s = %s at module level: a scratch buffer that every call (and thread) reuses' % (name, norm(v)[:60]),
                       m.loc(v), nontrivial=False)
    for mn in tuple(modules):
        m = ctx.repo[mn]
        for q, f in m.funcs.items():
            for st in walk_no_nested(f):
                if isinstance(st, ast.Global):
                    n += 1
                    ok = (mn, q) in GLOBAL_OK
                    ctx.ob(rule, '%s.%s:no-module-state-rebound-by-a-call:%s' % (mn, q, ','.join(st.names)), ok,
                           '`global %s` in %s.%s: state kept between calls (a cached buffer, a last result) is shared by every '
                           'caller and thread, and what one call hands out the next one overwrites' % (', '.join(st.names), mn, q), m.loc(st))
    return n


# functions that rebind module state on the pinned tree, each with the reason it is harmless
GLOBAL_OK = {}

LOOPEXITS_REF = os.path.join(os.path.dirname(os.path.dirname(os.path.abspath(__file__))), 'loopexits.json')


def loop_exits(f):
    """[(kind, guard text)] for every break/continue of f, guard = innermost enclosing if-test"""
    out = []
    cfg = CFG(f)
    # loops directly followed by a `return`: leaving such a loop with `break` is leaving the function
    tail_ret = set()
    for blk in _blocks_all(f.body):
        for a, b in zip(blk, blk[1:]):
            if isinstance(a, (ast.For, ast.While)) and isinstance(b, ast.Return) and not a.orelse:
                tail_ret.add(id(a))
    for s in iter_child_stmts(f.body):
        if isinstance(s, (ast.Break, ast.Continue)):
            enc = cfg.enclosing_tests(s)
            tests = [norm(e.test) for e, fld in enc if isinstance(e, ast.If)]
            loops = [e for e, fld in enc if isinstance(e, (ast.For, ast.While))]
            out.append([type(s).__name__.lower(), tests[-1] if tests else '', bool(isinstance(s, ast.Break) and loops and id(loops[-1]) in tail_ret)])
    return out


def _return_guards(f):
    """tests of the ifs inside loops whose body ends in `return`"""
    out = set()
    for lp in walk_no_nested(f):
        if isinstance(lp, (ast.For, ast.While)):
            for x in ast.walk(lp):
                if isinstance(x, ast.If) and x.body and isinstance(x.body[-1], ast.Return):
                    out.add(norm(x.test))
    return out


def loop_exit_rule(ctx, rule, callers=None):
    """a loop exit that exists on the reference tree under a guard must still be the same kind of exit
    under that guard: `continue` (skip this element) vs `break` (stop the loop) changes which elements
    are processed, and a vanished exit changes which are skipped"""
    if not os.path.exists(LOOPEXITS_REF):
        return 0
    ref = json.load(open(LOOPEXITS_REF))
    n = 0
    for m, q, f in ctx.repo.functions():
        name = '%s.%s' % (m.name, q)
        if name not in ref:
            continue
        if callers is not None and not any(name == c or name.startswith(c + '.') or c == m.name for c in callers):
            continue
        cur = loop_exits(f)
        guards_now = {norm(x.test) for x in ast.walk(f) if isinstance(x, ast.If)}
        ret_guards = _return_guards(f)
        for ent in ref[name]:
            kind, guard = ent[0], ent[1]
            n += 1
            same = [e[0] for e in cur if e[1] == guard]
            if guard not in guards_now and guard:
                continue        # the guard itself was rewritten: not comparable
            ok = kind in same
            # `flag = v; break` + `return flag` after the loop and `return v` inside it leave the function the same way
            if not ok and kind == 'break' and len(ent) > 2 and ent[2] and guard in ret_guards:
                ok = True
            ctx.ob(rule, '%s:%s-under-`%s`-still-a-%s' % (name, kind, guard[:50], kind), ok,
                   'on the reference tree `if %s:` ends in `%s`; now it ends in %s' % (guard[:70], kind, same or 'no loop exit'),
                   m.loc(f))
    return n

SIBLINGS_REF = os.path.join(os.path.dirname(os.path.dirname(os.path.abspath(__file__))), 'siblings.json')


def _arm_tokens(body):
    out = []
    for st in iter_child_stmts(body):
        if isinstance(st, (ast.If, ast.While)):
            out += ['<%s>' % type(st).__name__] + norm(st.test).split()
        elif isinstance(st, ast.For):
            out += ['<For>'] + norm(st.target).split() + ['in'] + norm(st.iter).split()
        elif isinstance(st, (ast.Try, ast.With)):
            out.append('<%s>' % type(st).__name__)
        else:
            out += norm(st).split() + [';']
    return out


def sibling_pairs(f):
    """if/else (or if/elif) arms of f with at least two statements each"""
    import difflib
    out = []
    for n in walk_no_nested(f):
        if isinstance(n, ast.If) and n.body and n.orelse:
            orelse = n.orelse
            if len(orelse) == 1 and isinstance(orelse[0], ast.If):
                orelse = orelse[0].body
            a, b = _arm_tokens(n.body), _arm_tokens(orelse)
            if len(list(iter_child_stmts(n.body))) >= 2 and len(list(iter_child_stmts(orelse))) >= 2:
                sm = difflib.SequenceMatcher(None, a, b, autojunk=False)
                diff = sorted({'%s -> %s' % (' '.join(a[i1:i2]), ' '.join(b[j1:j2]))
                               for tag, i1, i2, j1, j2 in sm.get_opcodes() if tag != 'equal'})
                out.append((norm(n.test), round(sm.ratio(), 3), diff, n))
    return out


def sibling_rule(ctx, rule, callers=None):
    """two arms that are near-copies of each other on the reference tree may only change together"""
    if not os.path.exists(SIBLINGS_REF):
        return 0
    ref = json.load(open(SIBLINGS_REF))
    n = 0
    for m, q, f in ctx.repo.functions():
        name = '%s.%s' % (m.name, q)
        if name not in ref:
            continue
        if callers is not None and not any(name == c or name.startswith(c + '.') or c == m.name for c in callers):
            continue
        cur = {t: (ratio, diff, node) for t, ratio, diff, node in sibling_pairs(f)}
        for test, rdiff in ref[name].items():
            if test not in cur:
                continue          # the branching itself was restructured: not comparable
            n += 1
            ratio, diff, node = cur[test]
            new = [d for d in diff if d not in rdiff]
            ctx.ob(rule, '%s:sibling-arms-of-`%s`-change-together' % (name, test[:50]), not new,
                   'the two arms of `if %s` are near-copies on the reference tree; they now differ in a new way: %s' % (
                       test[:60], [d[:100] for d in new[:3]] or 'no'), m.loc(node))
    return n

def callsite_agreement_rule(ctx, rule, callers=None):
    """call sites of one callee inside one function that passed the same expression for a parameter on
    the reference tree must still pass the same expression as each other"""
    if not os.path.exists(REF):
        return 0
    ref = json.load(open(REF))
    cur = current(ctx)
    n = 0
    for caller, by_callee in sorted(ref.items()):
        if callers is not None and not any(caller == c or caller.startswith(c + '.') or c == caller.split('.')[0] for c in callers):
            continue
        if caller not in cur:
            continue
        mod = caller.split('.')[0]
        for callee_, ref_sites in sorted(by_callee.items()):
            if len(ref_sites) < 2:
                continue
            cur_sites = cur[caller].get(callee_, [])
            if len(cur_sites) != len(ref_sites):
                continue
            shared = [p for p in ref_sites[0] if all(p in rs and rs[p] == ref_sites[0][p] for rs in ref_sites)]
            for p in shared:
                n += 1
                vals = [cb.get(p) for cb, _ in cur_sites]
                ok = len(set(vals)) == 1
                odd = [i for i, v in enumerate(vals) if vals.count(v) == 1] if not ok else []
                call = cur_sites[odd[0]][1] if odd else cur_sites[0][1]
                ctx.ob(rule, '%s->%s:call-sites-agree-on-%s' % (caller, callee_, p), ok,
                       'the %d calls of %s in %s all passed `%s` for `%s`; now they pass %s' % (
                           len(ref_sites), callee_, caller, ref_sites[0][p][:50], p, sorted(set(str(v)[:50] for v in vals))),
                       ctx.repo[mod].loc(call))
    return n


IFCHAINS_REF = os.path.join(os.path.dirname(os.path.dirname(os.path.abspath(__file__))), 'ifchains.json')


def if_chain_pairs(f):
    """[(kind, test A, test B)]: kind 'sib' when `if A: ...` is directly followed by an independent `if B: ...`,
    'elif' when B is the else-branch of A"""
    out = []
    for blk in _blocks_all(f.body):
        for a, b in zip(blk, blk[1:]):
            if isinstance(a, ast.If) and isinstance(b, ast.If):
                # (a second `if` after an `if` whose body always leaves is reached exactly when an `elif` would be)
                out.append(['elif' if not a.orelse and pathcond.always_leaves(a.body) else 'sib', norm(a.test), norm(b.test)])
    for x in walk_no_nested(f):
        if isinstance(x, ast.If) and len(x.orelse) == 1 and isinstance(x.orelse[0], ast.If):
            out.append(['elif', norm(x.test), norm(x.orelse[0].test)])
    return out


def _blocks_all(stmts):
    yield stmts
    for st in stmts:
        if isinstance(st, (ast.FunctionDef, ast.AsyncFunctionDef, ast.ClassDef)):
            continue
        for fld in ('body', 'orelse', 'finalbody'):
            sub = getattr(st, fld, None)
            if isinstance(sub, list) and sub:
                yield from _blocks_all(sub)
        for h in getattr(st, 'handlers', []) or []:
            yield from _blocks_all(h.body)


def if_chain_rule(ctx, rule, callers=None):
    """two tests that are independent on the reference tree (both evaluated) must not become alternatives
    (`elif`: the second is skipped whenever the first holds), and the reverse"""
    if not os.path.exists(IFCHAINS_REF):
        return 0
    ref = json.load(open(IFCHAINS_REF))
    n = 0
    for m, q, f in ctx.repo.functions():
        name = '%s.%s' % (m.name, q)
        if name not in ref:
            continue
        if callers is not None and not any(name == c or name.startswith(c + '.') or c == m.name for c in callers):
            continue
        cur = {(a, b): k for k, a, b in if_chain_pairs(f)}
        for kind, a, b in ref[name]:
            now = cur.get((a, b))
            if now is None:
                continue          # one of the tests was rewritten or statements were inserted: not comparable
            n += 1
            ctx.ob(rule, '%s:`%s`-then-`%s`-still-%s' % (name, a[:40], b[:40], 'independent' if kind == 'sib' else 'alternatives'),
                   now == kind, 'reference: %s; now: %s' % (kind, now), m.loc(f))
    return n


GUARDS_REF = os.path.join(os.path.dirname(os.path.dirname(os.path.abspath(__file__))), 'guards.json')


def _guard_nodes(f):
    out = []
    for x in walk_no_nested(f):
        if isinstance(x, (ast.If, ast.While, ast.IfExp)):
            out.append(x.test)
        elif isinstance(x, ast.comprehension):
            out.extend(x.ifs)          # a comprehension filter guards the element expression
    return out


def guard_texts(f):
    return sorted(norm(t) for t in _guard_nodes(f))


def _operands(e, op):
    if isinstance(e, ast.BoolOp) and isinstance(e.op, op):
        return [norm(v) for v in e.values]
    return [norm(e)]


GUARDEFF_REF = os.path.join(os.path.dirname(os.path.dirname(os.path.abspath(__file__))), 'guardeff.json')


def guard_effective(f):
    """[(test text, formula under which the guarded body runs)] for the if / while statements of f: the test AND
    the condition under which the statement is reached (enclosing tests, earlier guard clauses)"""
    return sorted(([norm(st.test), pathcond.to_json(e)] for st, e in pathcond.effective(f)), key=lambda x: (x[0], json.dumps(x[1], sort_keys=True)))


def guard_conjunct_rule(ctx, rule, callers=None):
    """a condition of the pinned tree that disappears while a new condition appears which is the old one with a
    conjunct/disjunct added or taken away: the guarded statements now run for fewer (or more) cases"""
    if not os.path.exists(GUARDS_REF):
        return 0
    ref = json.load(open(GUARDS_REF))
    effref = json.load(open(GUARDEFF_REF)) if os.path.exists(GUARDEFF_REF) else {}
    n = 0
    for m, q, f in ctx.repo.functions():
        name = '%s.%s' % (m.name, q)
        if name not in ref:
            continue
        if callers is not None and not any(name == c or name.startswith(c + '.') or c == m.name for c in callers):
            continue
        cur_nodes = _guard_nodes(f)
        cur = [norm(t) for t in cur_nodes]
        gone = list(ref[name])
        new = []
        for t, node in zip(cur, cur_nodes):
            if t in gone:
                gone.remove(t)
            else:
                new.append((t, node))
        if not gone or not new:
            continue
        # the same control flow spelled differently (nested / joined with `and`, a conjunct left out where an earlier
        # guard clause already established it): the body runs under an equivalent condition - not a changed guard
        cur_eff = {}
        for st, e in pathcond.effective(f):
            cur_eff[id(st.test)] = e
        ref_eff = {}
        for t, e in effref.get(name, []):
            ref_eff.setdefault(t, []).append(pathcond.from_json(e))
        for old in list(gone):
            for t, node in list(new):
                e_new = cur_eff.get(id(node))
                if e_new is None:
                    continue
                hit = [e for e in ref_eff.get(old, []) if pathcond.equivalent(e, pathcond._strip(e_new)) is True]
                if hit:
                    ref_eff[old].remove(hit[0])
                    gone.remove(old)
                    new.remove((t, node))
                    break
        for old in gone:
            try:
                old_node = ast.parse(old, mode='eval').body
            except SyntaxError:
                continue
            for t, node in new:
                # the same, read as formulas: `x == 'a'` -> `x in ('a', 'b')` widens, `a or b` -> `a` narrows, however spelled
                f_old, f_new = pathcond._strip(pathcond.formula(old_node)), pathcond._strip(pathcond.formula(node))
                a_old, a_new = pathcond.atoms(f_old), pathcond.atoms(f_new)
                if a_old and a_new and (a_old <= a_new or a_new <= a_old) and (a_old & a_new) and pathcond.equivalent(f_old, f_new) is False:
                    wide, narrow = pathcond.implies(f_old, f_new), pathcond.implies(f_new, f_old)
                    if wide is True or narrow is True:
                        n += 1
                        ctx.ob(rule, '%s:guard-`%s`-keeps-its-operands' % (name, old[:60]), False,
                               'on the reference tree the guard is `%s`; now it is `%s`: the guarded code %s' % (
                                   old[:90], t[:120], 'runs in more cases' if wide is True else 'runs in fewer cases'), m.loc(node))
                        continue
                for op, wider, narrower in ((ast.And, 'runs in more cases (a conjunct was dropped)', 'runs in fewer cases (a conjunct was added)'),
                                            (ast.Or, 'runs in fewer cases (an alternative was dropped)', 'runs in more cases (an alternative was added)')):
                    a, b = _operands(old_node, op), _operands(node, op)
                    if len(a) != len(b) and (set(a) < set(b) or set(b) < set(a)):
                        n += 1
                        grew = set(a) < set(b)
                        what = narrower if grew else wider
                        if op is ast.Or:
                            what = (wider if not grew else narrower)
                        ctx.ob(rule, '%s:guard-`%s`-keeps-its-operands' % (name, old[:60]), False,
                               'on the reference tree the guard is `%s`; now it is `%s`: the guarded code %s' % (old[:90], t[:120], what),
                               m.loc(node))
    return n


LOOPSTORES_REF = os.path.join(os.path.dirname(os.path.dirname(os.path.abspath(__file__))), 'loopstores.json')


def loop_stores(f):
    """[(target text, depends on a name bound by the enclosing loop)] for every attribute/subscript store whose
    target goes through a loop variable: `for v in X: v.a = E`"""
    out = []
    for loop in [x for x in walk_no_nested(f) if isinstance(x, ast.For)]:
        bound = {n.id for n in ast.walk(loop.target) if isinstance(n, ast.Name)}
        local = set(bound)
        for st in ast.walk(loop):
            if isinstance(st, ast.Assign):
                for tg in st.targets:
                    for n in ast.walk(tg):
                        if isinstance(n, ast.Name) and isinstance(n.ctx, ast.Store):
                            local.add(n.id)
            elif isinstance(st, (ast.For, ast.comprehension)) and st is not loop:
                for n in ast.walk(st.target):
                    if isinstance(n, ast.Name):
                        local.add(n.id)
        for st in ast.walk(loop):
            if isinstance(st, ast.Assign) and len(st.targets) == 1 and isinstance(st.targets[0], (ast.Attribute, ast.Subscript)):
                tg = st.targets[0]
                base = {n.id for n in ast.walk(tg) if isinstance(n, ast.Name)}
                if not base & local:
                    continue
                dep = any(isinstance(n, ast.Name) and n.id in local for n in ast.walk(st.value))
                out.append([norm(tg), bool(dep)])
    return out


def loop_store_rule(ctx, rule, callers=None):
    """a value stored into each element of a loop that was computed from that element (or from something bound
    inside the loop) on the pinned tree is still computed per element: a hoisted, loop-invariant value gives
    every element the first element's answer"""
    if not os.path.exists(LOOPSTORES_REF):
        return 0
    ref = json.load(open(LOOPSTORES_REF))
    n = 0
    for m, q, f in ctx.repo.functions():
        name = '%s.%s' % (m.name, q)
        if name not in ref:
            continue
        if callers is not None and not any(name == c or name.startswith(c + '.') or c == m.name for c in callers):
            continue
        cur = {}
        for t, dep in loop_stores(f):
            cur.setdefault(t, []).append(dep)
        for t, dep in ref[name]:
            if not dep or t not in cur:
                continue
            n += 1
            ctx.ob(rule, '%s:per-element-store-`%s`-computed-per-element' % (name, t[:50]), any(cur[t]),
                   'on the reference tree the value stored into `%s` depends on the loop element; now it is loop-invariant' % t, m.loc(f))
    return n


STMTGUARDS_REF = os.path.join(os.path.dirname(os.path.dirname(os.path.abspath(__file__))), 'stmtguards.json')


def call_stmt_guards(f):
    """{statement text: [enclosing if/while tests with the arm]} for call statements that occur once in f"""
    cfg = CFG(f)
    seen = {}
    for st in iter_child_stmts(f.body):
        if isinstance(st, ast.Expr) and isinstance(st.value, ast.Call):
            t = norm(st)
            g = sorted('%s/%s' % (norm(e.test), fld) for e, fld in cfg.enclosing_tests(st) if isinstance(e, (ast.If, ast.While)))
            seen.setdefault(t, []).append(g)
    return {t: g[0] for t, g in seen.items() if len(g) == 1}


STMTREACH_REF = os.path.join(os.path.dirname(os.path.dirname(os.path.abspath(__file__))), 'stmtreach.json')


def call_stmt_reach(f):
    """{statement text: formula} - the condition under which each call statement that occurs once in f is reached"""
    r = pathcond.reach(f)
    seen = {}
    for st in iter_child_stmts(f.body):
        if isinstance(st, ast.Expr) and isinstance(st.value, ast.Call) and id(st) in r:
            seen.setdefault(norm(st), []).append(pathcond.to_json(r[id(st)]))
    return {t: g[0] for t, g in seen.items() if len(g) == 1}


def stmt_guard_rule(ctx, rule, callers=None):
    """a call statement that exists once on the pinned tree and still exists keeps its set of enclosing conditions:
    an added condition makes a previously unconditional step optional (directory creation, handle refresh ...), a
    removed one runs it where it was excluded"""
    if not os.path.exists(STMTGUARDS_REF):
        return 0
    ref = json.load(open(STMTGUARDS_REF))
    reachref = json.load(open(STMTREACH_REF)) if os.path.exists(STMTREACH_REF) else {}
    n = 0
    for m, q, f in ctx.repo.functions():
        name = '%s.%s' % (m.name, q)
        if name not in ref:
            continue
        if callers is not None and not any(name == c or name.startswith(c + '.') or c == m.name for c in callers):
            continue
        cur = call_stmt_guards(f)
        cur_reach = call_stmt_reach(f)
        all_tests = set(guard_texts(f))
        for t, g in ref[name].items():
            if t not in cur:
                continue
            now = cur[t]
            if now == g:
                n += 1
                continue
            # the same conditions spelled differently (else-arm / `continue` and dedent, nested / joined, test turned round)
            if t in reachref.get(name, {}) and t in cur_reach and \
                    pathcond.equivalent(pathcond.from_json(reachref[name][t]), pathcond.from_json(cur_reach[t])) is True:
                n += 1
                continue
            added = [x for x in now if x not in g]
            lost = [x for x in g if x not in now]
            # a reference guard whose test text no longer exists anywhere was rewritten, not removed: not comparable
            if any(x.rsplit('/', 1)[0] not in all_tests for x in lost):
                continue
            n += 1
            ctx.ob(rule, '%s:`%s`-runs-under-the-same-conditions' % (name, t[:60]), False,
                   'conditions added: %s; conditions no longer enclosing it: %s' % (added or 'none', lost or 'none'), m.loc(f))
    return n


GUARDNAMES_REF = os.path.join(os.path.dirname(os.path.dirname(os.path.abspath(__file__))), 'guardnames.json')


def name_guards(f):
    """[(guard name, text of the first guarded statement)] for `if <name>:` / `if not <name>:` blocks"""
    out = []
    for x in walk_no_nested(f):
        if isinstance(x, ast.If) and x.body:
            t = x.test
            neg = isinstance(t, ast.UnaryOp) and isinstance(t.op, ast.Not)
            if neg:
                t = t.operand
            if isinstance(t, ast.Name):
                out.append([('not ' if neg else '') + t.id, norm(x.body[0])[:120]])
    return out


def guard_name_rule(ctx, rule, callers=None):
    """a block guarded by the truth of one variable on the pinned tree is still guarded by that variable: a swap to a
    similarly named one (`categories` / `cats`, `rg` / `rgs`) silently changes when the block runs"""
    if not os.path.exists(GUARDNAMES_REF):
        return 0
    ref = json.load(open(GUARDNAMES_REF))
    n = 0
    for m, q, f in ctx.repo.functions():
        name = '%s.%s' % (m.name, q)
        if name not in ref:
            continue
        if callers is not None and not any(name == c or name.startswith(c + '.') or c == m.name for c in callers):
            continue
        cur = {}
        for g, b in name_guards(f):
            cur.setdefault(b, []).append(g)
        refd = {}
        for g, b in ref[name]:
            refd.setdefault(b, []).append(g)
        for b, gs in refd.items():
            if len(gs) != 1 or b not in cur or len(cur[b]) != 1:
                continue
            n += 1
            ctx.ob(rule, '%s:block-`%s`-guarded-by-%s' % (name, b[:40], gs[0]), cur[b][0] == gs[0],
                   'on the reference tree this block runs under `if %s:`; now under `if %s:`' % (gs[0], cur[b][0]), m.loc(f))
    return n


SCRATCH_REF = os.path.join(os.path.dirname(os.path.dirname(os.path.abspath(__file__))), 'scratchsizes.json')


def scratch_sizes(f):
    """[(allocator text, constant size)] for fixed-size scratch allocations `np.empty(<int>, ...)`"""
    out = []
    for c in walk_no_nested(f):
        if isinstance(c, ast.Call) and callee(c) in ('np.empty', 'np.zeros', 'bytearray') and c.args \
                and isinstance(c.args[0], ast.Constant) and isinstance(c.args[0].value, int):
            out.append([norm(c.func), c.args[0].value])
    return out


def scratch_capacity_rule(ctx, rule, callers=None):
    """a fixed-size scratch buffer (varint / header staging) is not smaller than on the pinned tree: the writers into
    such buffers (NumpyIO.write_byte) drop bytes past the end silently"""
    if not os.path.exists(SCRATCH_REF):
        return 0
    ref = json.load(open(SCRATCH_REF))
    n = 0
    for m, q, f in ctx.repo.functions():
        name = '%s.%s' % (m.name, q)
        if name not in ref:
            continue
        if callers is not None and not any(name == c or name.startswith(c + '.') or c == m.name for c in callers):
            continue
        cur = scratch_sizes(f)
        if len(cur) != len(ref[name]):
            continue
        for (a, size), (a0, size0) in zip(cur, ref[name]):
            n += 1
            ctx.ob(rule, '%s:scratch-buffer-%s-not-smaller-than-%d' % (name, a0, size0), size >= size0,
                   '%s(%d) where the reference tree allocates %d bytes: a header that no longer fits is cut off without an error' % (a, size, size0), m.loc(f))
    return n


STATE_FLAGS = {
    ('cencoding._assemble_objects', 'have_null'): 'state of the list being assembled (does the current list hold a null), '
                                                  'deliberately re-evaluated per element; not a summary of the loop',
}


def flag_accumulation_rule(ctx, rule, callers=None):
    """a boolean flag set to a constant before a loop and consulted after it summarises *all* elements:
    inside the loop it may only be set to the opposite constant, or-ed/and-ed with itself, or assigned right
    before leaving the loop.  `flag = <per-element test>` makes the last element decide."""
    n = 0
    for m, q, f in ctx.repo.functions():
        name = '%s.%s' % (m.name, q)
        if callers is not None and not any(name == c or name.startswith(c + '.') or c == m.name for c in callers):
            continue
        for loop in [x for x in walk_no_nested(f) if isinstance(x, (ast.For, ast.While))]:
            parent_body = _body_containing(f, loop)
            if parent_body is None:
                continue
            i = parent_body.index(loop)
            inits = {}
            for st in parent_body[:i]:
                if isinstance(st, ast.Assign) and len(st.targets) == 1 and isinstance(st.targets[0], ast.Name) \
                        and isinstance(st.value, ast.Constant) and (isinstance(st.value.value, bool) or st.value.value in (0, 1)):
                    inits[st.targets[0].id] = st.value.value
            if not inits:
                continue
            read_after = set()
            nonbool = set()
            for st in parent_body[i + 1:]:
                boolctx = set()
                for x in ast.walk(st):
                    if isinstance(x, (ast.If, ast.While, ast.IfExp)) and isinstance(x.test, ast.Name):
                        boolctx.add(id(x.test))
                    if isinstance(x, ast.UnaryOp) and isinstance(x.op, ast.Not) and isinstance(x.operand, ast.Name):
                        boolctx.add(id(x.operand))
                    if isinstance(x, ast.BoolOp):
                        boolctx |= {id(v) for v in x.values if isinstance(v, ast.Name)}
                for x in ast.walk(st):
                    if isinstance(x, ast.Name) and isinstance(x.ctx, ast.Load):
                        read_after.add(x.id)
                        if id(x) not in boolctx:
                            nonbool.add(x.id)
            # only flags: every later use is a truth test
            read_after -= nonbool
            for blk in _blocks(loop.body):
                for j, st in enumerate(blk):
                    if not (isinstance(st, ast.Assign) and len(st.targets) == 1 and isinstance(st.targets[0], ast.Name)):
                        continue
                    v = st.targets[0].id
                    if v not in inits or v not in read_after:
                        continue
                    if (name, v) in STATE_FLAGS:
                        ctx.note('%s exemption %s:%s: %s' % (rule, name, v, STATE_FLAGS[(name, v)]))
                        continue
                    n += 1
                    val = st.value
                    const = isinstance(val, ast.Constant) and (isinstance(val.value, bool) or val.value in (0, 1))
                    selfref = any(isinstance(x, ast.Name) and x.id == v for x in ast.walk(val))
                    leaves = any(isinstance(s2, (ast.Break, ast.Return, ast.Raise)) for s2 in blk[j + 1:])
                    ctx.ob(rule, '%s:%s-accumulates-over-the-loop' % (name, v), const or selfref or leaves,
                           '`%s` inside the loop over `%s`: the flag starts as %s and is read after the loop, so a per-element '
                           'assignment lets the last element decide' % (norm(st)[:70], norm(getattr(loop, 'iter', getattr(loop, 'test', loop)))[:40], inits[v]),
                           m.loc(st))
    return n


def _blocks(stmts):
    yield stmts
    for st in stmts:
        if isinstance(st, (ast.FunctionDef, ast.AsyncFunctionDef, ast.ClassDef, ast.For, ast.While)):
            continue
        for fld in ('body', 'orelse', 'finalbody'):
            sub = getattr(st, fld, None)
            if isinstance(sub, list) and sub:
                yield from _blocks(sub)
        for h in getattr(st, 'handlers', []) or []:
            yield from _blocks(h.body)


def _body_containing(f, node):
    for x in ast.walk(f):
        for fld in ('body', 'orelse', 'finalbody'):
            sub = getattr(x, fld, None)
            if isinstance(sub, list) and any(y is node for y in sub):
                return sub
        for h in getattr(x, 'handlers', []) or []:
            if any(y is node for y in h.body):
                return h.body
    return None


def general_rules(ctx, tag, callers):
    """the generic regression rules restricted to the functions a property depends on"""
    from . import threading as _thr
    _thr.threading_rule(ctx, tag + '.T', callers)
    dropped_argument_rule(ctx, tag + '.CS1', callers)
    or_default_rule(ctx, tag + '.CS2', callers=callers)
    param_mutation_rule(ctx, tag + '.CS3', callers=callers)
    flag_identity_rule(ctx, tag + '.CS4', callers=callers)
    loop_exit_rule(ctx, tag + '.CS6', callers=callers)
    sibling_rule(ctx, tag + '.CS7', callers=callers)
    callsite_agreement_rule(ctx, tag + '.CS8', callers=callers)
    flag_accumulation_rule(ctx, tag + '.CS9', callers=callers)
    if_chain_rule(ctx, tag + '.CS10', callers=callers)
    guard_conjunct_rule(ctx, tag + '.CS11', callers=callers)
    loop_store_rule(ctx, tag + '.CS12', callers=callers)
    stmt_guard_rule(ctx, tag + '.CS13', callers=callers)
    guard_name_rule(ctx, tag + '.CS14', callers=callers)
    scratch_capacity_rule(ctx, tag + '.CS15', callers=callers)
