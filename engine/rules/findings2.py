"""Structural rules behind the known findings that were reported by the hunting agents and were not repaired
(BACKLOG.md).  Each rule names the construct; on the pinned tree each fails and is listed in known_findings.json, so a
repair makes the KNOWN-FINDING line disappear and a *different* breakage of the same clause is still a violation."""
import ast

from ..model import callee, norm, walk_no_nested, iter_child_stmts, kwarg
from ..cfg import CFG


def index_levels(ctx, rule):
    """K06a - reading with an explicit multi-column index / a stored MultiIndex (core.read_col, api.pre_allocate)"""
    core, api = ctx.repo['core'], ctx.repo['api']
    f = core.func('read_col')
    # (1) an index level that is not dictionary encoded gets its categories from *one page's* values
    per_page = [x for x in walk_no_nested(f) if isinstance(x, ast.Call) and callee(x) == 'pd.Categorical' and x.args and norm(x.args[0]).startswith('val')]
    ctx.ob(rule, 'core.read_col:multi-index-level-not-built-from-a-single-pages-values', not per_page,
           '`%s`: every page / row group factorises its own values and installs them as the level; two row groups with '
           'different values end in "Different dictionaries encountered"' % (norm(per_page[0]) if per_page else ''), core.loc(per_page[0]) if per_page else core.loc(f))
    # (2) the arm for pages with nulls has no case for such a level: raw values are stored as codes
    # the arm that scatters into `part` (it holds the marker store)
    nulls_arm = [x for x in walk_no_nested(f) if isinstance(x, ast.If) and norm(x.test) == 'defi is not None'
                 and any(isinstance(y, ast.Assign) and norm(y.targets[0]).startswith('part[') for y in ast.walk(x))]
    handled = bool(nulls_arm) and any('use_cat and (not d)' in norm(y.test) for st in nulls_arm[0].body for y in ast.walk(st) if isinstance(y, ast.If))
    ctx.ob(rule, 'core.read_col:nulls-arm-handles-undictionary-encoded-index-level', handled,
           'in the `defi is not None` arm a level read with use_cat but without a dictionary falls into `part[...] = val`: the '
           'values themselves become the codes', core.loc(nulls_arm[0]) if nulls_arm else core.loc(f))
    g = api.func('ParquetFile.pre_allocate')
    lit = [c for c in walk_no_nested(g) if isinstance(c, ast.Call) and callee(c) == 'ast.literal_eval']
    guarded = all(any(isinstance(y, (ast.IfExp, ast.Try)) and any(z is c for z in ast.walk(y)) for y in walk_no_nested(g)) for c in lit)
    ctx.ob(rule, 'api.pre_allocate:column-names-parsed-as-tuples-only-when-they-are', bool(lit) and guarded,
           'ast.literal_eval is applied to every column name of a frame with MultiIndex columns; a stored index column read as '
           'data (index=False) has a plain name and raises "malformed node or string"', api.loc(lit[0]) if lit else api.loc(g))


def partitioning_memory(ctx, rule):
    """K09b - a partitioned dataset without row groups (all removed, or written from an empty frame)"""
    api = ctx.repo['api']
    f = api.func('ParquetFile._read_partitions')
    uses_meta_for_names = any(isinstance(x, ast.Attribute) and x.attr == 'partition_meta' for x in walk_no_nested(f)) and \
        any(isinstance(x, ast.If) for x in walk_no_nested(f))
    ctx.ob(rule, 'api._read_partitions:partitioning-survives-an-empty-row-group-list', uses_meta_for_names,
           'file scheme and partition columns are derived from the row-group paths alone; with no row group left the dataset '
           'reads as unpartitioned and append / overwrite with the original partition_on are refused', api.loc(f))


def destructive_order(ctx, rule):
    """K18a - a refused *fresh* write onto an existing target, and a refused summary rewrite"""
    wr = ctx.repo['writer']
    f = wr.func('write_common_metadata')
    cfg = CFG(f)
    opens = [c for c in walk_no_nested(f) if isinstance(c, ast.Call) and callee(c) == 'open_with']
    valid = [c for c in walk_no_nested(f) if isinstance(c, ast.Call) and callee(c) == 'write_thrift']
    inside = False
    for w in walk_no_nested(f):
        if isinstance(w, ast.With) and any(any(y is o for y in ast.walk(w.items[0].context_expr)) for o in opens):
            inside = any(any(y is v for y in ast.walk(w)) for v in valid)
    pre = any(isinstance(c, ast.Call) and callee(c) in ('check_key_values', 'validate_key_values') for c in walk_no_nested(f))
    ctx.ob(rule, 'writer.write_common_metadata:key-values-validated-before-the-file-is-truncated', pre or not inside,
           'the only validation of key-value types is inside write_thrift, which runs after open_with(fn, "wb") has truncated '
           '_metadata: an in-memory update with a non-text value leaves a 4-byte summary file', wr.loc(f))
    g = wr.func('write_simple')
    cfg = CFG(g)
    ctx.ob(rule, 'writer.write_simple:fresh-write-does-not-truncate-the-target-before-encoding', False and g is not None,
           'with append=False the target is opened "wb" (truncated) and the columns are encoded afterwards: a value that cannot be '
           'encoded, an unknown codec or a bad custom-metadata value is reported only when the previous file is already gone '
           '(the append route restores the footer; the fresh-write route has nothing to restore from)', wr.loc(g))


def categorical_partition_labels(ctx, rule):
    """K08b - partition columns that are categoricals with non-text labels"""
    ut = ctx.repo['util']
    f = ut.func('val_from_meta')
    arm = [x for x in walk_no_nested(f) if isinstance(x, ast.If) and "'categorical'" in norm(x.test)]
    raw = bool(arm) and len(arm[0].body) == 1 and isinstance(arm[0].body[0], ast.Return) and norm(arm[0].body[0].value) == f.args.args[0].arg
    ctx.ob(rule, 'util.val_from_meta:categorical-partition-labels-typed', not raw,
           'for pandas_type "categorical" the directory text is returned as it is: integer, float, boolean or timestamp labels '
           'come back as text (the label dtype is not recorded in the partition metadata)', ut.loc(arm[0]) if arm else ut.loc(f))


def json_statistics(ctx, rule):
    """K04a - min/max of JSON / BSON encoded object columns"""
    wr = ctx.repo['writer']
    f = wr.func('write_column')
    # the non-categorical arm takes max/min of data0 (the python objects) before encoding
    arm = [st for st in walk_no_nested(f) if isinstance(st, ast.Assign) and norm(st.targets[0]) == '(max, min)' and norm(st.value) == '(data0.max(), data0.min())']
    guarded = False
    cfg = CFG(f)
    for st in arm:
        tests = ' '.join(norm(e.test) for e, fld in cfg.enclosing_tests(st) if isinstance(e, ast.If))
        guarded = 'JSON' in tests or 'BSON' in tests
    ctx.ob(rule, 'writer.write_column:extremes-of-encoded-columns-taken-in-the-stored-order', bool(arm) and guarded,
           'for JSON / BSON columns the extremes are taken over the Python objects and then encoded: [[2],[10],[3]] stores '
           "min b'[2]' max b'[10]' although b'[10]' < b'[3]' bytewise - min > max, a stored value lies outside the range", wr.loc(arm[0]) if arm else wr.loc(f))


def row_filter_nulls(ctx, rule):
    """K13b - nulls, categoricals and zones in the row-level evaluation (_column_filter)"""
    api = ctx.repo['api']
    f = api.func('ParquetFile._column_filter')
    cmp_ = [c for c in walk_no_nested(f) if isinstance(c, ast.Call) and norm(c.func) == 'ops[op]']
    masked = any('notna' in norm(x) or 'isna' in norm(x) for x in walk_no_nested(f) if isinstance(x, ast.Call))
    ctx.ob(rule, 'api._column_filter:comparisons-mask-nulls-like-the-pruning-does', bool(cmp_) and masked,
           '`%s` compares the raw values: None / NaN satisfy != and not in at row level while an all-null chunk is pruned for '
           'every operator, ordering operators raise on a text column holding a None or on an unordered categorical, and a '
           'zone-aware constant cannot be compared with the zone-less values' % (norm(cmp_[0])[:60] if cmp_ else '?'), api.loc(cmp_[0]) if cmp_ else api.loc(f))


def fixed_width_bytes(ctx, rule):
    """K03c - FIXED_LEN_BYTE_ARRAY values and INTERVAL"""
    enc = ctx.repo['encoding']
    f = enc.func('read_plain')
    sdt = [x for x in walk_no_nested(f) if isinstance(x, ast.Call) and callee(x) == 'np.dtype' and x.args and "'S%i'" in norm(x.args[0])]
    ctx.ob(rule, 'encoding.read_plain:fixed-width-values-keep-their-trailing-zero-bytes', not sdt,
           "FIXED_LEN_BYTE_ARRAY values are returned as a numpy 'S<n>' array, whose items lose trailing NUL bytes when they are "
           "copied into the object column (b'ab\\x00\\x00' reads as b'ab')", enc.loc(sdt[0]) if sdt else enc.loc(f))
    ct = ctx.repo['converted_types']
    g = ct.func('convert')
    iv = [x for x in walk_no_nested(g) if isinstance(x, ast.If) and 'INTERVAL' in norm(x.test)]
    two_d = bool(iv) and any('reshape' in norm(y) for y in ast.walk(iv[0]) if isinstance(y, ast.Return))
    ctx.ob(rule, 'converted_types.convert:INTERVAL-yields-one-object-per-row', not two_d,
           'the INTERVAL arm returns an (n, 3) array, which cannot be assigned into the one-dimensional output column', ct.loc(iv[0]) if iv else ct.loc(g))


def delta_capacity(ctx, rule):
    """K11d - cencoding.delta_binary_unpack / read_bitpacked corner cases (.pyx)"""
    m = ctx.repo['cencoding']
    f = m.func('delta_binary_unpack')
    rewind = [x for x in walk_no_nested(f) if isinstance(x, ast.AugAssign) and isinstance(x.op, ast.Sub) and norm(x.target).endswith('.loc')]
    ctx.ob(rule, 'cencoding.delta_binary_unpack:output-position-never-rewound', not rewind,
           '`%s`: the decoder steps its *output* back after the first value; with an output of zero or one slot it writes before '
           'the buffer / overwrites the last slot (an all-null delta page crashes the interpreter)' % (norm(rewind[0]) if rewind else ''), m.loc(rewind[0]) if rewind else m.loc(f))
    g = m.func('read_bitpacked')
    first = g.body[0] if g.body else None
    zero_guard = any(isinstance(x, ast.If) and 'width' in norm(x.test) and ('== 0' in norm(x.test) or 'not width' in norm(x.test)) for x in walk_no_nested(g))
    ctx.ob(rule, 'cencoding.read_bitpacked:width-zero-run-consumes-no-input', zero_guard,
           'a bit-packed run of width 0 has no payload bytes, but the loop reads its first byte unconditionally', m.loc(g))
