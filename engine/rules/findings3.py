"""Rules written for the repairs of the second hunting round (hunt_reports/round2).  Each obligation names the construct
whose absence was the defect; each has a reverting mutant in the self-test.  The functions are called from the property
modules under that property's own rule ids."""
import ast

from ..model import AnalysisError, callee, norm, walk_no_nested, iter_child_stmts
from ..cfg import CFG


def _has(f, pred):
    return any(pred(x) for x in ast.walk(f))


def open_routes(ctx, rule):
    """ParquetFile.__init__: (a) where the root is brought to the file system's spelling, the paths it is compared with
    are too; (b) a single part file given with root= takes the list route (the only one that records where the file sits
    under the root); (c) a path-like object is turned into its text first; (d) a pure-metadata file is cut by its recorded
    footer length, so a data file that merely carries such a name is read like any other"""
    api = ctx.repo['api']
    f = api.func('ParquetFile.__init__')
    roots = [st for st in walk_no_nested(f) if isinstance(st, ast.Assign) and norm(st.targets[0]) == 'root' and '_strip_protocol(root)' in norm(st.value)]
    ok = bool(roots)
    for st in roots:
        blk = [b for b in _blocks(f) if any(x is st for x in b)]
        sib = blk[0] if blk else []
        # the list the root will be compared with: the first argument of the metadata_from_many call of the enclosing arm
        encl = [t for t in ast.walk(f) if isinstance(t, (ast.If,)) and any(st is y for y in ast.walk(t))]
        calls = [c for t in encl[-2:] for c in ast.walk(t) if isinstance(c, ast.Call) and callee(c) == 'metadata_from_many']
        arg = norm(calls[0].args[0]) if calls and calls[0].args else None
        from_fs = any(isinstance(x, ast.Assign) and norm(x.targets[0]) == arg and ('fs.glob' in norm(x.value) or 'fs.find' in norm(x.value))
                      for x in ast.walk(f))
        normalised = any(isinstance(x, ast.Assign) and norm(x.targets[0]) == arg and '_strip_protocol' in norm(x.value) for x in sib)
        ok = ok and (from_fs or normalised)
    ctx.ob(rule, 'api.ParquetFile.__init__:paths-and-root-spelled-alike-before-they-are-compared', ok,
           'the root is made absolute / protocol-free, the list of paths is not: relative paths with root= fail the prefix test', api.loc(f))
    single = [st for st in walk_no_nested(f) if isinstance(st, ast.If) and 'root' in norm(st.test) and 'isfile' in norm(st.test)
              and any(isinstance(x, ast.Assign) and norm(x) == 'fn = [fn]' for x in st.body)]
    lst = [st for st in f.body if isinstance(st, ast.If) and 'isinstance(fn, (tuple, list))' in norm(st.test)]
    ctx.ob(rule, 'api.ParquetFile.__init__:single-file-with-root-takes-the-list-route',
           len(single) == 1 and bool(lst) and single[0].lineno < lst[0].lineno,
           'partitions taken from the path while file_path stays unset: the handle reports them and cannot read', api.loc(f))
    ctx.ob(rule, 'api.ParquetFile.__init__:path-like-objects-are-turned-into-text',
           _has(f, lambda x: isinstance(x, ast.Call) and norm(x.func) == 'os.fspath'),
           '`"*" in fn` and the string methods used further down fail on a pathlib.Path', api.loc(f))
    g = api.func('ParquetFile._parse_header')
    arms = [st for st in g.body if isinstance(st, ast.If) and "endswith('_metadata')" in norm(st.test)]
    ok = bool(arms) and any(isinstance(c, ast.Call) and norm(c.func) == 'struct.unpack' for c in ast.walk(ast.Module(body=arms[0].body, type_ignores=[])))
    ctx.ob(rule, 'api.ParquetFile._parse_header:metadata-file-cut-by-its-recorded-footer-length', ok,
           'the whole body between the magic numbers is taken for the footer: a data file called *_metadata cannot be opened', api.loc(g))
    # ... and the recorded length is counted back from the END of the file (what precedes the footer may be data pages)
    if arms:
        subs = [norm(x) for x in ast.walk(ast.Module(body=arms[0].body, type_ignores=[])) if isinstance(x, ast.Subscript) and isinstance(x.slice, ast.Slice)
                and norm(x.value) == 'raw']
        tail = [t for t in subs if t.replace(' ', '') in ('raw[-(head_size+8):-8]', 'raw[-8-head_size:-8]', 'raw[-(8+head_size):-8]')]
        front = [t for t in subs if t.startswith('raw[4:') and 'head_size' in t]
        ctx.ob(rule, 'api.ParquetFile._parse_header:footer-located-from-the-end-of-the-file', bool(tail) and not front,
               'slices of the file: %s' % subs, api.loc(g))


def _blocks(f):
    out = []
    for x in ast.walk(f):
        for fld in ('body', 'orelse', 'finalbody'):
            b = getattr(x, fld, None)
            if isinstance(b, list) and b and isinstance(b[0], ast.stmt):
                out.append(b)
    return out


def partition_text(ctx, rule):
    """(a) partition_on_columns: a chunk whose rows all have a null key is passed over before grouping; (b) _val_to_num:
    a text without a digit is returned as it is before the date / duration parsers are tried; (c) val_from_meta: a
    recorded timedelta type is parsed with pd.Timedelta, a type numpy does not know leaves the text"""
    wr, ut = ctx.repo['writer'], ctx.repo['util']
    f = wr.func('partition_on_columns')
    gb = [st for st in f.body if isinstance(st, ast.Assign) and isinstance(st.value, ast.Call) and norm(st.value.func).endswith('.groupby')]
    early = [st for st in f.body if isinstance(st, ast.If) and '.isna()' in norm(st.test) and '.all()' in norm(st.test)
             and any(isinstance(x, ast.Return) for x in st.body)]
    ctx.ob(rule, 'writer.partition_on_columns:chunk-of-null-keys-only-has-no-groups', bool(gb) and bool(early) and early[0].lineno < gb[0].lineno,
           'grouping a chunk whose keys are all null fails for categorical keys (observed=False): whether a frame can be written '
           'depends on how it is cut into row groups', wr.loc(f))
    drill = [st for st in f.body if isinstance(st, ast.If) and norm(st.test) == 'not with_field' and "'dir%i'" in norm(ast.Module(body=st.body, type_ignores=[]))
             and any(isinstance(r, ast.Raise) for r in ast.walk(st))]
    ctx.ob(rule, 'writer.partition_on_columns:drill-level-names-are-not-taken-by-data-columns', len(drill) == 1,
           'the levels are read back as dir0, dir1 ...: a data column of that name is hidden by the level', wr.loc(f))
    g = ut.func('_val_to_num')
    ts = [st for st in g.body if isinstance(st, ast.Try) and any(isinstance(c, ast.Call) and callee(c) == 'pd.Timestamp' for c in ast.walk(st))]
    guard = [st for st in g.body if isinstance(st, ast.If) and 'isdigit' in norm(st.test) and any(isinstance(r, ast.Return) and isinstance(r.value, ast.Name) for r in st.body)]
    ctx.ob(rule, 'util._val_to_num:words-are-not-dates', bool(ts) and bool(guard) and guard[0].lineno < ts[0].lineno,
           'pd.Timestamp reads "today" as the time of reading, "jan" as a day of year 1, "NaT" as a missing stamp', ut.loc(g))
    h = ut.func('val_from_meta')
    ctx.ob(rule, 'util.val_from_meta:recorded-timedelta-type-parsed-as-a-duration',
           _has(h, lambda x: isinstance(x, ast.If) and 'timedelta64' in norm(x.test) and any(isinstance(c, ast.Call) and callee(c) == 'pd.Timedelta' for c in ast.walk(x))),
           'str(Timedelta) is not a numpy literal: the ValueError makes the whole dataset fall back to drill parsing', ut.loc(h))
    ctx.ob(rule, 'util.val_from_meta:type-unknown-to-numpy-leaves-the-text',
           _has(h, lambda x: isinstance(x, ast.Try) and any(isinstance(c, ast.Call) and norm(c.func) == 'np.dtype' for c in ast.walk(ast.Module(body=x.body, type_ignores=[])))
                and any(hd.type is not None and 'TypeError' in norm(hd.type) for hd in x.handlers)),
           'np.dtype("period[M]") raises TypeError, which nothing catches: the dataset cannot be opened', ut.loc(h))


def statistics_decoding(ctx, rule):
    """api.statistics: byte-string bounds (BYTE_ARRAY and FIXED_LEN_BYTE_ARRAY) are kept as bytes objects - a numpy 'S'
    value or array drops trailing NUL bytes, which are part of a text bound and of a big-endian decimal; filter_out_stats:
    NaN bounds are dropped before the interval test"""
    api = ctx.repo['api']
    f = api.func('statistics')
    tests = [x for x in ast.walk(f) if isinstance(x, ast.If) and 'md.type' in norm(x.test) and 'BYTE_ARRAY' in norm(x.test)]
    ctx.floor(rule, 'byte-array tests in the four decode blocks of statistics', len(tests), 4)
    for i, x in enumerate(tests):
        ctx.ob(rule, 'api.statistics:fixed-length-byte-strings-kept-as-bytes:#%d' % (i + 1), 'FIXED_LEN_BYTE_ARRAY' in norm(x.test),
               '`%s`: read_plain hands FIXED_LEN_BYTE_ARRAY back as a numpy S value, which has lost its trailing 0x00 bytes' % norm(x.test)[:70], api.loc(x))
    objarr = _has(f, lambda x: isinstance(x, ast.Call) and norm(x.func) == 'np.empty' and any(k.arg == 'dtype' and norm(k.value) == "'O'" for k in x.keywords))
    ctx.ob(rule, 'api.statistics:byte-string-bounds-converted-from-an-object-array', objarr,
           'np.array(list_of_bytes) is a fixed-width S array: trailing NUL bytes are gone before the conversion sees them', api.loc(f))
    g = api.func('filter_out_stats')
    fv = [st for st in walk_no_nested(g) if isinstance(st, ast.If) and isinstance(st.test, ast.Call) and callee(st.test) == 'filter_val']
    nan = [st for st in walk_no_nested(g) if isinstance(st, ast.If) and ('_all_nan(' in norm(st.test) or 'isnan' in norm(st.test))
           and any(isinstance(x, ast.Assign) and norm(x.value) == 'None' for x in st.body)]
    names = {norm(x.targets[0]) for st in nan for x in st.body if isinstance(x, ast.Assign)}
    ctx.ob(rule, 'api.filter_out_stats:NaN-bounds-bound-nothing', bool(fv) and names >= {'vmin', 'vmax'} and all(st.lineno < fv[0].lineno for st in nan),
           'searchsorted with a NaN bound finds an empty interval: every `in` condition prunes the chunk', api.loc(g))


def drill_conditions(ctx, rule):
    """filter_out_cats: a path without name=value levels is a drill path - its levels are called dir0, dir1 ... as the
    reader calls them, so conditions on them are applied"""
    api = ctx.repo['api']
    f = api.func('filter_out_cats')
    ok = _has(f, lambda x: isinstance(x, ast.If) and norm(x.test) in ('not pairs', 'not partitions') and "'dir%i'" in norm(ast.Module(body=x.body, type_ignores=[])))
    ctx.ob(rule, 'api.filter_out_cats:drill-levels-take-part-in-pruning', ok,
           'only name=value pairs are looked for: a condition on dir0 is never applied (row-level evaluation leaves partition '
           'conditions to this step)', api.loc(f))


def mutable_defaults(ctx, rule):
    """no function of the package uses a mutable default argument as working storage (append / pop / item store / +=): the
    one object is shared by every call, and by every thread"""
    n = 0
    for m, q, f in ctx.repo.functions():
        if m.name == 'cencoding':
            continue
        a = f.args
        pos = a.posonlyargs + a.args
        pairs = list(zip(pos[len(pos) - len(a.defaults):], a.defaults)) + [(x, d) for x, d in zip(a.kwonlyargs, a.kw_defaults) if d is not None]
        for arg, d in pairs:
            if not isinstance(d, (ast.List, ast.Dict, ast.Set)):
                continue
            n += 1
            muts = []
            for x in walk_no_nested(f):
                if isinstance(x, ast.Call) and isinstance(x.func, ast.Attribute) and norm(x.func.value) == arg.arg and \
                        x.func.attr in ('append', 'pop', 'extend', 'insert', 'remove', 'clear', 'update', 'setdefault', 'add'):
                    muts.append(norm(x)[:40])
                if isinstance(x, (ast.Assign, ast.AugAssign)):
                    tg = x.targets if isinstance(x, ast.Assign) else [x.target]
                    for t in tg:
                        if isinstance(t, ast.Subscript) and norm(t.value) == arg.arg:
                            muts.append(norm(x)[:40])
                        if isinstance(x, ast.AugAssign) and isinstance(t, ast.Name) and t.id == arg.arg:
                            muts.append(norm(x)[:40])
            ctx.ob(rule, '%s.%s:mutable-default-%s-is-not-working-storage' % (m.name, q, arg.arg), not muts,
                   'default %s=%s is mutated (%s): concurrent calls push and pop on one list' % (arg.arg, norm(d), muts), m.loc(f))
    ctx.floor(rule, 'mutable default arguments in the package', n, 2)


def assembly_flags(ctx, rule):
    """(a) v2 pages: the assembler's `null` flag is the nullability of the outer field (as on v1 pages), not a constant;
    (b) map rows: which of the two chunks is the key is decided by the leaf name, not by the name of the column"""
    core = ctx.repo['core']
    f = core.func('read_data_page_v2')
    calls = [c for c in ast.walk(f) if isinstance(c, ast.Call) and (callee(c) or '').endswith('_assemble_objects')]
    ctx.floor(rule, 'assembly calls in the v2 reader', len(calls), 1)
    for c in calls:
        kw = [k.value for k in c.keywords if k.arg == 'null']
        v = kw[0] if kw else (c.args[6] if len(c.args) > 6 else None)
        ctx.ob(rule, 'core.read_data_page_v2:row-nullability-from-the-outer-field', v is not None and not isinstance(v, ast.Constant)
               and 'is_required(cmd.path_in_schema[0])' in norm(v),
               'null=%s: with a constant True a REQUIRED list reads [] as None and loses null elements' % (norm(v) if v is not None else '?'), core.loc(c))
    g = core.func('read_row_group_arrays')
    cmp_ = [x for x in ast.walk(g) if isinstance(x, ast.Compare) and norm(x.comparators[0]) == "'key'" and 'path_in_schema' in norm(x.left)]
    ctx.ob(rule, 'core.read_row_group_arrays:key-chunk-recognised-by-its-leaf-name', len(cmp_) == 1 and norm(cmp_[0].left).endswith('path_in_schema[-1]'),
           '%s: a MAP column that is itself called "key" comes back with keys and values swapped' % [norm(x.left) for x in cmp_], core.loc(g))


def dtype_lookup(ctx, rule):
    """_dtypes: (a) typemap is offered the pandas entry of the very column (by its full name), not the whole table keyed
    by leaf names; (b) the zone map is computed whenever it is missing - not only together with the base dtypes - and
    keyed by the parquet column name (field_name), which an unnamed index level has"""
    api = ctx.repo['api']
    f = api.func('ParquetFile._dtypes')
    tm = [c for c in ast.walk(f) if isinstance(c, ast.Call) and callee(c) == 'converted_types.typemap']
    ctx.floor(rule, 'typemap calls in _dtypes', len(tm), 1)
    for c in tm:
        md = [k.value for k in c.keywords if k.arg == 'md']
        ctx.ob(rule, 'api._dtypes:typemap-sees-the-entry-of-this-column-only', bool(md) and 'md[name]' in norm(md[0]),
               'md=%s: typemap looks up se.name, the leaf name - a struct member takes the dtype of a top-level namesake' % (norm(md[0])[:50] if md else '?'), api.loc(c))
    tz = [st for st in f.body if isinstance(st, ast.If) and 'self.tz is None' in norm(st.test)
          and any(isinstance(x, ast.Assign) and norm(x.targets[0]) == 'self.tz' for x in ast.walk(st))]
    ctx.ob(rule, 'api._dtypes:zone-map-computed-whenever-it-is-missing', len(tz) == 1,
           'computed only inside `if self._base_dtype is None`: a handle given dtypes= reports zones it does not apply', api.loc(f))
    ctx.ob(rule, 'api._dtypes:pandas-entries-keyed-by-the-parquet-column-name', "c.get('field_name')" in norm(f),
           "keyed by c['name'], which is None for an unnamed index level", api.loc(f))
    # the output views are looked up by the readers under the parquet column names (text): dataframe.empty keys them by
    # the text of the column label, whatever dtype the labels were given
    df = ctx.repo['dataframe']
    e = df.func('empty')
    keyed = [st for st in ast.walk(e) if isinstance(st, ast.Assign) and norm(st.targets[0]) == 'col' and 'df.columns[' in norm(st.value)]
    ctx.ob(rule, 'dataframe.empty:views-keyed-by-the-text-of-the-column-label', bool(keyed) and all(norm(st.value).startswith('str(') for st in keyed),
           '%s: with integer column labels (recorded by other writers) the views are keyed by numbers and no reader finds them' % [norm(st)[:50] for st in keyed], df.loc(e))


def append_layouts(ctx, rule):
    """writer.write (append): an existing drill dataset is an accepted target, a hive / drill mismatch is refused;
    api.part_ids: files under other names have no part number and are left out; writer.overwrite: refused on drill"""
    wr, api = ctx.repo['writer'], ctx.repo['api']
    f = wr.func('write')
    lists = [x for x in ast.walk(f) if isinstance(x, ast.Compare) and norm(x.left) == 'pf.file_scheme' and isinstance(x.ops[0], ast.NotIn)
             and isinstance(x.comparators[0], (ast.List, ast.Tuple)) and "'hive'" in norm(x.comparators[0])]
    ctx.ob(rule, 'writer.write:drill-datasets-can-be-appended-to', len(lists) == 1 and "'drill'" in norm(lists[0].comparators[0]),
           'accepted existing layouts: %s' % [norm(x.comparators[0]) for x in lists], wr.loc(f))
    g = api.func('part_ids')
    comps = [x for x in ast.walk(g) if isinstance(x, ast.DictComp)]
    ctx.ob(rule, 'api.part_ids:files-without-a-part-number-are-left-out', len(comps) == 1 and bool(comps[0].generators[0].ifs),
           'PART_ID.match(path) is None for a.parquet: subscripting it fails and a merged dataset cannot be appended to', api.loc(g))
    h = wr.func('overwrite')
    first_io = [st for st in h.body if any(isinstance(c, ast.Call) and callee(c) in ('pf.remove_row_groups', 'pf.write_row_groups', 'write_multi') for c in ast.walk(st))]
    ref = [st for st in h.body if isinstance(st, ast.If) and "'drill'" in norm(st.test) and any(isinstance(r, ast.Raise) for r in st.body)]
    ctx.ob(rule, 'writer.overwrite:refused-on-a-drill-dataset', bool(ref) and (not first_io or ref[0].lineno < first_io[0].lineno),
           'row groups are matched with the new data by name=value directories: on drill paths nothing matches and the old rows stay', wr.loc(h))


def removal_check(ctx, rule):
    """remove_row_groups: the test "this file holds row groups to be kept as well" runs for every dataset"""
    api = ctx.repo['api']
    f = api.func('ParquetFile.remove_row_groups')
    cfg = CFG(f)
    r = [x for x in walk_no_nested(f) if isinstance(x, ast.Raise) and 'both to be kept' in norm(x)]
    tests = [norm(e.test) for e, fld in cfg.enclosing_tests(r[0]) if isinstance(e, ast.If)] if r else []
    ctx.ob(rule, 'api.remove_row_groups:kept-and-removed-in-one-file-checked-for-every-dataset',
           len(r) == 1 and not any('created_by' in t or 'file_scheme ==' in t for t in tests), 'guards: %s' % tests, api.loc(f))


def kind_of_appended_values(ctx, rule):
    """write_row_groups: values of another kind are not appended to a boolean / datetime / timedelta column, nor
    zone-aware values to a naive one (the writer re-interprets, it does not cast); writer.convert: the range of the
    column's own integer type is tested for float sources as well"""
    api, wr = ctx.repo['api'], ctx.repo['writer']
    f = api.func('ParquetFile.write_row_groups')
    r = [x for x in walk_no_nested(f) if isinstance(x, ast.If) and "('b', 'M', 'm')" in norm(x.test) and any(isinstance(y, ast.Raise) for y in x.body)]
    ctx.ob(rule, 'api.write_row_groups:kind-of-boolean-and-time-columns-checked-before-writing', len(r) == 1 and "'tz'" in norm(r[0].test),
           'text or 2 appended to a boolean column read back as True, 5 appended to a datetime column as 1970-01-01T00:00:00.000000005', api.loc(f))
    ctx.ob(rule, 'api.write_row_groups:object-columns-are-left-to-the-value-by-value-check', len(r) == 1 and "'O'" in norm(r[0].test),
           'an object column of booleans (object_encoding bool) is a legitimate source for a boolean column; refusing every '
           'dtype whose kind differs turns valid appends away', api.loc(f))
    g = wr.func('convert')
    rng = [x for x in walk_no_nested(g) if isinstance(x, ast.If) and ('data.values.min()' in norm(x.test) or 'int(values.min())' in norm(x.test))
           and any(isinstance(y, ast.Raise) for y in x.body)]
    cfg = CFG(g)
    cover = []
    for x in rng:
        for e, fld in cfg.enclosing_tests(x):
            if isinstance(e, ast.If) and fld == 'body' and 'dtype.kind' in norm(e.test):
                cover.append(norm(e.test))
    ctx.ob(rule, 'writer.convert:range-of-the-column-type-tested-for-float-sources-too', any("dtype.kind in 'iuf'" in t or "dtype.kind == 'f'" in t for t in cover),
           'range test under %s: 300.0 passes the whole-number test and is stored in an INT_8 column as 44' % cover, wr.loc(g))


def read_conversions(ctx, rule):
    """(a) read_data_page_v2: equal item sizes do not make a page copyable into the output - an integer page goes into a
    float output by value; (b) converted_types.convert, DECIMAL: the unscaled value is divided by the exact power of ten
    (scale 0 when the optional field is absent); (c) core.read_col: zone-aware category labels are built from the stored
    UTC instants and converted to the zone"""
    core, ct = ctx.repo['core'], ctx.repo['converted_types']
    f = core.func('read_data_page_v2')
    see = [st for st in walk_no_nested(f) if isinstance(st, ast.If) and 'see' in norm(st.test) and '.kind' in norm(st.test)
           and any(isinstance(x, ast.Assign) and norm(x) == 'see = False' for x in st.body)]
    ctx.ob(rule, 'core.read_data_page_v2:in-place-copy-needs-the-same-kind-not-only-the-same-width', len(see) == 1,
           'INT64 bytes copied into a float64 output: 1 reads as 5e-324', core.loc(f))
    g = ct.func('convert')
    arm = [st for st in ast.walk(g) if isinstance(st, ast.If) and 'ConvertedType.DECIMAL' in norm(st.test)]
    txt = norm(ast.Module(body=arm[0].body, type_ignores=[])) if arm else ''
    ctx.ob(rule, 'converted_types.convert:DECIMAL-divides-by-the-exact-power-of-ten', bool(arm) and '10 ** -' not in txt and '/ denom' in txt and 'se.scale or 0' in txt,
           '10**-scale is not exact (35 at scale 2 gives 0.35000000000000003) and fails when the optional scale is absent', ct.loc(arm[0]) if arm else ct.loc(g))
    h = core.func('read_col')
    ctx.ob(rule, 'core.read_col:zone-aware-category-labels-converted-from-UTC',
           _has(h, lambda x: isinstance(x, ast.Call) and isinstance(x.func, ast.Attribute) and x.func.attr == 'tz_localize' and x.args and norm(x.args[0]) == "'UTC'"),
           'pd.Index(naive_utc_values, dtype=<zone-aware>) localises instead of converting: labels shift by the offset', core.loc(h))


def write_conversions(ctx, rule):
    """(a) an object column whose encoding was guessed: the cast is compared with the original objects - for booleans as
    well - so that text is not run through bool() / int() / float(); (b) reset_row_idx: an unnamed MultiIndex level gets
    the reserved `__index_level_<i>__` name"""
    wr, ut = ctx.repo['writer'], ctx.repo['util']
    f = wr.func('write_column')
    chk = [x for x in walk_no_nested(f) if isinstance(x, ast.If) and 'values.values != data.values' in norm(x.test) and any(isinstance(r, ast.Raise) for r in x.body)]
    ctx.ob(rule, 'writer.write_column:guessed-boolean-and-integer-casts-compared-with-the-objects', len(chk) == 1 and "'ib'" in norm(chk[0].test),
           'bool("no") is True, int("7") is 7: a stray text value after the sampled ones is stored as something it never was', wr.loc(f))
    # (c) the cast of objects to the primitive integer is for columns whose integers stand for themselves: a time /
    # date / decimal annotation makes plain integers into values nobody wrote - refused before the cast
    from ..cfg import CFG as _CFG
    cfg = _CFG(f)
    casts = [x for x in iter_child_stmts(f.body) if isinstance(x, ast.Assign) and isinstance(x.value, ast.Call) and (callee(x.value) or '').endswith('.astype')
             and x.value.args and norm(x.targets[0]) == 'data' and norm(x.value.func.value) == 'data'
             and any("dtype.kind == 'O'" in norm(e.test) for e, fld in cfg.enclosing_tests(x) if isinstance(e, ast.If))]
    guards = [x for x in iter_child_stmts(f.body) if isinstance(x, ast.If) and any(isinstance(r, ast.Raise) for r in x.body)
              and ('_plain_integers(selement)' in norm(x.test) or 'converted_type' in norm(x.test))]
    ok = bool(casts) and bool(guards) and all(any(cfg.dominates(cfg.node_of(g_), cfg.node_of(c_)) for g_ in guards) for c_ in casts)
    pi = wr.funcs.get('_plain_integers')
    if ok and any('_plain_integers(selement)' in norm(g_.test) for g_ in guards):
        ok = pi is not None and 'converted_type' in norm(pi) and "('INT', 'UINT')" in norm(pi) and 'logicalType' in norm(pi)
    ctx.ob(rule, 'writer.write_column:objects-cast-to-integers-only-where-integers-stand-for-themselves', ok,
           '%d cast(s) of objects to int64 / int32, %d refusing guard(s) on the annotation in front of them' % (len(casts), len(guards)), wr.loc(f))
    # ... the refusal is about values: a chunk that holds nulls only (nothing left after the nulls were taken out) passes
    ctx.ob(rule, 'writer.write_column:a-chunk-of-nulls-only-is-not-refused', bool(guards) and all('len(data)' in norm(g_.test) for g_ in guards),
           'guards: %s' % [norm(g_.test)[:80] for g_ in guards], wr.loc(f))
    g = wr.func('convert')
    # ... and the same refusal on the route of columns that cannot hold nulls (convert, object branch without a converted type)
    arms = [x for x in walk_no_nested(g) if isinstance(x, ast.If) and norm(x.test) == 'converted_type is None']
    ok_c = False
    for a_ in arms:
        first_cast = [x for x in a_.body if isinstance(x, ast.If) and 'type in revmap' in norm(x.test)]
        refus = [x for x in a_.body if isinstance(x, ast.If) and '_plain_integers(se)' in norm(x.test) and any(isinstance(r, ast.Raise) for r in x.body)]
        if first_cast and refus and refus[0].lineno < first_cast[0].lineno and 'len(data)' in norm(refus[0].test):
            ok_c = True
    # ... numbers given for an integer-backed DECIMAL column are stored as value * 10**scale (the cast to the primitive
    # integer is applied to the scaled values), never as they are
    num = [x for x in g.body if isinstance(x, ast.If) and norm(x.test) == 'dtype.name in typemap']
    ok_d = False
    if num:
        arm_ = ast.Module(body=num[0].body, type_ignores=[])
        dec = [x for x in ast.walk(arm_) if isinstance(x, ast.If) and 'ConvertedType.DECIMAL' in norm(x.test) and 'INT32' in norm(x.test) and 'INT64' in norm(x.test)]
        casts_ = [x for x in ast.walk(arm_) if isinstance(x, ast.Assign) and norm(x.targets[0]) == 'out' and isinstance(x.value, ast.Call)
                  and (callee(x.value) or '').endswith('.astype') and 'revmap[type]' in norm(x.value)]
        scaled = [x for d_ in dec for x in ast.walk(d_) if isinstance(x, ast.Assign) and norm(x.targets[0]) == 'values' and 'values *' in norm(x.value)]
        unit = [x for d_ in dec for x in ast.walk(d_) if isinstance(x, ast.Assign) and '10 ** (se.scale or 0)' in norm(x.value)]
        ok_d = bool(dec) and bool(scaled) and bool(unit) and bool(casts_) and all(norm(c_.value.func.value) == 'values' for c_ in casts_) \
            and all(d_.lineno < c_.lineno for d_ in dec for c_ in casts_)
    ctx.ob(rule, 'writer.convert:numbers-for-an-integer-backed-decimal-column-are-scaled', ok_d,
           'reading such a file and appending what was read must give the same values again', wr.loc(g))
    ctx.ob(rule, 'writer.convert:objects-cast-to-integers-only-where-integers-stand-for-themselves', ok_c,
           'a nanosecond-time column carries its annotation in logicalType only (converted_type is None)', wr.loc(g))
    ctx.ob(rule, 'writer.convert:guessed-float-cast-compared-with-the-objects',
           _has(g, lambda x: isinstance(x, ast.If) and "out.dtype.kind == 'f'" in norm(x.test) and 'data.values != out' in norm(x.test)), '', wr.loc(g))
    h = ut.func('reset_row_idx')
    ctx.ob(rule, 'util.reset_row_idx:unnamed-index-level-gets-the-reserved-name', '__index_level_%d__' in norm(h) and 'name is None' in norm(h),
           'assign(**{None: ...}) raises: a frame whose MultiIndex has an unnamed level cannot be written', ut.loc(h))


def thrift_reader_forms(ctx, rule10, rule12):
    """(R10.17) read_thrift: a field header whose high nibble (the id delta) is 0 is the long form - the field id follows
    as a zigzag varint; the loop must have a branch for it (known finding K10e: it adds the nibble to the running id
    whatever it is).  (R12.6) ThriftObject.__setattr__: the elements of an assigned list are cast to ThriftObject only
    after a type test (known finding K12e: `<ThriftObject>v` on plain values crashes the interpreter)."""
    cen = ctx.repo['cencoding']
    f = cen.func('read_thrift')
    loops = [x for x in f.body if isinstance(x, ast.While)]
    if not loops:
        raise AnalysisError('read_thrift: field loop not found')
    adds = [x for x in ast.walk(loops[0]) if isinstance(x, ast.AugAssign) and norm(x.target) == 'id' and isinstance(x.op, ast.Add)]
    longform = any(isinstance(x, ast.If) and ('240' in norm(x.test) or '0b11110000' in norm(x.test) or '>> 4' in norm(x.test)) and '== 0' in norm(x.test)
                   for x in ast.walk(loops[0]))
    if rule10:
      ctx.ob(rule10, 'cencoding.read_thrift:long-form-field-header-is-parsed', bool(adds) and longform,
             'the id delta nibble is added to the running id unconditionally (`%s`): a header with delta 0 carries the id in the '
             'bytes that follow, which are then read as the value' % (norm(adds[0])[:50] if adds else '?'), cen.loc(loops[0]))
    if not rule12:
        return
    g = cen.func('ThriftObject.__setattr__')
    casts = [c for c in ast.walk(g) if isinstance(c, ast.Call) and norm(c.func) == '_cast' and c.args and norm(c.args[0]) == "'ThriftObject'"]
    if not casts:
        raise AnalysisError('ThriftObject.__setattr__: cast of list elements not found')
    for c in casts:
        comp = [x for x in ast.walk(g) if isinstance(x, (ast.ListComp, ast.GeneratorExp)) and any(c is y for y in ast.walk(x))]
        tested = any('isinstance' in norm(i) and 'ThriftObject' in norm(i) for x in comp for gen in x.generators for i in gen.ifs) or \
            any(isinstance(x, ast.IfExp) and 'isinstance' in norm(x.test) and any(c is y for y in ast.walk(x.body)) for x in ast.walk(g))
        ctx.ob(rule12, 'cencoding.ThriftObject.__setattr__:list-elements-cast-only-after-a-type-test', tested,
               '`%s` for every element of the assigned list: a list of str or int is not a list of ThriftObject' % norm(c)[:40], cen.loc(c))


# LogicalType members that need no legacy spelling, one line of reason each
_LOGICAL_EXEMPT = {
    'UNKNOWN': 'the all-null type: no values to interpret',
    'UUID': 'no legacy equivalent; the 16 bytes are handed out as they are',
}


def logical_annotations(ctx, rule):
    """An annotation means the same whether the file spells it as converted_type or (newer writers, optionally alone)
    as logicalType; everything downstream (typemap, convert, text decoding, statistics) reads converted_type.  So:
    every schema element goes through the normalising step while the helper is built, before the tree is made, and that
    step names every member of the IDL's LogicalType union that has a legacy equivalent."""
    sch = ctx.repo['schema']
    init = sch.func('SchemaHelper.__init__')
    loops = [lp for lp in ast.walk(init) if isinstance(lp, ast.For) and norm(lp.iter) == 'schema_elements']
    calls = [c for lp in loops for c in ast.walk(lp) if isinstance(c, ast.Call) and callee(c) and callee(c).split('.')[-1].startswith('_legacy')
             and c.args and isinstance(lp.target, ast.Name) and norm(c.args[0]) == lp.target.id]
    tree_calls = [c for c in ast.walk(init) if isinstance(c, ast.Call) and callee(c) == 'schema_tree']
    ok = bool(calls) and bool(tree_calls) and all((c.lineno, c.col_offset) < (t.lineno, t.col_offset) for c in calls for t in tree_calls)
    ctx.ob(rule, 'schema.SchemaHelper.__init__:every-element-normalised-before-the-tree-is-built', ok,
           'a column annotated only through logicalType is otherwise read as its raw physical type', sch.loc(init))
    if not calls:
        return
    fn_name = callee(calls[0]).split('.')[-1]
    if fn_name not in sch.funcs:
        ctx.ob(rule, 'schema.%s:defined' % fn_name, False, '', sch.loc(init))
        return
    g = sch.funcs[fn_name]
    mentioned = {x.value for x in ast.walk(g) if isinstance(x, ast.Constant) and isinstance(x.value, str)} | \
                {x.attr for x in ast.walk(g) if isinstance(x, ast.Attribute)}
    for t in module_level_strings(sch, g):
        mentioned |= t
    members = sorted(ctx.idl.structs.get('LogicalType', {}))
    ctx.floor(rule, 'members of the LogicalType union in parquet.thrift', len(members), 12)
    for mname in members:
        if mname in _LOGICAL_EXEMPT:
            continue
        ctx.ob(rule, 'schema.%s:logical-%s-has-its-legacy-spelling' % (fn_name, mname), mname in mentioned,
               'LogicalType.%s given without converted_type must be read like the converted_type the format names for it' % mname, sch.loc(g))
    # every legacy name is produced under the key / test that the format pairs it with (dict entries of the tables the
    # step reads, attribute uses under an if, the INT / UINT prefix expression)
    import re as _re
    ct_names = set(ctx.idl.enums.get('ConvertedType', {}))
    used = {n.id for n in ast.walk(g) if isinstance(n, ast.Name)}
    dicts = [(g, d) for d in ast.walk(g) if isinstance(d, ast.Dict)]
    for name_, vals in getattr(sch, 'assigns', {}).items():
        if name_ in used:
            dicts += [(None, d) for v in vals for d in ast.walk(v) if isinstance(d, ast.Dict)]

    def legacy_of(v):
        if isinstance(v, ast.Constant) and isinstance(v.value, str) and v.value in ct_names:
            return v.value
        if isinstance(v, ast.Attribute) and v.attr in ct_names:
            return v.attr
        return None
    n_entries = 0
    for owner, d in dicts:
        for k, v in zip(d.keys, d.values):
            nm = legacy_of(v)
            if nm is None or k is None:
                continue
            n_entries += 1
            kt = norm(k)
            m_int = _re.fullmatch(r'(U?)INT_(\d+)', nm)
            if m_int:
                ok = isinstance(k, ast.Tuple) and len(k.elts) == 2 and all(isinstance(e, ast.Constant) for e in k.elts) and \
                    {bool(e.value) if isinstance(e.value, bool) else e.value for e in k.elts} == {m_int.group(1) == '', int(m_int.group(2))} and \
                    any(isinstance(e.value, bool) and e.value == (m_int.group(1) == '') for e in k.elts)
                why = 'signedness and width of the key must be those of the name'
            elif nm in ('TIME_MILLIS', 'TIME_MICROS', 'TIMESTAMP_MILLIS', 'TIMESTAMP_MICROS'):
                ok = nm.split('_')[1] in kt
                why = 'a TIME annotation is told apart by its unit (MILLIS / MICROS; NANOS has no legacy spelling), not by anything else'
            else:
                want_key = {'UTF8': 'STRING'}.get(nm, nm)
                ok = isinstance(k, ast.Constant) and k.value == want_key
                why = 'LogicalType.%s is the legacy %s' % (want_key, nm)
            ctx.ob(rule, 'schema.%s:legacy-name-%s-keyed-by-its-own-annotation:%s' % (fn_name, nm, kt[:30]), ok,
                   'table entry %s: %s - %s' % (kt[:60], nm, why), sch.loc(d))
    cfg_g = CFG(g)
    for st in walk_no_nested(g):
        if isinstance(st, ast.Assign):
            nm = legacy_of(st.value)
            if nm in ('TIME_MILLIS', 'TIME_MICROS', 'TIMESTAMP_MILLIS', 'TIMESTAMP_MICROS'):
                tests = ' && '.join(norm(e.test) for e, fld in cfg_g.enclosing_tests(st) if isinstance(e, ast.If) and fld == 'body')
                ctx.ob(rule, 'schema.%s:legacy-name-%s-under-its-unit' % (fn_name, nm), nm.split('_')[1] in tests and ("'%s'" % nm.split('_')[0]) in tests,
                       'enclosing tests: %s' % tests[:160], sch.loc(st))
    for e in ast.walk(g):
        if isinstance(e, ast.IfExp) and isinstance(e.body, ast.Constant) and isinstance(e.orelse, ast.Constant) and {e.body.value, e.orelse.value} == {'INT', 'UINT'}:
            t = e.test
            neg = isinstance(t, ast.UnaryOp) and isinstance(t.op, ast.Not)
            signed_when_true = 'isSigned' in norm(t) and not neg
            ctx.ob(rule, 'schema.%s:INT-prefix-for-signed-UINT-for-unsigned' % fn_name,
                   (e.body.value == 'INT') == signed_when_true and 'isSigned' in norm(t), norm(e)[:100], sch.loc(e))
    # it fills in, it never overrides: a converted_type that is present wins
    guards = [norm(x.test) for x in ast.walk(g) if isinstance(x, ast.If)]
    ctx.ob(rule, 'schema.%s:an-explicit-converted_type-is-kept' % fn_name,
           any('converted_type is not None' in t for t in guards) or any('converted_type is None' in t for t in guards),
           'tests: %s' % guards[:4], sch.loc(g))


def module_level_strings(mod, func):
    """string keys / values of module-level dict literals that `func` reads by name"""
    out = []
    used = {n.id for n in ast.walk(func) if isinstance(n, ast.Name)}
    for name, vals in getattr(mod, 'assigns', {}).items():
        if name in used:
            for v in vals:
                out.append({x.value for x in ast.walk(v) if isinstance(x, ast.Constant) and isinstance(x.value, str)})
    return out
