"""Shared rules about file-metadata bookkeeping (used by C02, C09, C14).

RM.1  row_groups store => num_rows store: wherever a FileMetaData's row-group list is
      replaced, its num_rows is recomputed before the object is serialised / returned.
RM.2  file_path discipline: a store to a chunk's file_path is applied to every chunk of
      the row group (the format says an unset file_path means "same file as the metadata").
"""
import ast

from ..model import norm, src, walk_no_nested, iter_child_stmts, callee, dotted, AnalysisError
from ..cfg import CFG

# functions in which the pair (row_groups, num_rows) must move together, confirmed by reading
ROWCOUNT_SITES = [
    ('writer', 'make_part_file'),
    ('writer', 'write_simple.write_to_file'),
    ('writer', 'write_multi'),
    ('util', 'metadata_from_many'),
    ('api', 'ParquetFile.remove_row_groups'),
]
# reasoned exceptions (one named symbol each):
ROWCOUNT_EXEMPT = {
    ('api', 'ParquetFile.__getstate__'): 'normalises None to [] (no row group added or removed)',
    ('writer', 'write_common_metadata'): '_common_metadata carries the schema only; row groups are stripped from a private copy',
    ('api', 'ParquetFile.write_row_groups'): 're-sorts the same row groups (sorted(...)), count unchanged',
}


def _base(node):
    """'fmd' for fmd.row_groups, 'self.fmd' for self.fmd.row_groups ..."""
    return dotted(node.value) if isinstance(node, ast.Attribute) else None


def rowcount_rule(ctx, rule, only_modules=None):
    repo = ctx.repo
    found = 0
    # completeness: any other function that stores row_groups must be in one of the tables
    for m, q, f in repo.functions():
        stores = [st for st in walk_no_nested(f) if isinstance(st, ast.Assign) and len(st.targets) == 1
                  and isinstance(st.targets[0], ast.Attribute) and st.targets[0].attr == 'row_groups']
        if not stores or m.name in ('cencoding',):
            continue
        key = (m.name, q)
        if only_modules and m.name not in only_modules:
            continue
        if key in ROWCOUNT_EXEMPT:
            ctx.note('%s exemption %s.%s: %s' % (rule, m.name, q, ROWCOUNT_EXEMPT[key]))
            continue
        cfg = CFG(f)
        for st in stores:
            base = _base(st.targets[0])
            if base is None or not base.split('.')[-1].endswith('fmd'):
                continue     # `self.row_groups` of a handle is a derived attribute, not file metadata
            found += 1
            nr = set()
            for s2 in iter_child_stmts(f.body):
                if s2 in cfg.stmt_node and isinstance(s2, (ast.Assign, ast.AugAssign)):
                    t = s2.targets[0] if isinstance(s2, ast.Assign) else s2.target
                    if isinstance(t, ast.Attribute) and t.attr == 'num_rows' and _base(t) == base:
                        nr.add(cfg.node_of(s2))
            n0 = cfg.node_of(st)
            # every path from the store to a normal exit passes a num_rows store, or a
            # num_rows *decrement loop* precedes the store (remove_row_groups idiom)
            after = cfg.must_pass_to_exit(n0, nr) if nr else False
            before = False
            if not after and nr:
                # decrement idiom: an AugAssign on num_rows inside a loop whose header dominates the store
                for x in nr:
                    sx = cfg.nodes[x].stmt
                    if isinstance(sx, ast.AugAssign):
                        for encl, _ in cfg.enclosing_tests(sx):
                            if isinstance(encl, ast.For) and cfg.dominates(cfg.node_of(encl), n0) \
                                    and 'num_rows' in src(sx.value):
                                before = True
            ok = after or before
            for x in nr:
                sx = cfg.nodes[x].stmt
                if isinstance(sx, ast.Assign) and cfg.exists_path(n0, x):
                    gens = [g for g in ast.walk(sx.value) if isinstance(g, ast.comprehension)]
                    if gens:
                        over = norm(gens[0].iter)
                        same = over in (norm(st.value), base + '.row_groups')
                        ctx.ob(rule, '%s.%s:%s.num_rows-summed-over-the-stored-row-groups' % (m.name, q, base), same,
                               'num_rows is recomputed over `%s` but the list stored is `%s`' % (over, norm(st.value)), m.loc(sx))
            ctx.ob(rule, '%s.%s:%s.row_groups-store-followed-by-num_rows-update:%s' % (
                m.name, q, base, norm(st.value)[:40]), ok,
                'after `%s` every path to a normal exit must recompute %s.num_rows (the footer is '
                'serialised from this object)' % (norm(st), base), m.loc(st))
    # constructions that give both fields
    for m, q, f in repo.functions():
        if only_modules and m.name not in only_modules:
            continue
        for c in ast.walk(f):
            if isinstance(c, ast.Call) and (callee(c) == 'parquet_thrift.FileMetaData' or (
                    callee(c) == 'ThriftObject.from_fields' and c.args and
                    isinstance(c.args[0], ast.Constant) and c.args[0].value == 'FileMetaData')):
                kw = {k.arg: k.value for k in c.keywords}
                if 'row_groups' in kw and 'num_rows' in kw:
                    rg = norm(kw['row_groups'])
                    nrw = norm(kw['num_rows'])
                    ok = (rg == '[]' and nrw.startswith('len(')) or \
                         (rg.startswith('[') and rg.endswith(']') and nrw == rg[1:-1] + '.num_rows')
                    found += 1
                    ctx.ob(rule, '%s.%s:FileMetaData(num_rows,row_groups)-consistent' % (m.name, q), ok,
                           'constructed with row_groups=%s and num_rows=%s' % (rg, nrw), m.loc(c))
    return found


FILEPATH_EXEMPT = {
    ('api', 'ParquetFile._parse_header'): 'decodes bytes->str of the value already stored (chunk[1] = s.decode()), only the first chunk is ever consulted for decoding',
    ('api', 'ParquetFile.__setstate__'): 'same decode-in-place as _parse_header',
}


def filepath_rule(ctx, rule, only=None):
    """every `X.file_path = E` store sits in a `for X in <rg>.columns:` loop"""
    repo = ctx.repo
    n = 0
    for m, q, f in repo.functions():
        if m.name == 'cencoding' or (only and (m.name, q) not in only and m.name not in only):
            continue
        if (m.name, q) in FILEPATH_EXEMPT:
            continue
        cfg = None
        seen = {}
        for st in sorted((s for s in walk_no_nested(f) if isinstance(s, ast.Assign)),
                         key=lambda s: (s.lineno, s.col_offset)):
            if not (len(st.targets) == 1 and isinstance(st.targets[0], ast.Attribute)
                    and st.targets[0].attr == 'file_path'):
                continue
            n += 1
            cfg = cfg or CFG(f)
            tgt = st.targets[0].value
            ok = False
            why = 'store is not inside a loop over all chunks of the row group'
            if isinstance(tgt, ast.Name):
                for encl, fld in cfg.enclosing_tests(st):
                    if isinstance(encl, ast.For) and fld == 'body' and isinstance(encl.target, ast.Name) \
                            and encl.target.id == tgt.id and norm(encl.iter).endswith('.columns'):
                        ok = True
                        why = 'for %s in %s' % (tgt.id, norm(encl.iter))
            txt = norm(st.targets[0])
            seen[txt] = seen.get(txt, 0) + 1
            ctx.ob(rule, '%s.%s:file_path-stored-on-every-chunk:%s#%d' % (m.name, q, txt, seen[txt]), ok,
                   '`%s`: %s; chunks whose file_path stays unset are, per the format, in the metadata '
                   'file itself' % (norm(st)[:90], why), m.loc(st))
    return n


def filepath_text_rule(ctx, rule, only=None):
    """`file_path` of a chunk parsed from a footer is bytes; only the first chunk of every row group is decoded when a
    handle is built (ParquetFile._parse_header).  A value use of `<chunk>.file_path` for a chunk other than
    `columns[0]` - joining it to a directory, formatting it, handing it to a path helper - therefore decodes it or tests
    its type first; tests for None / emptiness are fine as they are."""
    n = 0
    for m, q, f in ctx.repo.functions():
        if m.name == 'cencoding' or (only and m.name not in only):
            continue
        parents = {}
        for x in ast.walk(f):
            for ch in ast.iter_child_nodes(x):
                parents[ch] = x
        for a in walk_no_nested(f):
            if not (isinstance(a, ast.Attribute) and a.attr == 'file_path' and isinstance(a.ctx, ast.Load)):
                continue
            base = norm(a.value)
            if base.endswith('.columns[0]') or base.endswith('columns[0]'):
                continue
            n += 1
            p = parents.get(a)
            ok, why = False, ''
            # only tested
            if isinstance(p, (ast.If, ast.While, ast.BoolOp, ast.UnaryOp, ast.IfExp)) and (getattr(p, 'test', None) is a or isinstance(p, (ast.BoolOp, ast.UnaryOp))):
                ok, why = True, 'only tested'
            if isinstance(p, ast.Compare) and all(isinstance(c_, ast.Constant) and c_.value is None for c_ in p.comparators):
                ok, why = True, 'compared with None'
            if isinstance(p, ast.Call) and norm(p.func) == 'isinstance':
                ok, why = True, 'type test'
            if isinstance(p, ast.Call) and norm(p.func) in ('ensure_str', 'util.ensure_str'):
                ok, why = True, 'ensure_str'
            if isinstance(p, ast.Attribute) and p.attr == 'decode':
                ok, why = True, 'decoded'
            # the str arm of a conditional expression / statement that tests its type
            x = a
            while x in parents and not ok:
                px = parents[x]
                if isinstance(px, ast.IfExp) and 'isinstance(%s, str)' % norm(a) in norm(px.test) and px.body is x:
                    ok, why = True, 'str arm of a type test'
                if isinstance(px, ast.If) and 'isinstance(%s, str)' % norm(a) in norm(px.test) and any(x is b or any(x is y for y in ast.walk(b)) for b in px.body):
                    ok, why = True, 'str arm of a type test'
                x = px
            ctx.ob(rule, '%s.%s:file_path-of-an-arbitrary-chunk-is-decoded-before-use:%s' % (m.name, q, norm(parents.get(a, a))[:50]), ok,
                   '`%s` in `%s`: parsed chunks carry bytes paths (only columns[0] is decoded when the handle is built); str() of bytes '
                   'gives "b\'...\'"' % (norm(a), norm(parents.get(a, a))[:80]), m.loc(a))
    ctx.note('%s: value uses of file_path on chunks other than columns[0]: %d' % (rule, n))
    return n
