"""Rules about the single-file append (writer.write_simple.write_to_file), shared by C07/C18.

S.1 who may seek/truncate an output file, and where the append positions itself;
S.2 everything written after positioning is enclosed by a handler that restores the old
    footer (seek to the saved offset, write the saved tail, truncate, re-raise) for
    every exception class;
S.3 the handle's in-memory metadata is committed only after all row groups are written.
"""
import ast

from ..model import AnalysisError, callee, norm, src, walk_no_nested, iter_child_stmts, const_value
from ..cfg import CFG
from .. import effects as fx

SEEK_OWNERS = {('writer', 'write_simple.write_to_file'), ('writer', 'update_file_custom_metadata')}


def seek_ownership_rule(ctx, rule):
    repo = ctx.repo
    found = 0
    for m, q, f in repo.functions():
        if m.name in ('cencoding', 'speedups'):
            continue
        for k, c in fx.direct_effects(f):
            if k not in ('SEEK', 'TRUNCATE'):
                continue
            base = callee(c).rsplit('.', 1)[0]
            # read-side seeks: handles that are only read in this function
            writes_here = any(kk == 'WRITE' and (callee(cc) or '').startswith(base + '.') or
                              (kk == 'WRITE' and callee(cc) == 'write_thrift' and cc.args and norm(cc.args[0]) == base)
                              for kk, cc in fx.direct_effects(f))
            passes_on = any(isinstance(cc, ast.Call) and callee(cc) in ('make_row_group', 'write_column', 'make_part_file')
                            and any(norm(a) == base for a in cc.args) for cc in walk_no_nested(f))
            if not (writes_here or passes_on):
                continue
            found += 1
            ctx.ob(rule, '%s.%s:seek-or-truncate-on-an-output-handle-only-in-owner:%s' % (m.name, q, norm(c)),
                   (m.name, q) in SEEK_OWNERS,
                   '%s on a handle that is also written; only write_to_file (append positioning / restore) and '
                   'update_file_custom_metadata may move an output handle' % norm(c), m.loc(c))
    ctx.floor(rule, 'seek/truncate sites on output handles', found, 5)
    # positioning of the append
    wr = repo['writer']
    f = wr.func('write_simple.write_to_file')
    cfg = CFG(f)
    fvar = f.args.args[0].arg
    seeks = [c for k, c in fx.direct_effects(f) if k == 'SEEK']
    handler_nodes = set()
    for n in cfg.nodes:
        if n.kind == 'handler':
            handler_nodes |= cfg.reach({n.id})
    firstw = [s for s in iter_child_stmts(f.body) if any(
        isinstance(c, ast.Call) and callee(c) in ('make_row_group', 'write_thrift') for c in ast.walk(s))
        and not isinstance(s, (ast.If, ast.For, ast.Try, ast.With, ast.While))]
    normal = []
    for c in seeks:
        st = _stmt(f, c)
        if cfg.node_of(st) in handler_nodes:
            continue
        normal.append(c)
        args = [norm(a) for a in c.args]
        ok = args in (['-8', '2'], ['-(head_size + 8)', '2'], ['footer_start'])
        ctx.ob(rule, 'writer.write_to_file:append-seek-targets-old-footer:%s' % norm(c), ok,
               'seek%s: an append may only position at the 8-byte tail or at the start of the old footer' % (tuple(args),),
               wr.loc(c))
        tests = [(norm(e.test), fld) for e, fld in cfg.enclosing_tests(st) if isinstance(e, ast.If)]
        ctx.ob(rule, 'writer.write_to_file:seek-only-when-appending:%s' % norm(c), ('append', 'body') in tests, str(tests), wr.loc(c))
        ctx.ob(rule, 'writer.write_to_file:seek-precedes-all-data-writes:%s' % norm(c),
               all(not cfg.exists_path(cfg.node_of(w), cfg.node_of(st)) for w in firstw), '', wr.loc(c))
    ctx.floor(rule, 'append positioning seeks', len(normal), 2)
    hs = [s for s in iter_child_stmts(f.body) if isinstance(s, ast.Assign) and norm(s.targets[0]) == 'head_size']
    ctx.ob(rule, 'writer.write_to_file:footer-length-read-from-the-file-tail',
           len(hs) == 1 and norm(hs[0].value) == "struct.unpack('<I', %s.read(4))[0]" % fvar, norm(hs[0]) if hs else '', wr.loc(f))
    fsd = [s for s in iter_child_stmts(f.body) if isinstance(s, ast.Assign) and norm(s.targets[0]) == 'footer_start']
    if fsd:
        ctx.ob(rule, 'writer.write_to_file:footer_start-is-the-position-of-the-old-footer',
               len(fsd) == 1 and norm(fsd[0].value) in ('%s.seek(-(head_size + 8), 2)' % fvar, '%s.tell()' % fvar),
               norm(fsd[0]), wr.loc(fsd[0]))
    mode = [s for s in walk_no_nested(repo['writer'].func('write_simple')) if isinstance(s, ast.Assign) and norm(s.targets[0]) == 'mode']
    ctx.ob(rule, 'writer.write_simple:mode-is-rb+-only-when-appending',
           len(mode) == 1 and norm(mode[0].value) == "'rb+' if append else 'wb'", norm(mode[0]) if mode else '', wr.loc(f))


def _stmt(func, node):
    for st in iter_child_stmts(func.body):
        if isinstance(st, (ast.If, ast.For, ast.While, ast.Try, ast.With, ast.FunctionDef)):
            continue
        if any(node is x for x in ast.walk(st)):
            return st
    raise AnalysisError('statement of %s not found' % norm(node))


def restore_rule(ctx, rule):
    """destructive region of the single-file append is enclosed by a restoring handler"""
    wr = ctx.repo['writer']
    f = wr.func('write_simple.write_to_file')
    fvar = f.args.args[0].arg
    cfg = CFG(f)
    # destructive statements: anything that writes through f after positioning
    destructive = []
    for st in iter_child_stmts(f.body):
        if isinstance(st, (ast.If, ast.For, ast.While, ast.Try, ast.With, ast.FunctionDef)):
            continue
        for c in ast.walk(st):
            if isinstance(c, ast.Call) and (
                    callee(c) in ('make_row_group', 'write_thrift', 'write_column') and any(norm(a) == fvar for a in c.args)
                    or callee(c) == fvar + '.write'):
                destructive.append((st, c))
                break
    handler_nodes = set()
    handlers = []
    for t in [s for s in iter_child_stmts(f.body) if isinstance(s, ast.Try)]:
        for h in t.handlers:
            handlers.append((t, h))
            handler_nodes |= cfg.reach({cfg.node_of(h)})
    region = [(st, c) for st, c in destructive if cfg.node_of(st) not in handler_nodes]
    # writes on the non-append arm only (the leading magic) are not destructive to an existing file
    region = [(st, c) for st, c in region
              if ('append', 'orelse') not in [(norm(e.test), fld) for e, fld in cfg.enclosing_tests(st) if isinstance(e, ast.If)]]
    ctx.floor(rule, 'destructive statements in write_to_file', len(region), 4)
    for st, c in region:
        encl = [e for e, fld in cfg.enclosing_tests(st) if isinstance(e, ast.Try) and fld == 'body']
        good = None
        why = 'not inside any try'
        for t in encl:
            for h in t.handlers:
                ok, why = _restoring(h, fvar)
                if ok:
                    good = h
            if good:
                break
        ctx.ob(rule, 'writer.write_to_file:overwrite-of-old-footer-enclosed-by-restoring-handler:%s' % norm(c)[:50],
               good is not None, why, wr.loc(st))
    # what the handler restores must be what was saved before the first overwrite
    saved = {norm(s.targets[0]): s for s in iter_child_stmts(f.body) if isinstance(s, ast.Assign)
             and norm(s.targets[0]) in ('footer_start', 'old_tail')}
    ok = set(saved) == {'footer_start', 'old_tail'} and norm(saved['old_tail'].value) == fvar + '.read()'
    if ok:
        n_tail = cfg.node_of(saved['old_tail'])
        n_start = cfg.node_of(saved['footer_start'])
        ok = cfg.exists_path(n_start, n_tail) and all(not cfg.exists_path(cfg.node_of(st), n_tail) for st, _ in region)
        # after reading the tail the handle must be put back on the footer start
        back = [s for s in iter_child_stmts(f.body) if isinstance(s, ast.Expr) and norm(s.value) == '%s.seek(footer_start)' % fvar
                and cfg.node_of(s) not in handler_nodes]
        ok = ok and len(back) == 1 and cfg.exists_path(n_tail, cfg.node_of(back[0])) and \
            all(cfg.dominates(cfg.node_of(back[0]), cfg.node_of(st)) or
                ('append', 'body') not in [(norm(e.test), fld) for e, fld in cfg.enclosing_tests(back[0]) if isinstance(e, ast.If)]
                for st, _ in region[:0])
    ctx.ob(rule, 'writer.write_to_file:old-footer-saved-before-first-overwrite-and-handle-repositioned', ok,
           'footer_start / old_tail are taken after positioning and before any write; the handle is put back on footer_start',
           wr.loc(f))


def _restoring(h, fvar):
    names = ['<bare>'] if h.type is None else ([norm(e) for e in h.type.elts] if isinstance(h.type, ast.Tuple) else [norm(h.type)])
    if not any(n in ('<bare>', 'BaseException') for n in names):
        return False, 'handler catches %s only: KeyboardInterrupt/SystemExit/GeneratorExit would leave the file without a footer' % names
    body = list(iter_child_stmts(h.body))
    texts = [norm(s) for s in body if not isinstance(s, (ast.If,))]
    need = ['%s.seek(footer_start)' % fvar, '%s.write(old_tail)' % fvar, '%s.truncate()' % fvar]
    pos = []
    for n in need:
        if n not in texts:
            return False, 'handler does not %s' % n
        pos.append(texts.index(n))
    if pos != sorted(pos):
        return False, 'handler restores in the wrong order: %s' % texts
    if not (h.body and isinstance(h.body[-1], ast.Raise) and h.body[-1].exc is None):
        return False, 'handler does not re-raise'
    # restoration must happen whenever the file was positioned for append
    for s in h.body:
        if isinstance(s, ast.If) and norm(s.test) != 'append':
            return False, 'restoration is conditional on `%s`' % norm(s.test)
    return True, 'handler for %s: seek(footer_start), write(old_tail), truncate(), raise' % names


def commit_after_loop_rule(ctx, rule):
    wr = ctx.repo['writer']
    f = wr.func('write_simple.write_to_file')
    cfg = CFG(f)
    loops = [s for s in iter_child_stmts(f.body) if isinstance(s, ast.For) and 'make_row_group' in src(s)]
    if len(loops) != 1:
        raise AnalysisError('%s: row-group loop of write_to_file not found' % rule)
    loop = loops[0]
    inner = set(iter_child_stmts(loop.body))
    stores = [s for s in iter_child_stmts(f.body) if isinstance(s, (ast.Assign, ast.AugAssign)) and
              isinstance((s.targets[0] if isinstance(s, ast.Assign) else s.target), ast.Attribute) and
              norm((s.targets[0] if isinstance(s, ast.Assign) else s.target).value) == 'fmd']
    ctx.floor(rule, 'stores to the shared file metadata', len(stores), 2)
    for s in stores:
        ctx.ob(rule, 'writer.write_to_file:metadata-committed-after-all-row-groups:%s' % norm(s)[:50],
               s not in inner and cfg.exists_path(cfg.node_of(loop), cfg.node_of(s)),
               'a store to the handle\'s metadata inside the row-group loop survives a failed append (phantom row '
               'groups are then written by the next successful append through the same handle)', wr.loc(s))
    # the list that accumulates row groups is a private list
    rgs = [s for s in iter_child_stmts(f.body) if isinstance(s, ast.Assign) and norm(s) in ('rgs = fmd.row_groups', 'rgs = list(fmd.row_groups or [])', 'rgs = list(fmd.row_groups)')]
    ctx.ob(rule, 'writer.write_to_file:row-groups-accumulated-in-a-private-list', len(rgs) == 1 and
           any(norm(s) == 'rgs.append(rg)' for s in iter_child_stmts(loop.body)),
           'fmd.row_groups builds a fresh list on every access; it is stored back only after the loop', wr.loc(f))


def multi_commit_stores(wr):
    """(stores to fmd.<field> inside the part loop of write_multi, stores after it)"""
    f = wr.func('write_multi')
    loops = [s_ for s_ in iter_child_stmts(f.body) if isinstance(s_, ast.For) and ('make_part_file' in src(s_) or 'partition_on_columns' in src(s_))]
    if len(loops) != 1:
        raise AnalysisError('part loop of write_multi not found')
    loop = loops[0]
    inner = [s_ for s_ in iter_child_stmts(loop.body) if isinstance(s_, (ast.Assign, ast.AugAssign)) and
             isinstance((s_.targets[0] if isinstance(s_, ast.Assign) else s_.target), ast.Attribute) and
             norm((s_.targets[0] if isinstance(s_, ast.Assign) else s_.target).value) == 'fmd']
    after = [s_ for s_ in f.body[f.body.index(loop) + 1:] if isinstance(s_, ast.Assign) and isinstance(s_.targets[0], ast.Attribute)
             and norm(s_.targets[0].value) == 'fmd']
    return f, loop, inner, after


def commit_after_loop_multi_rule(ctx, rule):
    """write_multi: the dataset's metadata object (the handle's own, on an append through a handle) takes the new row
    groups only when every part of the call has been written - a store inside the part loop survives a failure in a later
    part, and the next successful append through that handle publishes the parts of the refused one"""
    wr = ctx.repo['writer']
    f, loop, inner, after = multi_commit_stores(wr)
    for s_ in inner:
        ctx.ob(rule, 'writer.write_multi:metadata-committed-after-all-parts:%s' % norm(s_)[:50], False,
               '`%s` inside the part loop' % norm(s_), wr.loc(s_))
    ctx.ob(rule, 'writer.write_multi:row-groups-and-row-count-stored-after-the-part-loop',
           any(norm(s_.targets[0]) == 'fmd.row_groups' for s_ in after) and any(norm(s_.targets[0]) == 'fmd.num_rows' for s_ in after),
           'stores after the loop: %s' % [norm(s_)[:40] for s_ in after], wr.loc(f))
