"""Parameter threading (Engler-style majority rule, confirmed and frozen).

When a function has a parameter p and calls a repository function that also has a parameter
named p, the call passes p on.  On the pinned tree 270 of 284 such (caller, callee, parameter)
instances do; the 14 that do not were read and are frozen below with their reason.  A new
non-forwarding instance is a violation: a dropped keyword is the classic way an option silently
stops taking effect (compression, verify_schema, filters, open_with ...)."""
import ast

from ..model import norm

# (caller, callee, parameter): reason      - confirmed by reading
EXCEPTIONS = {
    ('api.ParquetFile.read_row_group_file', 'api.ParquetFile.read_row_group_file', 'assign'):
        'first pass of a row-filtered read allocates its own frame',
    ('api.ParquetFile.read_row_group_file', 'api.ParquetFile.read_row_group_file', 'partition_meta'):
        'first pass reads only the filter columns, partition columns are excluded',
    ('api.ParquetFile.to_pandas', 'api.ParquetFile.to_pandas', 'categories'):
        'first pass reads the filter columns plainly',
    ('api.ParquetFile.to_pandas', 'api.ParquetFile.to_pandas', 'dtypes'):
        'first pass reads the filter columns with predicted dtypes',
    ('api._pre_allocate', 'api._pre_allocate.get_type', 'index'):
        'data columns are typed with index=False (default), index columns with index=True',
    ('writer.make_metadata', 'writer.find_type', 'times'):
        'category labels are typed with the default int64 time encoding',
    ('writer.overwrite', 'api.ParquetFile.write_row_groups', 'sort_pnames'):
        'renumbering is done once, by the following remove_row_groups call',
    ('core.read_dictionary_page', 'encoding.read_plain', 'utf'):
        'byte arrays are unpacked by the other arm; read_plain is only reached for fixed-width types',
    ('util.metadata_from_many', 'api.ParquetFile.__init__', 'root'):
        'each single file is opened on its own; the common root is applied afterwards by analyse_paths',
    ('util.metadata_from_many', 'api.ParquetFile.__init__', 'fs'):
        'the file system is inferred from open_with for each single file',
}


def _params(f):
    a = f.args
    return [x.arg for x in a.posonlyargs + a.args + a.kwonlyargs]


def instances(ctx):
    repo, cg = ctx.repo, ctx.cg
    out = []
    for (mod, q), edges in cg.edges.items():
        if mod in ('cencoding', 'speedups'):
            continue
        f = repo[mod].funcs[q]
        pc = set(_params(f)) - {'self'}
        for call, tgt, text in edges:
            if not tgt or tgt[0] in ('cencoding', 'speedups'):
                continue
            g = repo[tgt[0]].funcs[tgt[1]]
            pg = [p for p in _params(g) if p != 'self']
            if any(k.arg is None for k in call.keywords) or any(isinstance(a, ast.Starred) for a in call.args):
                continue
            bound = set(pg[:len(call.args)]) | {k.arg for k in call.keywords if k.arg}
            for p in pg:
                if p in pc:
                    out.append(('%s.%s' % (mod, q), '%s.%s' % tgt, p, p in bound, call, repo[mod]))
    return out


def threading_rule(ctx, rule, callers=None):
    """callers: iterable of 'module.qualname' prefixes to restrict to (None = whole package)"""
    inst = instances(ctx)
    ctx.floor(rule, 'shared-parameter call sites in the package', len(inst), 250)
    n = 0
    seen = {}
    for caller, callee_, p, fw, call, m in inst:
        if callers is not None and not any(caller == c or caller.startswith(c + '.') for c in callers):
            continue
        n += 1
        k = (caller, callee_, p)
        seen[k] = seen.get(k, 0) + 1
        if fw:
            ctx.ob(rule, '%s->%s:%s#%d-forwarded' % (caller, callee_, p, seen[k]), True, '', m.loc(call), nontrivial=True)
        elif k in EXCEPTIONS:
            ctx.ob(rule, '%s->%s:%s#%d-not-forwarded-by-design' % (caller, callee_, p, seen[k]), True,
                   'reasoned exception: %s' % EXCEPTIONS[k], m.loc(call), nontrivial=False)
        else:
            ctx.ob(rule, '%s->%s:%s#%d-forwarded' % (caller, callee_, p, seen[k]), False,
                   '%s has a parameter `%s` and calls %s, which takes `%s` too, without passing it on: `%s` - the '
                   'caller\'s choice silently stops taking effect' % (caller, p, callee_, p, norm(call)[:90]), m.loc(call))
    return n
