"""Shared analysis: every place where Python code builds or mutates a Thrift metadata
object, checked against the IDL (field names, integer wire widths via the i32/i32list
side channel, no boolean expression stored into an integer/enum field).

Used by C02 (R2.3) and C10 (R10.8)."""
import ast

from ..model import callee, const_value, dotted, norm, src, walk_no_nested, AnalysisError

SCAN_MODULES = ['writer', 'util', 'api', 'core', 'schema', 'dataframe', 'converted_types']


def construction_sites(repo):
    """yield dicts: module, func, node, struct, kwargs{name:node}, i32 (bool|None), i32list (list|None)"""
    out = []
    for mname in SCAN_MODULES:
        m = repo[mname]
        for q, f in m.funcs.items():
            for n in walk_no_nested(f):
                if not isinstance(n, ast.Call):
                    continue
                c = callee(n)
                struct = None
                if c and c.startswith('parquet_thrift.') and c.split('.')[1][:1].isupper() and c.count('.') == 1:
                    struct = c.split('.')[1]
                elif c in ('ThriftObject.from_fields', 'cencoding.ThriftObject.from_fields'):
                    if n.args and isinstance(n.args[0], ast.Constant) and isinstance(n.args[0].value, str):
                        struct = n.args[0].value
                    else:
                        tn = [k.value for k in n.keywords if k.arg == 'thrift_name']
                        if tn and isinstance(tn[0], ast.Constant):
                            struct = tn[0].value
                        else:
                            raise AnalysisError('%s: from_fields with non-literal struct name: %s' % (m.loc(n), src(n)[:80]))
                if struct is None:
                    continue
                kwargs = {}
                i32 = None
                i32list = None
                dyn = False
                for k in n.keywords:
                    if k.arg is None:
                        dyn = True
                    elif k.arg == 'i32':
                        i32 = k.value
                    elif k.arg == 'i32list':
                        i32list = k.value
                    elif k.arg == 'thrift_name':
                        pass
                    else:
                        kwargs[k.arg] = k.value
                out.append({'module': mname, 'func': q, 'node': n, 'struct': struct,
                            'kwargs': kwargs, 'i32': i32, 'i32list': i32list, 'dyn': dyn,
                            'loc': m.loc(n)})
    return out


def _boolish(node):
    """expression that evaluates to a Python bool"""
    if isinstance(node, (ast.Compare, ast.BoolOp)):
        # 'a or b' of non-bools is not bool; only flag when every operand is boolish
        if isinstance(node, ast.BoolOp):
            return all(_boolish(v) for v in node.values)
        return True
    if isinstance(node, ast.UnaryOp) and isinstance(node.op, ast.Not):
        return True
    if isinstance(node, ast.Constant) and isinstance(node.value, bool):
        return True
    if isinstance(node, ast.Call) and callee(node) in ('isinstance', 'bool', 'hasattr', 'any', 'all'):
        return True
    return False


def _is_none(node):
    return isinstance(node, ast.Constant) and node.value is None


def check_sites(ctx, rule, exempt_never_serialised=True):
    repo, idl = ctx.repo, ctx.idl
    specs = None
    sites = construction_sites(repo)
    ctx.floor(rule, 'construction sites', len(sites), 30)
    nfields = 0
    for s in sites:
        struct = s['struct']
        where = '%s.%s' % (s['module'], s['func'])
        if struct not in idl.structs:
            ctx.ob(rule, '%s:%s:struct-not-in-IDL' % (where, struct), False,
                   'constructs %s which parquet.thrift does not define' % struct, s['loc'])
            continue
        fields = idl.structs[struct]
        # reasoned exception: the SchemaElement(type=BOOLEAN) in make_definitions only
        # parameterises encode_plain and is never serialised
        never_serialised = (s['func'] == 'make_definitions' and struct == 'SchemaElement'
                            and set(s['kwargs']) == {'type'})
        # marker values
        i32_all = False
        if s['i32'] is not None:
            v = const_value(s['i32'], None)
            if v is None and not isinstance(s['i32'], ast.Constant):
                raise AnalysisError('%s: non-literal i32 marker %s' % (s['loc'], src(s['i32'])))
            i32_all = bool(v)
        ids32 = set()
        if s['i32list'] is not None:
            if isinstance(s['i32list'], (ast.List, ast.Tuple)) and all(
                    isinstance(e, ast.Constant) for e in s['i32list'].elts):
                ids32 = {e.value for e in s['i32list'].elts}
            else:
                raise AnalysisError('%s: non-literal i32list %s' % (s['loc'], src(s['i32list'])))
        n_int = 0
        for name, val in s['kwargs'].items():
            nfields += 1
            f = fields.get(name)
            ctx.ob(rule, '%s:%s.%s:field-exists-in-IDL' % (where, struct, name), f is not None,
                   'keyword %s is %sa field of %s (from_fields silently drops unknown names)' % (
                       name, '' if f is not None else 'NOT ', struct), s['loc'])
            if f is None or _is_none(val):
                continue
            w = idl.int_width(struct, name)
            if w is None or f.is_list:
                continue
            n_int += 1
            if never_serialised and exempt_never_serialised:
                continue
            ctx.ob(rule, '%s:%s.%s:not-boolean-valued' % (where, struct, name), not _boolish(val),
                   'integer/enum field %s.%s is given the expression %s; a Python bool is '
                   'serialised with the BOOLEAN wire type, not %s' % (struct, name, norm(val), w), s['loc'])
            if w in ('i8', 'i16'):
                ctx.ob(rule, '%s:%s.%s:width-emittable' % (where, struct, name), False,
                       'field declared %s but the serialiser can only emit i32/i64' % w, s['loc'])
                continue
            marked = i32_all or f.id in ids32
            want = w in ('i32', 'enum')
            ctx.ob(rule, '%s:%s.%s:marker-matches-IDL-width' % (where, struct, name), marked == want,
                   '%s.%s (id %d) is declared %s in the IDL and is %smarked 32-bit at this site '
                   '(i32=%s, i32list=%s)' % (struct, name, f.id, w, '' if marked else 'not ',
                                            i32_all, sorted(ids32)), s['loc'])
        # stray ids in i32list must be integral 32-bit fields of the struct
        byid = {f.id: f for f in fields.values()}
        for i in sorted(ids32):
            f = byid.get(i)
            ok = f is not None and idl.int_width(struct, f.name) in ('i32', 'enum')
            ctx.ob(rule, '%s:%s:i32list-id-%s-is-32bit-field' % (where, struct, i), ok,
                   'i32list names id %s of %s which is %s' % (
                       i, struct, ('%s %s' % (f.type, f.name)) if f else 'not a field'), s['loc'])
    ctx.stat('%s keyword fields checked' % rule, nfields)
    # attribute stores on locally constructed objects and on well-known metadata names
    check_attr_stores(ctx, rule, sites)
    return sites


KNOWN_VARS = {
    # variable name -> struct, used for stores on objects that were built elsewhere
    'fmd': 'FileMetaData', 'se': 'SchemaElement', 'chunk': 'ColumnChunk', 'rg': 'RowGroup',
    'meta': 'KeyValue', 'root': 'SchemaElement',
}


def check_attr_stores(ctx, rule, sites):
    repo, idl = ctx.repo, ctx.idl
    local_struct = {}   # (module, func, var) -> site
    for s in sites:
        m = repo[s['module']]
        f = m.funcs[s['func']]
        for st in walk_no_nested(f):
            if isinstance(st, ast.Assign) and st.value is s['node'] and len(st.targets) == 1 \
                    and isinstance(st.targets[0], ast.Name):
                local_struct[(s['module'], s['func'], st.targets[0].id)] = s
    nstores = 0
    for mname in SCAN_MODULES:
        m = repo[mname]
        for q, f in m.funcs.items():
            for st in walk_no_nested(f):
                tgt = val = None
                if isinstance(st, ast.Assign) and len(st.targets) == 1:
                    tgt, val = st.targets[0], st.value
                elif isinstance(st, ast.AugAssign):
                    tgt, val = st.target, None
                if tgt is None:
                    continue
                struct = field = None
                site = None
                if isinstance(tgt, ast.Attribute) and isinstance(tgt.value, ast.Name):
                    var = tgt.value.id
                    site = local_struct.get((mname, q, var))
                    struct = site['struct'] if site else KNOWN_VARS.get(var)
                    field = tgt.attr
                elif isinstance(tgt, ast.Attribute) and dotted(tgt) and dotted(tgt).endswith('fmd.' + tgt.attr):
                    struct, field = 'FileMetaData', tgt.attr
                if struct is None or struct not in idl.structs:
                    continue
                fields = idl.structs[struct]
                if field not in fields:
                    continue     # dynamic attribute of something else named fmd/se
                nstores += 1
                w = idl.int_width(struct, field)
                if w is None or fields[field].is_list or val is None or _is_none(val):
                    continue
                where = '%s.%s' % (mname, q)
                bval = _boolish(val)
                if isinstance(val, ast.Name):
                    # one level of local definitions: x = (a in b); se.f = x
                    defs = [s2.value for s2 in walk_no_nested(f) if isinstance(s2, ast.Assign)
                            and any(isinstance(t2, ast.Name) and t2.id == val.id for t2 in s2.targets)]
                    bval = any(_boolish(d) for d in defs)
                ctx.ob(rule, '%s:%s.%s:store-not-boolean-valued' % (where, struct, field),
                       not bval,
                       'integer/enum field %s.%s is assigned the expression %s; a Python bool is '
                       'serialised with the BOOLEAN wire type instead of %s' % (struct, field, norm(val), w),
                       m.loc(st))
                if site is not None:
                    i32_all = bool(const_value(site['i32'], False)) if site['i32'] is not None else False
                    ids32 = set()
                    if site['i32list'] is not None:
                        ids32 = {e.value for e in site['i32list'].elts}
                    marked = i32_all or fields[field].id in ids32
                    want = w in ('i32', 'enum')
                    ctx.ob(rule, '%s:%s.%s:store-marker-matches-IDL-width' % (where, struct, field),
                           marked == want or w in ('i8', 'i16'),
                           '%s.%s declared %s, object built at %s with i32=%s i32list=%s' % (
                               struct, field, w, site['loc'], i32_all, sorted(ids32)), m.loc(st))
    ctx.stat('%s attribute stores on metadata objects' % rule, nstores)
