"""setup_cmd: nothing is installed; verify the engine can load /repo and its fixtures."""
import sys
from .model import Repo, AnalysisError, CallGraph
from .idl import IDL
import os


def main():
    try:
        r = Repo()
        IDL(os.path.join(r.pkg, 'parquet.thrift'))
        cg = CallGraph(r)
        from .cfg import CFG
        n = 0
        for m, q, f in r.functions():
            CFG(f)
            n += 1
        print('engine self-check ok: %d modules, %d functions, %d/%d calls resolved' % (
            len(r.modules), n, cg.resolved, cg.resolved + cg.unresolved))
        return 0
    except AnalysisError as e:
        print('ANALYSIS-ERROR engine self-check: %s' % e)
        return 2


if __name__ == '__main__':
    sys.exit(main())
