"""Thorough-tier self-test of the checkers, both ways.

mutants : (a) every confirmed seeded change kept under seeded/<PID>-<n>/ whose MATRIX entry says the
          property's own check catches it, (b) hand-written mutants that revert the repairs made to
          /repo (fix: commits).  Each is applied to a scratch copy of /repo's package; the check must
          report a VIOLATION there.  A mutant whose anchor text is no longer present is skipped.
twins   : behaviour-preserving variants (all locals of one function renamed, lines shifted) of the
          functions the property's rules read; the check must stay silent (exit 0) on each.
The verdict on /repo never depends on these runs; a miss or a false alarm on the pristine tree is
reported as ANALYSIS-ERROR (the checker is broken), never as a VIOLATION of the property."""
import glob
import json
import os
import shutil
import subprocess
import tempfile
from concurrent.futures import ThreadPoolExecutor

from .model import repo_root
from .twin import make_twin

HERE = os.path.dirname(os.path.dirname(os.path.abspath(__file__)))

# (name, properties, file, old text, new text)  - reverting the repairs
REVERTS = [
    ('revert-F1-truncate', ['C16'], 'fastparquet/writer.py',
     '        f.write(b"PAR1")\n        f.truncate()\n', '        f.write(b"PAR1")\n'),
    ('revert-F2-flat-list-wrap', ['C13'], 'fastparquet/api.py',
     "            # flat list of conditions: a single AND group (as in filter_row_groups)\n            filters = [filters]\n",
     "            # flat list of conditions: a single AND group (as in filter_row_groups)\n            filters = list(filters)\n"),
    ('revert-F3-class-default', ['C06'], 'fastparquet/api.py', '    _categories = None\n    _columns_dtype = None\n', '    _categories = None\n'),
    ('revert-F4-no-restore', ['C07', 'C18'], 'fastparquet/writer.py',
     '                f.seek(footer_start)\n                f.write(old_tail)\n                f.truncate()\n', '                pass\n'),
    ('revert-F5-schema-copy', ['C20'], 'fastparquet/api.py',
     '        # own schema elements: SchemaHelper rebuilds their tree in place\n        fmd.schema = [s.copy() for s in fmd.schema]\n',
     '        # own schema elements: SchemaHelper rebuilds their tree in place\n'),
    ('revert-F6-bool-repetition', ['C02', 'C10'], 'fastparquet/writer.py',
     '''            se.repetition_type = (
                parquet_thrift.FieldRepetitionType.OPTIONAL
                if data[column].dtype == "O"
                else parquet_thrift.FieldRepetitionType.REQUIRED)
''', '            se.repetition_type = data[column].dtype == "O"\n'),
    ('revert-F7-filepath-first-chunk-only', ['C02', 'C14'], 'fastparquet/util.py',
     '        for rg in rgs:\n            for chunk in rg.columns:\n                chunk.file_path = k[len(basepath):].lstrip("/")\n',
     '        for rg in rgs:\n            rg.columns[0].file_path = k[len(basepath):].lstrip("/")\n'),
    ('revert-F8-mask-cursor', ['C13'], 'fastparquet/core.py',
     '            io = index_off + (len(defi) if defi is not None else len(val))  # will be new index_off\n',
     '            io = index_off + len(val)  # will be new index_off\n'),
    ('revert-F9-delta-longval', ['C03', 'C11'], 'fastparquet/core.py',
     "                encoding.NumpyIO(assign[num:num+data_header2.num_values].view('uint8')),\n                longval=longval\n",
     "                encoding.NumpyIO(assign[num:num+data_header2.num_values].view('uint8'))\n"),
    ('revert-F10-level-bound-is-value-count', ['C03', 'C11'], 'fastparquet/core.py',
     "        encoding.read_rle_bit_packed_hybrid(io_obj, bit_width, data_header2.definition_levels_byte_length,\n",
     "        encoding.read_rle_bit_packed_hybrid(io_obj, bit_width, data_header2.num_values,\n"),
    ('revert-F11-range-index-plus-one', ['C01', 'C17'], 'fastparquet/api.py',
     "                            stop=ic['start'] + size * ic['step'],\n",
     "                            stop=ic['start'] + size * ic['step'] + 1,\n"),
    ('revert-F12-constant-cast-to-partition-type', ['C05', 'C13'], 'fastparquet/api.py',
     "                if not _number_vs_numeric(val, partition_meta.get(cat)):\n",
     "                if cat:\n"),
    ('revert-F13-int96-raw-view', ['C01'], 'fastparquet/writer.py',
     "        stamps = data.values.astype('M8[ns]').view('int64')\n", "        stamps = data.values.view('int64')\n"),
    ('revert-F14-nat-not-restored', ['C01'], 'fastparquet/writer.py',
     "            if factor != 1:\n                # scaling must not move the NaT sentinel\n                out[values == nat] = nat\n", ""),
    ('revert-F15-whole-mask-per-page', ['C01', 'C03'], 'fastparquet/core.py',
     "            defi = assign._mask[num:num+data_header2.num_values]\n", "            defi = assign._mask\n"),
    ('revert-F16-buffer-sliced-directly', ['C01', 'C03'], 'fastparquet/core.py',
     "        raw_bytes = np.frombuffer(decompress_data(raw_bytes, uncompressed_page_size, codec), dtype='uint8')\n",
     "        raw_bytes = decompress_data(raw_bytes, uncompressed_page_size, codec)\n"),
    ('revert-F17-index-copies-its-buffer', ['C01', 'C06'], 'fastparquet/dataframe.py',
     "                index = Index(d, dtype=dtype, copy=False)\n", "                index = Index(d)\n"),
    ('revert-F18-levels-always-read-as-RLE', ['C03'], 'fastparquet/core.py',
     "                    io_obj, daph.definition_level_encoding,\n", "                    io_obj, parquet_thrift.Encoding.RLE,\n"),
    ('revert-F19-bare-loop-over-absent-key-values', ['C10', 'C07'], 'fastparquet/writer.py',
     "        for kv in obj.key_value_metadata or []:\n", "        for kv in obj.key_value_metadata:\n"),
    ('revert-F20-rle-bool-prefix-not-skipped', ['C03'], 'fastparquet/core.py',
     "                bit_width = 1\n                io_obj.seek(4, 1)\n", "                bit_width = 1\n"),
    ('revert-F21-decimal-object-array', ['C03'], 'fastparquet/converted_types.py',
     """            if data.dtype == "O":
                # variable-length byte strings arrive as bytes objects
                return np.array([
                    int.from_bytes(d, byteorder='big', signed=True) * scale_factor
                    for d in data
                ])
""", ""),
    ('revert-F22-missing-null-count-is-zero', ['C03', 'C17'], 'fastparquet/api.py',
     "                        if st.get(3) is None or st.get(3):\n", "                        if st.get(3):\n"),
    ('revert-F23-numpy-type-taken-blindly', ['C03', 'C17'], 'fastparquet/api.py',
     """                        nt = md.get(col, {}).get("numpy_type")
                        if "datetime64" in str(nt):
                            dt = nt
""", """                        dt = md[col]["numpy_type"]
"""),
    ('revert-F24-delta-in-place-any-item-size', ['C03'], 'fastparquet/core.py',
     '        if converts_inplace(se) and see and assign.dtype.kind not in "Mm":\n', '        if converts_inplace(se):\n'),
    ('revert-F25-upper-on-dict-codec', ['C02', 'C01', 'C07'], 'fastparquet/writer.py',
     "                if compression:\n                    # (a codec name or a dict with type and args, as for the\n",
     "                if compression and compression.upper() != \"UNCOMPRESSED\":\n                    # (a codec name or a dict with type and args, as for the\n"),
    ('revert-F26-schema-element-by-dotted-name', ['C05', 'C13'], 'fastparquet/api.py',
     "            se = schema.schema_element(column.meta_data.path_in_schema)\n", "            se = schema.schema_element(name)\n"),
    ('revert-F27-list-constant-cast-as-scalar', ['C05', 'C13'], 'fastparquet/api.py',
     """                    if isinstance(val, (tuple, list, set)):
                        # 'in' / 'not in': each candidate is typed on its own
                        val = [val_to_num(x, meta=partition_meta.get(cat))
                               for x in val]
                    else:
                        val = val_to_num(val, meta=partition_meta.get(cat))
""", """                    val = val_to_num(val, meta=partition_meta.get(cat))
"""),
    ('revert-F28-handles-located-by-fn', ['C14'], 'fastparquet/util.py',
     """        file_list = [pf.fn if pf.file_scheme in ['simple', 'empty']
                     else pf.basepath for pf in pfs]
""", """        file_list = [pf.fn for pf in pfs]
"""),
    ('revert-F29-footers-looked-up-by-caller-spelling', ['C14'], 'fastparquet/util.py',
     """                pieces = [(fn, pieces[fn] if fn in pieces
                           else pieces[fs._strip_protocol(fn)])
                          for fn in file_list[1:]]
""", """                pieces = [(fn, pieces[fn]) for fn in file_list[1:]]
"""),
    ('revert-F30-rename-through-self-fs', ['C09'], 'fastparquet/api.py',
     "            rename = self.fs.rename if hasattr(self, 'fs') else os.rename\n", "            rename = self.fs.rename\n"),
    ('revert-F31-index-level-overwrites-column', ['C01'], 'fastparquet/util.py',
     """            if name in data.columns:
                # as reset_index() refuses below for a plain index
                raise ValueError("cannot insert %s, already exists" % name)
""", ""),
    ('revert-F32-dtypes-stored-per-call', ['C17', 'C20'], 'fastparquet/api.py',
     """            dtype[cat] = "category"
        return dtype
""", """            dtype[cat] = "category"
        self.dtypes = dtype
        return dtype
"""),
    ('revert-F33-copy-shares-schema-elements', ['C20'], 'fastparquet/api.py',
     '        return {"fn": self.fn, "open": self.open, "fmd": fmd,\n                "pandas_nulls": self.pandas_nulls, "_base_dtype": self._base_dtype,\n                "tz": self.tz}\n',
     '        return {"fn": self.fn, "open": self.open, "fmd": self.fmd,\n                "pandas_nulls": self.pandas_nulls, "_base_dtype": self._base_dtype,\n                "tz": self.tz}\n'),
    ('revert-F34-part-file-for-empty-chunk', ['C01'], 'fastparquet/writer.py',
     """            if len(row_group) == 0:
                # no part file for an empty chunk (make_part_file writes
                # nothing and returns None), as in the partitioned case
                continue
""", ""),
    ('revert-F35-timedelta-stored-raw', ['C01'], 'fastparquet/writer.py',
     "            out = data.values.astype('m8[us]')\n", "            out = data.values\n"),
    ('revert-F36-categorical-stats-by-position', ['C04', 'C05'], 'fastparquet/writer.py',
     """            dnnu = data0.unique().dropna()
            dnnu = pd.Series(dnnu.astype(dnnu.categories.dtype))
""", """            dnnu = data0.unique().as_ordered()
"""),
    ('revert-F37-overwrite-keys-astype-str', ['C09'], 'fastparquet/writer.py',
     "    keys = data.loc[:,defined_partitions].apply(lambda col: col.map(path_string))\n",
     "    keys = data.loc[:,defined_partitions].astype(str)\n"),
    ('revert-F38-consolidate-bytes-keys-only', ['C07'], 'fastparquet/writer.py',
     "                             if k.key in (b'num_categories', 'num_categories')]\n", "                             if k.key == b'num_categories']\n"),
    ('revert-F39-tz-partition-type-to-np-dtype', ['C08'], 'fastparquet/util.py',
     """        if nt.startswith('datetime64[') and ',' in nt:
            # time-zone aware ('datetime64[us, UTC]'): not a numpy dtype; the
            # directory text is ISO format and carries the offset
            return pd.Timestamp(x)
""", ""),
    ('revert-F40-separators-in-key-text-accepted', ['C08'], 'fastparquet/writer.py',
     """                raise ValueError("Partition value %r cannot be used as a "
                                 "directory name" % (val,))
""", """                pass
"""),
    ('revert-F41-per-value-text-switch', ['C08'], 'fastparquet/api.py',
     """        if any(isinstance(tp, str) for tp in typed):
""", """        if False:
"""),
    ('revert-F42-check-32-off-by-one', ['C12'], 'fastparquet/writer.py', "    if x >= 2**31:\n", "    if x > 2**31:\n"),
    ('revert-F43-offsets-not-validated', ['C01'], 'fastparquet/writer.py',
     """        if (row_group_offsets[:1] != [0]
                or sorted(set(row_group_offsets)) != row_group_offsets):
""", """        if False:
"""),
    ('revert-F44-codec-default-none', ['C02'], 'fastparquet/writer.py',
     '        algorithm = compression.get("type", "gzip")\n', '        algorithm = compression.get("type", None)\n'),
    ('revert-F45-categorical-null-in-required-written', ['C02', 'C07'], 'fastparquet/writer.py',
     """            if (isinstance(data.dtype, pd.CategoricalDtype)
                    and (data.cat.codes == -1).any()):
""", """            if False:
"""),
    ('revert-F46-stats-by-position', ['C17'], 'fastparquet/api.py',
     """                        chunk = [c for c in rg[1] if c[3][3] == [col]]
                        st = chunk[0][3].get(12) if chunk else None
""", """                        st = rg[1][i][3].get(12)
"""),
    ('revert-F47-prune-on-int96', ['C05'], 'fastparquet/api.py',
     """            if column.meta_data.type == parquet_thrift.Type.INT96:
                # INT96 statistics have no defined order (and are raw 12-byte
                # strings here): never prune on them
                continue
""", ""),
    ('revert-F48-lossy-float-to-int-cast', ['C07', 'C18', 'C19'], 'fastparquet/writer.py',
     """                if (out.astype("float64") != data.values).any():
""", """                if False:
"""),
    ('revert-F49-int-metadata-believed-blindly', ['C17'], 'fastparquet/api.py',
     """                            trusted = True
""", """                            continue
"""),
    ('revert-F50-int96-dtypes-without-zone', ['C17'], 'fastparquet/api.py',
     """                    if tz is not None and tz.get(col, False):
                        z = dataframe.tz_to_dt_tz(tz[col])
                        dt = pd.Series([], dtype=dt).dt.tz_localize(z).dtype
""", ""),
    ('revert-F51-object-int-guess-not-verified', ['C01'], 'fastparquet/writer.py',
     """                    if (data.dtype.kind == "i" and
                            (values.astype("float64") != data).any()):
""", """                    if False:
"""),
    ('revert-F52-statistics-cache-kept', ['C04'], 'fastparquet/api.py',
     """        # (statistics gathered before the row groups changed are void)
        self._statistics = None
""", ""),
    ('revert-F53-head-loop-variable-unbound', ['C06'], 'fastparquet/api.py',
     """        i = -1  # no row groups: nothing to select
""", ""),
    ('revert-F54-iter-row-groups-skips-by-empty', ['C06'], 'fastparquet/api.py',
     """            if len(df):
""", """            if not df.empty:
"""),
    # (F55, the storage-width check of 49815bb, was superseded by the range check of 28da23c: see F59)
    ('revert-F56-empty-codec-spec', ['C02'], 'fastparquet/writer.py',
     """    if isinstance(compression, dict) and not compression:
""", """    if False:
"""),
    ('revert-F57-selection-footer-num-rows', ['C02', 'C06'], 'fastparquet/api.py',
     """        fmd.num_rows = sum(rg.num_rows for rg in new_rgs)
""", ""),
    ('revert-F58-multi-append-commits-per-part', ['C18', 'C07', 'C02', 'C10'], 'fastparquet/writer.py',
     """            rg_list.append(rg)
    fmd.row_groups = rg_list
""", """            rg_list.append(rg)
        fmd.row_groups = rg_list
"""),
    ('revert-F59-integer-range-of-the-logical-type', ['C07', 'C18', 'C19'], 'fastparquet/writer.py',
     """                    if (int(data.values.min()) < info.min
                            or int(data.values.max()) > info.max):
""", """                    if False:
"""),
    ('revert-F60-handle-caches-kept-after-append', ['C17'], 'fastparquet/api.py',
     """        # dtypes, the number of categories - is void)
        self._base_dtype = self._kvm = self._pdm = self._categories = None
""", """        # dtypes, the number of categories - is void)
"""),
    ('revert-F61-no-truncate-after-append', ['C16', 'C10'], 'fastparquet/writer.py',
     """            if append:
                # (new row groups and footer may be shorter than the footer
                # they replace, e.g. after key-value entries were removed)
                f.truncate()
""", ""),
    ('revert-F62-partition-names-identifiers-only', ['C08', 'C14', 'C17'], 'fastparquet/util.py',
     """            s = re.compile("([^{0}=]+)=([^{0}]+)".format(sep))
""", """            s = re.compile("([a-zA-Z_0-9]+)=([^{0}]+)".format(sep))
"""),
    ('revert-F63-glued-removal-paths', ['C09'], 'fastparquet/api.py',
     """                remove_with([join_path(basepath, file) for file in rgs_to_remove])
""", """                remove_with([f'{basepath}/{file}' for file in rgs_to_remove])
"""),
    ('revert-F64-partition-column-names-unchecked', ['C08', 'C18', 'C19'], 'fastparquet/writer.py',
     """    if with_field:
        for column in columns:
            # (name=value directories: the first "=" ends the name)
""", """    if False:
        for column in columns:
            # (name=value directories: the first "=" ends the name)
"""),
    ('revert-F65-scalar-for-a-dtype', ['C17'], 'fastparquet/api.py',
     """                            dtype[col] = np.dtype('float64')
""", """                            dtype[col] = np.float64()
"""),
    ('revert-F66-categories-dict-unchecked', ['C18'], 'fastparquet/util.py',
     """        if isinstance(arg, (tuple, list, dict)):
""", """        if isinstance(arg, (tuple, list)):
"""),
    # source-level mutants of the Cython file (they cannot be compiled here; the checks read the source)
    ('pyx-rle-run-not-clamped-to-the-output', ['C11', 'C12', 'C03'], 'fastparquet/cencoding.pyx',
     """    if count > vals_left:
        count = vals_left
""", ""),
    ('pyx-bitpacked1-not-clamped-to-the-output', ['C11', 'C12'], 'fastparquet/cencoding.pyx',
     """    if count > o.nbytes - o.loc:
        count = o.nbytes - o.loc
""", ""),
    ('pyx-write_byte-guard-off-by-one', ['C12'], 'fastparquet/cencoding.pyx',
     """        if self.loc >= self.nbytes:
            # ignore attempt to write past end of buffer
""", """        if self.loc > self.nbytes:
            # ignore attempt to write past end of buffer
"""),
    ('pyx-write_int-guard-too-small', ['C12'], 'fastparquet/cencoding.pyx',
     """    cpdef void write_int(self, int32_t i):
        if self.nbytes - self.loc < 4:
""", """    cpdef void write_int(self, int32_t i):
        if self.nbytes - self.loc < 2:
"""),
    ('pyx-write_long-guard-too-small', ['C12'], 'fastparquet/cencoding.pyx',
     """    cdef void write_long(self, int64_t i):
        if self.nbytes - self.loc < 8:
""", """    cdef void write_long(self, int64_t i):
        if self.nbytes - self.loc < 4:
"""),
    ('pyx-hybrid-loop-ignores-output-capacity', ['C11'], 'fastparquet/cencoding.pyx',
     """    while io_obj.loc - start < length and o.loc < o.nbytes:
""", """    while io_obj.loc - start < length:
"""),
    ('pyx-bitpacked-end-pointer-one-item-late', ['C11', 'C12'], 'fastparquet/cencoding.pyx',
     """    endptr = (o.nbytes - o.loc) + outptr - itemsize
""", """    endptr = (o.nbytes - o.loc) + outptr
"""),
    ('pyx-varint-encoder-8-bit-groups', ['C11'], 'fastparquet/cencoding.pyx',
     """        o.write_byte((x & 0x7F) | 0x80)
        x >>= 7
""", """        o.write_byte((x & 0x7F) | 0x80)
        x >>= 8
"""),
    ('pyx-varint-decoder-8-bit-groups', ['C11'], 'fastparquet/cencoding.pyx',
     """            break
        shift += 7
""", """            break
        shift += 8
"""),
    ('pyx-zigzag-decoder-loses-the-sign', ['C11', 'C10'], 'fastparquet/cencoding.pyx',
     """cdef int64_t zigzag_long(uint64_t n):
    return (n >> 1) ^ -(n & 1)
""", """cdef int64_t zigzag_long(uint64_t n):
    return (n >> 1) ^ (n & 1)
"""),
    ('revert-F68-strings-into-a-categorical-column', ['C07', 'C18', 'C19'], 'fastparquet/api.py',
     """                if col in data.columns and not isinstance(
                        data[col].dtype, pd.CategoricalDtype):
""", """                if False:
"""),
    ('revert-F69-unparsable-partition-value', ['C07', 'C18', 'C19'], 'fastparquet/api.py',
     """                        except (ValueError, TypeError):
                            raise ValueError(
""", """                        except (ValueError, TypeError):
                            pass
                        if False:
                            raise ValueError(
"""),
    ('revert-F67-v2-levels-only-with-nulls', ['C15'], 'fastparquet/core.py',
     """    if max_def and (data_header2.num_nulls or max_rep):
""", """    if max_def and data_header2.num_nulls:
"""),
]

# functions whose twins are run per property (module, qualname)
TWIN_FUNCS = {
    'C01': [('writer', 'find_type'), ('writer', 'convert'), ('writer', 'write_column'), ('core', 'read_data_page_v2'), ('converted_types', 'convert')],
    'C02': [('writer', 'write_column'), ('writer', 'make_part_file'), ('writer', 'write_simple'), ('writer', 'write_common_metadata'),
            ('writer', 'make_metadata'), ('writer', 'make_row_group'), ('util', 'metadata_from_many')],
    'C03': [('core', 'read_data_page'), ('core', 'read_data_page_v2'), ('core', 'read_col'), ('encoding', 'read_plain')],
    'C04': [('writer', 'write_column'), ('api', 'statistics'), ('writer', 'make_row_group'), ('api', 'sorted_partitioned_columns')],
    'C05': [('api', 'filter_val'), ('api', 'filter_in'), ('api', 'filter_not_in'), ('api', 'filter_out_stats'), ('api', 'filter_out_cats'),
            ('api', 'filter_row_groups'), ('util', '_val_to_num')],
    'C06': [('api', 'ParquetFile.to_pandas'), ('api', 'ParquetFile.__getitem__'), ('api', 'ParquetFile.count'), ('api', 'ParquetFile.head'),
            ('api', 'ParquetFile._set_attrs'), ('api', 'ParquetFile.pre_allocate')],
    'C07': [('writer', 'write_simple'), ('writer', 'write_multi'), ('writer', 'find_max_part'), ('api', 'ParquetFile.write_row_groups'),
            ('writer', 'partition_on_columns'), ('writer', 'write')],
    'C08': [('writer', 'partition_on_columns'), ('api', '_path_to_cats'), ('core', 'read_row_group'), ('api', 'filter_out_cats'),
            ('util', 'path_string'), ('writer', 'make_metadata')],
    'C09': [('api', 'ParquetFile.remove_row_groups'), ('api', 'ParquetFile._sort_part_names'), ('writer', 'overwrite'), ('writer', 'write_multi'),
            ('api', 'part_ids'), ('writer', 'merge')],
    'C10': [('writer', 'write_column'), ('writer', 'make_metadata'), ('util', 'update_custom_metadata'), ('writer', 'find_type')],
    'C11': [('core', 'read_data_page'), ('core', 'read_data_page_v2'), ('writer', 'make_definitions'), ('writer', 'encode_dict')],
    'C12': [('writer', 'write_column'), ('writer', 'check_32')],
    'C13': [('api', 'ParquetFile._column_filter'), ('api', 'ParquetFile.to_pandas'), ('api', 'ParquetFile.count'), ('core', 'read_col'),
            ('api', 'ParquetFile.read_row_group_file')],
    'C14': [('util', 'metadata_from_many'), ('api', 'ParquetFile.__init__'), ('writer', 'consolidate_categories'), ('writer', 'merge')],
    'C15': [('core', 'read_col'), ('core', 'read_row_group_arrays'), ('schema', '_is_list_like'), ('schema', '_is_map_like')],
    'C16': [('writer', 'update_file_custom_metadata'), ('util', 'update_custom_metadata'), ('writer', 'write'), ('writer', 'write_thrift'),
            ('api', 'ParquetFile.key_value_metadata')],
    'C17': [('api', 'ParquetFile.pre_allocate'), ('api', '_pre_allocate'), ('api', 'ParquetFile._dtypes'), ('api', 'ParquetFile.to_pandas')],
    'C18': [('writer', 'write_simple'), ('writer', 'write'), ('writer', 'overwrite'), ('api', 'ParquetFile.write_row_groups'),
            ('writer', 'make_metadata'), ('writer', 'find_type')],
    'C19': [('writer', 'write_multi'), ('api', 'ParquetFile.write_row_groups'), ('writer', 'partition_on_columns'),
            ('api', 'ParquetFile._write_common_metadata'), ('writer', 'write_common_metadata'), ('writer', 'find_max_part')],
    'C20': [('api', 'ParquetFile.__getitem__'), ('writer', 'make_part_file'), ('api', 'filter_out_stats'), ('schema', 'schema_tree'),
            ('api', 'ParquetFile.to_pandas'), ('api', 'ParquetFile.read_row_group_file')],
}


def _scratch():
    d = tempfile.mkdtemp(prefix='fpq_selftest_')
    r = os.path.join(d, 'r')
    os.makedirs(r)
    subprocess.check_call('cd %s && git ls-files -z fastparquet | xargs -0 cp --parents -t %s' % (repo_root(), r), shell=True)
    # the working tree may differ from HEAD: copy the current files over
    for dp, dn, fn in os.walk(os.path.join(repo_root(), 'fastparquet')):
        for f in fn:
            if f.endswith(('.py', '.pyx', '.thrift')):
                src = os.path.join(dp, f)
                dst = os.path.join(r, os.path.relpath(src, repo_root()))
                if os.path.exists(os.path.dirname(dst)):
                    shutil.copy(src, dst)
    return d, r


def _run(pid, root):
    q = subprocess.run(['/venv/bin/python', '-m', 'engine.check', pid, '--repo', root, '--no-evidence', '--json'],
                       cwd=HERE, capture_output=True, text=True)
    keys = []
    for l in q.stdout.split('\n'):
        if l.startswith('RESULT-JSON '):
            keys = json.loads(l[12:])['violations']
    return q.returncode, keys


def _mutant_job(job):
    kind, name, pid, payload = job
    d, r = _scratch()
    try:
        if kind == 'patch':
            p = subprocess.run(['git', 'apply', '--unsafe-paths', '--directory=' + r, payload], cwd='/', capture_output=True, text=True)
            if p.returncode:
                return name, 'skipped', 'patch does not apply to the current tree'
        elif kind == 'commit':
            # the repair itself, taken back: the reverse of the fix commit's diff
            q = subprocess.run(['git', '-C', repo_root(), 'diff', payload + '^', payload, '--', 'fastparquet'], capture_output=True, text=True)
            if q.returncode or not q.stdout.strip():
                return name, 'skipped', 'commit not available'
            pf = os.path.join(d, 'fix.diff')
            open(pf, 'w').write(q.stdout)
            p = subprocess.run(['git', 'apply', '-R', '--unsafe-paths', '--directory=' + r, pf], cwd='/', capture_output=True, text=True)
            if p.returncode:
                return name, 'skipped', 'later repairs changed the same lines: the commit cannot be taken back on its own'
        else:
            f, old, new = payload
            path = os.path.join(r, f)
            s = open(path).read()
            if s.count(old) != 1:
                return name, 'skipped', 'anchor text not present in the current tree'
            open(path, 'w').write(s.replace(old, new))
        rc, keys = _run(pid, r)
        if rc == 1:
            return name, 'fired', sorted({k.split(':')[0] for k in keys})
        return name, 'missed', 'exit %d' % rc
    finally:
        shutil.rmtree(d)


def _twin_job(job):
    pid, mod, qual = job
    d, r = _scratch()
    try:
        path = os.path.join(r, 'fastparquet', mod + '.py')
        txt, n = make_twin(path, qual)
        if txt is None:
            return '%s.%s' % (mod, qual), 'skipped', 'no locals to rename / function not found'
        open(path, 'w').write(txt)
        rc, keys = _run(pid, r)
        if rc == 0:
            return '%s.%s' % (mod, qual), 'silent', n
        return '%s.%s' % (mod, qual), 'alarm' if rc == 1 else 'analysis-error', keys[:3]
    finally:
        shutil.rmtree(d)


def _benign_job(job):
    pid, name, patch = job
    d, r = _scratch()
    try:
        p = subprocess.run(['git', 'apply', '--unsafe-paths', '--directory=' + r, patch], cwd='/', capture_output=True, text=True)
        if p.returncode:
            return 'benign/' + name, 'skipped', 'patch does not apply to the current tree'
        rc, keys = _run(pid, r)
        if rc == 0:
            return 'benign/' + name, 'silent', 0
        return 'benign/' + name, 'alarm' if rc == 1 else 'analysis-error', keys[:3]
    finally:
        shutil.rmtree(d)


def run_for(ctx, pid):
    matrix = {}
    mp = os.path.join(HERE, 'seeded', 'MATRIX.json')
    if os.path.exists(mp):
        matrix = json.load(open(mp))
    jobs = []
    for sd in sorted(glob.glob(os.path.join(HERE, 'seeded', 'C*-*'))):
        name = os.path.basename(sd)
        ent = matrix.get(name, {}).get(pid)
        if isinstance(ent, dict) and ent.get('exit') == 1:
            jobs.append(('patch', 'seeded/' + name, pid, os.path.join(sd, 'patch.diff')))
    for name, pids, f, old, new in REVERTS:
        if pid in pids:
            jobs.append(('text', name, pid, (f, old, new)))
    # every repair recorded for this property, taken back as a whole (reverse of the fix commit)
    import re as _re
    kf = json.load(open(os.path.join(HERE, 'known_findings.json')))
    for e in kf.get('fixed', []):
        m_ = _re.match(r'fixed: property=(C\d\d) (\w+) ', e)
        if m_ and m_.group(1) == pid:
            jobs.append(('commit', 'revert-commit-' + m_.group(2), pid, m_.group(2)))
    tjobs = [(pid, m, q) for m, q in TWIN_FUNCS.get(pid, [])]
    # behaviour-preserving refactors made for this property by fresh agents (benign/<pid>-b<n>): must stay silent
    known_alarms = {}
    ka = os.path.join(HERE, 'benign', 'KNOWN_ALARMS.json')
    if os.path.exists(ka):
        known_alarms = json.load(open(ka))
    bjobs = [(pid, os.path.basename(b), os.path.join(b, 'patch.diff')) for b in sorted(glob.glob(os.path.join(HERE, 'benign', pid + '-[a-z]*')))
             if os.path.basename(b) not in known_alarms]
    with ThreadPoolExecutor(12) as ex:
        mres = list(ex.map(_mutant_job, jobs))
        tres = list(ex.map(_twin_job, tjobs)) + list(ex.map(_benign_job, bjobs))
    st = {
        'mutants_applied': sum(1 for _, s, _ in mres if s != 'skipped'),
        'fired': {n: d for n, s, d in mres if s == 'fired'},
        'missed': [n for n, s, _ in mres if s == 'missed'],
        'skipped': {n: d for n, s, d in mres if s == 'skipped'},
        'twins_run': sum(1 for _, s, _ in tres if s != 'skipped'),
        'silent_on_twins': [n for n, s, _ in tres if s == 'silent'],
        'false_alarm_on_twins': [n for n, s, _ in tres if s == 'alarm'],
        'analysis_error_on_twins': [n for n, s, _ in tres if s == 'analysis-error'],
    }
    ctx.selftest = st
    print('%s self-test: %d mutants applied, %d fired, %d missed, %d skipped; %d twins, %d silent, %d false alarms' % (
        pid, st['mutants_applied'], len(st['fired']), len(st['missed']), len(st['skipped']),
        st['twins_run'], len(st['silent_on_twins']), len(st['false_alarm_on_twins'])))
