"""Inventory of stores to caller-visible (possibly shared) heap objects.

For a function, a name is *visible* when it is `self`, a parameter, a module global, or a
local bound (directly or through attribute / subscript / iteration / method call) to
something reached from a visible name.  A local bound to a freshly created object
(constructor call, literal, comprehension, copy, np.empty ...) is *fresh*.  Sinks are
attribute stores, subscript stores, augmented assignments to those, `del`, and mutating
method calls, whose root name is visible.
"""
import ast

from .model import callee, norm, walk_no_nested, dotted

MUTATORS = {'append', 'extend', 'pop', 'remove', 'update', 'sort', 'clear', 'setdefault', 'insert',
            'add', 'discard', 'popitem', '_set_categories', 'set_categories', 'fill', 'resize', 'reverse'}
FRESH_CALLS = {'dict', 'list', 'set', 'OrderedDict', 'defaultdict', 'tuple', 'np.empty', 'np.zeros', 'np.ones',
               'np.array', 'np.frombuffer', 'np.arange', 'copy.copy', 'copy.deepcopy', 'copy', 'deepcopy',
               'sorted', 'object.__new__', 'pd.Series', 'pd.DataFrame', 'pd.Index', 'pd.Categorical',
               'ThriftObject', 'ThriftObject.from_fields', 'from_buffer', 'ThriftObject.from_buffer',
               'encoding.NumpyIO', 'NumpyIO', 'io.BytesIO', 're.compile', 'json_decoder', 'json_encoder',
               'str', 'int', 'float', 'bytes', 'len', 'sum', 'max', 'min', 'zip', 'enumerate', 'range',
               'isinstance', 'getattr', 'hasattr', 'any', 'all', 'set', 'filter', 'map'}


def root_name(node):
    while isinstance(node, (ast.Attribute, ast.Subscript, ast.Call)):
        node = node.func if isinstance(node, ast.Call) else node.value
    return node.id if isinstance(node, ast.Name) else None


def _fresh_expr(e):
    if isinstance(e, (ast.Constant, ast.List, ast.Tuple, ast.Dict, ast.Set, ast.ListComp, ast.DictComp,
                      ast.SetComp, ast.GeneratorExp, ast.JoinedStr, ast.Compare, ast.BoolOp, ast.BinOp,
                      ast.UnaryOp, ast.Lambda)):
        return True
    if isinstance(e, ast.Call):
        c = callee(e) or ''
        if c in FRESH_CALLS or c.startswith('parquet_thrift.') or c.startswith('np.') or c.startswith('pd.'):
            return True
        if isinstance(e.func, ast.Attribute) and e.func.attr in ('copy', 'deepcopy', 'view', 'astype', 'decode',
                                                                 'encode', 'split', 'format', 'join', 'sum', 'items',
                                                                 'keys', 'values', 'tolist', 'to_bytes', 'read', 'tell'):
            return e.func.attr in ('copy', 'deepcopy', 'astype', 'decode', 'encode', 'split', 'format', 'join',
                                   'sum', 'tolist', 'to_bytes', 'read', 'tell')
    return False


def visible_names(func, module):
    vis = {a.arg for a in func.args.posonlyargs + func.args.args + func.args.kwonlyargs}
    if func.args.vararg:
        vis.add(func.args.vararg.arg)
    if func.args.kwarg:
        vis.add(func.args.kwarg.arg)
    globs = set(module.assigns)
    fresh = set()
    changed = True
    it = 0
    while changed and it < 10:
        changed = False
        it += 1
        for st in walk_no_nested(func):
            pairs = []
            if isinstance(st, ast.Assign):
                for t in st.targets:
                    pairs.append((t, st.value))
            elif isinstance(st, (ast.For, ast.AsyncFor)):
                pairs.append((st.target, st.iter))
            elif isinstance(st, ast.With):
                for i in st.items:
                    if i.optional_vars is not None:
                        pairs.append((i.optional_vars, i.context_expr))
            elif isinstance(st, ast.comprehension):
                pairs.append((st.target, st.iter))
            for tgt, val in pairs:
                names = [n.id for n in ast.walk(tgt) if isinstance(n, ast.Name)] if isinstance(tgt, (ast.Name, ast.Tuple, ast.List)) else []
                if not names:
                    continue
                if _fresh_expr(val):
                    for n in names:
                        if n not in vis:
                            fresh.add(n)
                    continue
                src_roots = {n.id for n in ast.walk(val) if isinstance(n, ast.Name)}
                if src_roots & (vis | globs):
                    for n in names:
                        if n not in vis:
                            vis.add(n)
                            changed = True
    return vis, globs


def stores(func, module):
    """yield (kind, target_text, root, node) for sinks rooted at a visible or global name"""
    vis, globs = visible_names(func, module)
    declared_global = set()
    for st in walk_no_nested(func):
        if isinstance(st, ast.Global):
            declared_global |= set(st.names)
    out = []

    def consider(kind, target, node):
        r = root_name(target)
        if r is None:
            return
        if r in vis or (r in globs and r not in vis):
            out.append((kind, norm(target), r, node))

    for st in walk_no_nested(func):
        if isinstance(st, ast.Assign):
            for t in st.targets:
                for tt in (t.elts if isinstance(t, (ast.Tuple, ast.List)) else [t]):
                    if isinstance(tt, (ast.Attribute, ast.Subscript)):
                        consider('store', tt, st)
                    elif isinstance(tt, ast.Name) and tt.id in declared_global:
                        out.append(('global', tt.id, tt.id, st))
        elif isinstance(st, ast.AugAssign):
            if isinstance(st.target, (ast.Attribute, ast.Subscript)):
                consider('augstore', st.target, st)
            elif isinstance(st.target, ast.Name) and st.target.id in declared_global:
                out.append(('global', st.target.id, st.target.id, st))
        elif isinstance(st, ast.Delete):
            for t in st.targets:
                if isinstance(t, (ast.Attribute, ast.Subscript)):
                    consider('del', t, st)
        elif isinstance(st, ast.Call) and isinstance(st.func, ast.Attribute) and st.func.attr in MUTATORS:
            consider('mutate:' + st.func.attr, st.func.value, st)
    return out


# ---------------------------------------------------------------------------
# origin tracking: which parameter / self / global does a local derive from

def origins(func, module):
    """name -> set of origin roots; an origin root is a parameter name, 'self', 'global:<n>',
    or 'fresh' (bound to the result of a call / literal / comprehension)."""
    params = {a.arg for a in func.args.posonlyargs + func.args.args + func.args.kwonlyargs}
    if func.args.vararg:
        params.add(func.args.vararg.arg)
    if func.args.kwarg:
        params.add(func.args.kwarg.arg)
    globs = set(module.assigns) | set(module.imports)
    org = {p: {p} for p in params}

    def expr_origin(e):
        # value produced by a call is per-call unless it is a bound method of an object we track
        if isinstance(e, ast.Call):
            if isinstance(e.func, ast.Attribute) and e.func.attr in ('get', 'setdefault', 'pop', '__getitem__'):
                return expr_origin(e.func.value)
            return {'fresh'}
        if isinstance(e, (ast.Constant, ast.List, ast.Tuple, ast.Dict, ast.Set, ast.ListComp, ast.DictComp,
                          ast.SetComp, ast.GeneratorExp, ast.JoinedStr, ast.Compare, ast.BinOp, ast.UnaryOp,
                          ast.Lambda)):
            return {'fresh'}
        if isinstance(e, ast.BoolOp):
            out = set()
            for v in e.values:
                out |= expr_origin(v)
            return out
        if isinstance(e, ast.IfExp):
            return expr_origin(e.body) | expr_origin(e.orelse)
        if isinstance(e, ast.Subscript) and isinstance(e.slice, ast.Slice) and e.slice.lower is None \
                and e.slice.upper is None and e.slice.step is None:
            return {'fresh'}          # x[:] is a shallow copy of the container
        if isinstance(e, (ast.Attribute, ast.Subscript)):
            return expr_origin(e.value)
        if isinstance(e, ast.Starred):
            return expr_origin(e.value)
        if isinstance(e, ast.Name):
            if e.id in org:
                return set(org[e.id])
            if e.id in globs:
                return {'global:' + e.id}
            return {'fresh'}
        return {'fresh'}

    changed = True
    it = 0
    while changed and it < 12:
        changed = False
        it += 1
        for st in walk_no_nested(func):
            pairs = []
            if isinstance(st, ast.Assign):
                for t in st.targets:
                    pairs.append((t, st.value, False))
            elif isinstance(st, (ast.For, ast.AsyncFor)):
                pairs.append((st.target, st.iter, True))
            elif isinstance(st, ast.With):
                for i in st.items:
                    if i.optional_vars is not None:
                        pairs.append((i.optional_vars, i.context_expr, False))
            elif isinstance(st, ast.comprehension):
                pairs.append((st.target, st.iter, True))
            for tgt, val, is_iter in pairs:
                if isinstance(tgt, ast.Name):
                    names = [tgt.id]
                elif isinstance(tgt, (ast.Tuple, ast.List)):
                    names = [n.id for n in ast.walk(tgt) if isinstance(n, ast.Name)]
                else:
                    continue
                o = expr_origin(val)
                if is_iter and isinstance(val, ast.Call):
                    # iterating zip(a, b) / enumerate(a) / a.items() / a.copy().items(): the *elements*
                    # come from the arguments / the receiver (shallow copies share their elements)
                    def iter_origin(e):
                        if isinstance(e, ast.Call):
                            oo = set()
                            for a in e.args:
                                oo |= iter_origin(a)
                            if isinstance(e.func, ast.Attribute):
                                oo |= iter_origin(e.func.value)
                            return oo
                        return expr_origin(e)
                    o = iter_origin(val) or {'fresh'}
                for n in names:
                    if n in params and n not in org:
                        continue
                    cur = org.setdefault(n, set())
                    if not o <= cur:
                        cur |= o
                        changed = True
    return org, expr_origin


def classified_stores(func, module):
    """list of dicts: kind, target, suffix (target text without the leading variable), origins, node"""
    org, expr_origin = origins(func, module)
    declared_global = set()
    for st in walk_no_nested(func):
        if isinstance(st, ast.Global):
            declared_global |= set(st.names)
    out = []

    def add(kind, target, node):
        r = root_name(target)
        if r is None:
            return
        o = expr_origin(target if not isinstance(target, ast.Call) else target.func)
        txt = norm(target)
        suffix = txt[len(r):] if txt.startswith(r) else txt
        out.append({'kind': kind, 'target': txt, 'root': r, 'suffix': suffix, 'origins': o, 'node': node})

    for st in walk_no_nested(func):
        if isinstance(st, ast.Assign):
            for t in st.targets:
                for tt in (t.elts if isinstance(t, (ast.Tuple, ast.List)) else [t]):
                    if isinstance(tt, (ast.Attribute, ast.Subscript)):
                        add('store', tt, st)
                    elif isinstance(tt, ast.Name) and tt.id in declared_global:
                        out.append({'kind': 'global', 'target': tt.id, 'root': tt.id, 'suffix': '',
                                    'origins': {'global:' + tt.id}, 'node': st})
        elif isinstance(st, ast.AugAssign):
            if isinstance(st.target, (ast.Attribute, ast.Subscript)):
                add('augstore', st.target, st)
        elif isinstance(st, ast.Delete):
            for t in st.targets:
                if isinstance(t, (ast.Attribute, ast.Subscript)):
                    add('del', t, st)
        elif isinstance(st, ast.Call) and isinstance(st.func, ast.Attribute) and st.func.attr in MUTATORS:
            add('mutate:' + st.func.attr, st.func.value, st)
    return out
